"""C05 — assertions are honoured only inside their validity windows plus configured skew."""
from harness import env, render, spaccept, world
from harness.common import Raw, cq

PID = "C05"
PARALLEL = 12
IMPORTS = "From Verif Require Import C05.Model C05.Spec C05.Time C05.Corr."
CASE_TYPE = "C05.Corr.case"
RUNNER = "C05.Corr.run"
FINDING_CLASSES = {}
EXHAUSTIVE = False
RULE = ("one-dimensional sweeps (exhaustive): each of the six timestamps over the offset list {absent, -1h, -skew-2, "
        "-skew-1, -skew, -skew+1, -1, 0, +1, +skew-1, +skew, +skew+1, +skew+2, +1h, +-1d, +-(1d+skew)+{-2..2}} x skew "
        "{unset, 0, 60, 180} x syntax {plain, fractional}; complete NotBefore x NotOnOrAfter products for Conditions "
        "and SubjectConfirmationData; seeded random combinations of all six.  Every case is a signed Response run "
        "through parse_authn_request_response under a frozen virtual clock.  WHOLE-MESSAGE cases (the shape of the "
        "message is an input, Model.message): delivery {HTTP-POST, HTTP-Redirect, SOAP = synchronous path, PAOS} x "
        "Destination {own endpoint, absent, somebody else's} x assertion {clear, EncryptedAssertion} with the IssueInstant "
        "sweep exhaustive per delivery and the other five sweeps over the window offsets; 0/2/3/n AuthnStatements "
        "(complete products of {absent, -1h, -skew-2, -skew-1, -skew+1, +skew+1, +1h} for two, per skew); 0/1/2/n bearer "
        "SubjectConfirmations from the shapes {no data, open, both bounds, expired, expired by 1 s, too early, NotBefore "
        "only, no bounds, inside by 1 s, inside-but-unordered} (complete products for two); no Conditions / Conditions "
        "without bounds / without AudienceRestriction / the empty element; seeded random mixtures of everything.  DECORATED cases "
        "(round 6; Model.dinput): what stands around the time stamps is an input — the Address of the bearer "
        "SubjectConfirmationData {absent, empty, IPv4, IPv6 plain / bracketed / unabbreviated, host name, octet out of "
        "range, CIDR} x all window shapes x skew, and under the sweeps of the five window stamps; the peer the application "
        "names in conv_info {none, wildcard, no remote_addr key, the Address, another, other spelling} x Address x window x "
        "delivery; the confirmation METHOD {bearer, holder-of-key, sender-vouches, unknown} x data {none, inside, expired, "
        "too early, NotBefore only} x KeyInfo, complete products of two confirmations out of 15 decorated shapes; "
        "decorations the model does not know (OneTimeUse / ProxyRestriction in Conditions, SubjectLocality in the "
        "AuthnStatement, KeyInfo in bearer data) alone and under the sweeps; the UNSOLICITED exchange (allow_unsolicited, no "
        "InResponseTo anywhere, nothing / an unrelated request pending) under the sweeps and window shapes; random mixtures.  non-trivial = distinct (field, offset "
        "class, skew, syntax) tuples / distinct message shapes where at least one part is not at its baseline position")
TRUSTED = ["source-to-Gallina translator harness/py2coq.py + coq/theories/Base/Py.v (validate_on_or_after / validate_before are "
           "re-translated from the source text on every run; c05_source_* prove them equal to the model)",
           "source-to-Gallina translator v2 harness/py2coq2.py + coq/theories/Base/Py2.v (semantics and trusted base: "
           "notes/translator_v2.md); re-translated from the source text on every run into coq/gen/C05Src2.v: "
           "validate.validate_on_or_after, validate.validate_before, time_util.later_than, response.authn_response, "
           "AuthnResponse.authn_statement_ok, AuthnResponse.condition_ok, AuthnResponse._bearer_confirmed, "
           "AuthnResponse.session_info; into coq/gen/C05Src2v.v: StatusResponse.issue_instant_ok after the call-shape "
           "rewrite X.timetuple() -> timetuple(X) (harness/c05.py:_timetuple_shape) and StatusResponse._verify after the "
           "float constant 2.0 is made an external value (_float_shape); c05_source2_* (C05/Property.v, proofs in "
           "C05/Source2.v) prove each equal to the model function / stage of Model.accept it mirrors, "
           "c05_source2_accept_by_parts that the stages compose to Model.accept; c05_source2_bearer_confirmed_address* : "
           "_bearer_confirmed on data that name an Address (valid_address external)",
           "xmlsec1 stand-in", "renderer harness/render.py", "virtual clock harness/env.py (patches saml2.time_util.time/datetime)"]
ASSUMPTIONS = ["timestamps later than 1970 + skew", "clock reads whole seconds (utc_now truncates)",
               "bearer SubjectConfirmationData with NotBefore also carries NotOnOrAfter (completeness half only)",
               "whole-message cases: ONE bearer confirmation whose window holds now confirms the subject (soundness half: "
               "exists); completeness half only for exactly one AuthnStatement, a delivery Entity.unravel unpacks (POST, "
               "Redirect, SOAP), a Destination that is absent or the SP's own, and every bearer confirmation carrying data",
               "decorated cases: a holder-of-key / sender-vouches confirmation may confirm the subject in place of a bearer one "
               "(the property speaks of bearer data only); now has to be inside the bounds of EVERY bearer "
               "SubjectConfirmationData; which Address texts are IPv4/IPv6 is the generator's table (harness/c05.py:ADDRS); "
               "completeness half only for all-bearer messages whose Addresses are well-formed and name the reported peer"]

NOW = spaccept.NOW


def regenerate_tables(ctx):
    """Translator: validate.validate_on_or_after / validate_before as they read NOW -> coq/gen/C05Src.v;
    C05/Source.v proves them equal to the model (clock and timestamp parser are parameters).
    Translator v2: the functions of source2_items() -> coq/gen/C05Src2.v and issue_instant_ok (one call shape
    rewritten) -> coq/gen/C05Src2v.v; C05/Source2.v proves each equal to the model function it mirrors."""
    import os
    from harness import common, py2coq, py2coq2
    calls = {"time_util.utc_now": lambda a: "now", "calendar.timegm": lambda a: "(to_secs %s)" % a[0],
             "time_util.str_to_time": lambda a: a[0], "time.strftime": lambda a: "PNone", "time.gmtime": lambda a: "PNone"}
    ex = [("now", "pyval"), ("to_secs", "pyval -> pyval")]
    src = os.path.join(env.SRC, "saml2", "validate.py")
    v1 = py2coq.regenerate(os.path.join(common.GEN, "C05Src.v"), [
        (src, "validate_on_or_after", {"name": "src_validate_on_or_after", "params": ["not_on_or_after", "slack"],
                                       "extra_params": ex, "calls": calls}),
        (src, "validate_before", {"name": "src_validate_before", "params": ["not_before", "slack"],
                                  "extra_params": ex, "calls": calls})])
    v2 = py2coq2.regenerate(os.path.join(common.GEN, "C05Src2.v"), source2_items())
    v2v = regenerate_issue_instant(os.path.join(common.GEN, "C05Src2v.v"))
    out = dict(v1)
    out.update({"changed": bool(v1["changed"]) or bool(v2["changed"]) or bool(v2v["changed"]),
                "obligations": v1["obligations"] + v2["obligations"] + v2v["obligations"],
                "discharged": v1["discharged"] + v2["discharged"] + v2v["discharged"],
                "untranslatable": list(v1.get("untranslatable", [])) + list(v2["untranslatable"]) + list(v2v["untranslatable"]),
                "translated": list(v1.get("translated", [])) + list(v2["translated"]) + list(v2v["translated"]),
                "source": v1, "source2": v2, "source2v": v2v, "functions": SOURCE2_FUNCTIONS})
    return out


# ------------------------------------------------------------------------------ translator v2: specs
SOURCE2_FUNCTIONS = ["validate.py:validate_on_or_after", "validate.py:validate_before", "time_util.py:later_than",
                     "response.py:authn_response", "response.py:StatusResponse.issue_instant_ok",
                     "response.py:StatusResponse._verify",
                     "response.py:AuthnResponse.authn_statement_ok", "response.py:AuthnResponse.condition_ok",
                     "response.py:AuthnResponse._bearer_confirmed", "response.py:AuthnResponse.session_info"]
# exception classes the translated functions raise (all direct children of Exception as far as `except` clauses of
# these functions can tell: the only clauses are `except Exception`, `except KeyError`, `except TypeError`)
EXC_PARENTS = {"ResponseLifetimeExceed": ["Exception"], "ToEarly": ["Exception"], "NotValid": ["Exception"],
               "StatusInvalidAuthnResponseStatement": ["Exception"]}


def source2_items():
    """[(source file, qualified name, spec)] for harness/py2coq2.py.  The clock (time_util.utc_now), the time-stamp
    readers (calendar.timegm . str_to_time: [to_secs]; str_to_time as a comparable struct_time: [parse]; time.gmtime)
    and the calls that leave the anchored code (keyswv, for_me, valid_address, issuer, authn_info, ...) are extra
    parameters of the Gallina definitions; the three methods call the TRANSLATED validate_* / later_than, so the
    theorems about them assume nothing about those."""
    import os
    sdir = os.path.join(env.SRC, "saml2")
    val, tu, rsp = (os.path.join(sdir, f) for f in ("validate.py", "time_util.py", "response.py"))
    clock = [("now", "pyval"), ("to_secs", "pyval -> pyval")]
    cmpt = [("parse", "pyval -> pyval"), ("gmtime", "pyval -> pyval")]
    vcalls = {"time_util.utc_now": lambda a: "now", "calendar.timegm": lambda a: "(to_secs %s)" % a[0],
              "time_util.str_to_time": lambda a: a[0], "time.strftime": lambda a: "PNone", "time.gmtime": lambda a: "PNone",
              "%": lambda a: "PNone"}      # the message texts are dropped (their operands are still evaluated)
    voa = lambda a: "(src2_validate_on_or_after now to_secs %s %s)" % tuple(a)  # noqa: E731  (the translated callees)
    vb = lambda a: "(src2_validate_before now to_secs %s %s)" % tuple(a)  # noqa: E731
    lt = lambda a: "(src2_later_than parse gmtime %s %s)" % tuple(a)  # noqa: E731

    def ctor(a, kw):   # AuthnResponse(...): the arguments the constructor is called with, as a dict
        return "(p2_mkdict [%s])" % "; ".join(['("arg%d", %s)' % (i, t) for i, t in enumerate(a)] +
                                              ['("%s", %s)' % (k, t) for k, t in kw.items()])
    return [
        (val, "validate_on_or_after", {"name": "src2_validate_on_or_after", "params": ["not_on_or_after", "slack"],
                                       "extra_params": clock, "calls": vcalls, "exc_parents": EXC_PARENTS}),
        (val, "validate_before", {"name": "src2_validate_before", "params": ["not_before", "slack"],
                                  "extra_params": clock, "calls": vcalls, "exc_parents": EXC_PARENTS}),
        (tu, "later_than", {"name": "src2_later_than", "params": ["after", "before"], "extra_params": cmpt,
                            "calls": {"str_to_time": lambda a: "(parse %s)" % a[0],
                                      "time.gmtime": lambda a: "(gmtime %s)" % a[0]}}),
        # skew plumbing: the factory (int() is external: int(None) raises TypeError, which the embedding's own
        # int() does not model)
        (rsp, "authn_response", {
            "name": "src2_authn_response",
            "params": ["conf", "return_addrs", "outstanding_queries", "timeslack", "asynchop", "allow_unsolicited",
                       "want_assertions_signed", "conv_info"],
            "extra_params": [("security_context", "pyval -> pyval"), ("int_", "pyval -> pyval")],
            "calls": {"security_context": lambda a: "(security_context %s)" % a[0], "int": lambda a: "(int_ %s)" % a[0],
                      "AuthnResponse": ctor}}),
        (rsp, "AuthnResponse.authn_statement_ok", {
            "name": "src2_authn_statement_ok", "params": ["self", "optional"], "extra_params": clock,
            "returns_state": ["self"], "exc_parents": EXC_PARENTS,
            "calls": {"validate_on_or_after": voa, "calendar.timegm": lambda a: "(to_secs %s)" % a[0],
                      "time_util.str_to_time": lambda a: a[0]}}),
        (rsp, "AuthnResponse.condition_ok", {
            "name": "src2_condition_ok", "params": ["self", "lax"],
            "extra_params": clock + cmpt + [("keyswv", "pyval -> pyval"), ("for_me", "pyval -> pyval -> pyval"),
                                            ("XSI_TYPE", "pyval")],
            "returns_state": ["self"], "exc_parents": EXC_PARENTS, "globals": {"XSI_TYPE": "XSI_TYPE"},
            "calls": {"validate_on_or_after": voa, "validate_before": vb, "later_than": lt,
                      "conditions.keyswv": lambda a: "(keyswv v_conditions)",
                      "for_me": lambda a: "(for_me %s %s)" % tuple(a)}}),
        (rsp, "AuthnResponse._bearer_confirmed", {
            "name": "src2_bearer_confirmed", "params": ["self", "data"],
            "extra_params": clock + cmpt + [("valid_address", "pyval -> pyval")],
            "returns_state": ["self"], "exc_parents": EXC_PARENTS,
            "calls": {"validate_on_or_after": voa, "validate_before": vb, "later_than": lt,
                      "valid_address": lambda a: "(valid_address %s)" % a[0]}}),
        (rsp, "AuthnResponse.session_info", {
            "name": "src2_session_info", "params": ["self"],
            "extra_params": [("issuer", "pyval -> pyval"), ("authz_decision_info", "pyval -> pyval"),
                             ("authn_info", "pyval -> pyval")],
            "exc_parents": EXC_PARENTS,
            "calls": {"self.issuer": lambda a: "(issuer v_self)",
                      "self.authz_decision_info": lambda a: "(authz_decision_info v_self)",
                      "self.authn_info": lambda a: "(authn_info v_self)"}}),
    ]


def _timetuple_shape():
    """One call shape that py2coq2 refuses (a method call on the result of a call), rewritten into a call of a spec'd
    external before translation:  EXPR(...).timetuple()  ->  timetuple(EXPR(...)).  It concerns only HOW the external
    datetime.timetuple is reached, never a decision of the function."""
    import ast

    class _Shape(ast.NodeTransformer):
        def visit_Call(self, node):
            self.generic_visit(node)
            f = node.func
            if isinstance(f, ast.Attribute) and f.attr == "timetuple" and isinstance(f.value, ast.Call) \
                    and not node.args and not node.keywords:
                g = ast.copy_location(ast.Name(id="timetuple", ctx=ast.Load()), f)
                return ast.copy_location(ast.Call(func=g, args=[f.value], keywords=[]), node)
            return node
    return _Shape()


def issue_instant_spec():
    def days(name):
        return lambda a, kw: "(%s %s)" % (name, kw["days"]) if not a and list(kw) == ["days"] else "PErr"
    return {"name": "src2_issue_instant_ok", "params": ["self"],
            "extra_params": [("in_a_while", "pyval -> pyval"), ("a_while_ago", "pyval -> pyval"),
                             ("shift_time", "pyval -> pyval -> pyval"), ("timetuple", "pyval -> pyval"),
                             ("parse", "pyval -> pyval")],
            "calls": {"time_util.time_in_a_while": days("in_a_while"), "time_util.time_a_while_ago": days("a_while_ago"),
                      "time_util.shift_time": lambda a: "(shift_time %s %s)" % tuple(a),
                      "timetuple": lambda a: "(timetuple %s)" % a[0], "str_to_time": lambda a: "(parse %s)" % a[0]}}


def _float_shape():
    """A second call shape py2coq2 refuses: a float constant.  `2.0` becomes the global name FLOAT_2_0, which the spec
    hands in as an extra parameter (an external value, like float() itself).  Concerns only how the float world is
    reached: the comparison it takes part in stays in the translated text."""
    import ast

    class _Shape(ast.NodeTransformer):
        def visit_Constant(self, node):
            if isinstance(node.value, float):
                name = "FLOAT_" + repr(node.value).replace(".", "_").replace("-", "m").replace("+", "p")
                return ast.copy_location(ast.Name(id=name, ctx=ast.Load()), node)
            return node
    return _Shape()


def verify_spec():
    """StatusResponse._verify: issue_instant_ok() / status_ok() are calls on self (externals here; issue_instant_ok
    has its own theorem), float() and the float 2.0 are externals, logging is ignored."""
    return {"name": "src2_verify", "params": ["self"],
            "extra_params": [("issue_instant_ok", "pyval -> pyval"), ("status_ok", "pyval -> pyval"),
                             ("float_", "pyval -> pyval"), ("two", "pyval")],
            "ignore_calls": ["logger.error", "logger.debug", "logger.info"], "globals": {"FLOAT_2_0": "two"},
            "exc_parents": {"RequestVersionTooLow": ["Exception"], "RequestVersionTooHigh": ["Exception"]},
            "calls": {"self.issue_instant_ok": lambda a: "(issue_instant_ok v_self)",
                      "self.status_ok": lambda a: "(status_ok v_self)", "float": lambda a: "(float_ %s)" % a[0]}}


def regenerate_issue_instant(gen_path):
    """StatusResponse.issue_instant_ok (after _timetuple_shape) and StatusResponse._verify (after _float_shape)
    -> coq/gen/C05Src2v.v through py2coq2.translate_def (fail-closed like py2coq2.regenerate: what cannot be
    translated becomes a poisoned definition)."""
    import ast
    import os
    from harness import common, py2coq2
    items = [("StatusResponse.issue_instant_ok", issue_instant_spec(), _timetuple_shape(), ".timetuple() call shape"),
             ("StatusResponse._verify", verify_spec(), _float_shape(), "float constant")]
    failed, bodies = [], []
    for q, spec, shape, what in items:
        try:
            with open(os.path.join(env.SRC, "saml2", "response.py")) as f:
                fn = py2coq2.find_function(ast.parse(f.read()), q)
            fn = ast.fix_missing_locations(shape.visit(fn))
            bodies.append(py2coq2.translate_def(fn, spec, "saml2/response.py:%s (%s rewritten by harness/c05.py)" % (q, what)))
        except (py2coq2.Untranslatable, OSError, SyntaxError) as e:
            failed.append("%s: %s" % (q, e))
            bodies.append(py2coq2.poison(q, spec, str(e)))
    changed = common.write_if_changed(gen_path, py2coq2.HEADER + "\n".join(bodies))
    return {"translated": [q for q, _, _, _ in items], "untranslatable": failed, "changed": changed,
            "obligations": len(items), "discharged": len(items) - len(failed)}


FIELDS = ["cnb", "cnooa", "snb", "snooa", "sess", "issue"]
BASE = {"cnb": -300, "cnooa": 300, "snb": None, "snooa": 300, "sess": None, "issue": 0}
SKEWS = [None, 0, 60, 180]
DAY = 86400


def offsets(skew):
    s = skew or 0
    base = [None, -3600, -s - 2, -s - 1, -s, -s + 1, -1, 0, 1, s - 1, s, s + 1, s + 2, 3600]
    for d in (DAY, DAY + s):
        for e in (-2, -1, 0, 1, 2):
            base += [d + e, -d + e]
    out = []
    for o in base:
        if o not in out:
            out.append(o)
    return out


def mk(offs, skew, frac, tag):
    c = {"skew": skew, "frac": frac, "tag": tag}
    c.update(offs)
    return c


def generate(ctx):
    rng = ctx.rng
    cases = []
    for skew in SKEWS:
        for f in FIELDS:
            for o in offsets(skew):
                if f == "issue" and o is None:
                    continue
                for frac in (None, "5", "999"):
                    if frac == "999" and not ctx.thorough and rng.random() > 0.3:
                        continue
                    offs = dict(BASE)
                    offs[f] = o
                    cases.append(mk(offs, skew, frac if o is not None else None, "sweep:" + f))
    # NotBefore x NotOnOrAfter products
    small = [None, -3600, -61, -60, -59, -1, 0, 1, 59, 60, 61, 3600]
    for skew in (None, 60):
        for a in small:
            for b in small:
                offs = dict(BASE)
                offs["cnb"], offs["cnooa"] = a, b
                cases.append(mk(offs, skew, None, "pair:cond"))
                offs = dict(BASE)
                offs["snb"], offs["snooa"] = a, b
                cases.append(mk(offs, skew, None, "pair:scd"))
    # sess x cnooa (expiry selection)
    for a in small:
        for b in small:
            offs = dict(BASE)
            offs["sess"], offs["cnooa"] = a, b
            cases.append(mk(offs, rng.choice(SKEWS), None, "pair:expiry"))
    # random combinations
    for _ in range(2500 if ctx.thorough else 400):
        skew = rng.choice(SKEWS)
        offs = {}
        for f in FIELDS:
            r = rng.random()
            if r < 0.5:
                offs[f] = BASE[f] if BASE[f] is not None else rng.choice([None, 300, 3600])
            elif r < 0.85:
                offs[f] = rng.choice(offsets(skew))
            else:
                offs[f] = rng.randint(-2 * DAY, 2 * DAY)
        if offs["issue"] is None:
            offs["issue"] = 0
        cases.append(mk(offs, skew, rng.choice([None, None, "5", "123456"]), "random"))
    # the process time zone must not matter: the same sweeps in a zone east and a zone west of UTC
    # (POSIX TZ strings, no tzdata needed); the model has no such input
    tzs = ["JST-9", "EST5", "NST3:30", "LINT-14"]
    for i, tz in enumerate(tzs if ctx.thorough else tzs[:2]):
        for skew in (None, 60):
            for f in FIELDS:
                for o in offsets(skew):
                    if (f == "issue" and o is None) or (not ctx.thorough and rng.random() > 0.55):
                        continue
                    offs = dict(BASE)
                    offs[f] = o
                    c = mk(offs, skew, None, "tz:" + tz)
                    c["tz"] = tz
                    cases.append(c)
    cases += text_cases(ctx)
    cases += message_cases(ctx)      # last: the streams of the earlier groups stay what they were
    cases += decor_cases(ctx)        # (round 6) after everything else, for the same reason
    return cases


# ---------------------------------------------------------------------------- whole-message cases (Model.message)
# The SHAPE of the message is an input: how the Response is delivered (HTTP-POST / HTTP-Redirect: asynchronous;
# SOAP: the synchronous path, asynchop=False; PAOS: a binding Entity.unravel does not unpack), whether it names a
# Destination (the SP's endpoint / none / somebody else's), whether the assertion arrives in the clear or as an
# EncryptedAssertion for the SP's key, whether it has Conditions, and ANY NUMBER
# of bearer SubjectConfirmations (with or without data) and AuthnStatements, each with its own time stamps.
BINDINGS = {"post": ("BPost", world.BINDING_HTTP_POST, world.SP_ACS_POST),
            "redirect": ("BRedirect", world.BINDING_HTTP_REDIRECT, world.SP_ACS_REDIRECT),
            "soap": ("BSoap", world.BINDING_SOAP, "https://sp.example.org/acs/soap"),
            "paos": ("BPaos", world.BINDING_PAOS, "https://sp.example.org/acs/paos")}
DESTS = {"own": "(Some true)", "absent": "None", "other": "(Some false)"}
OTHER_ADDRESS = "https://other.example.org/acs/post"
MBASE = {"binding": "post", "dest": "own", "enc": False, "issue": 0, "cond": [-300, 300], "confs": [[None, 300]], "stmts": [None]}


def msg(skew, frac, tag, **parts):
    c = {"skew": skew, "frac": frac, "tag": "msg:" + tag}
    for k, v in MBASE.items():
        c[k] = parts.get(k, v)
    c["cond"] = None if c["cond"] is None else list(c["cond"])
    c["confs"] = [None if w is None else list(w) for w in c["confs"]]
    c["stmts"] = list(c["stmts"])
    if parts.get("tz"):
        c["tz"] = parts["tz"]
    return c


def _field_parts(f, o):
    """The one-dimensional sweeps of generate(), as message parts."""
    cond, conf = list(MBASE["cond"]), list(MBASE["confs"][0])
    if f == "cnb":
        cond[0] = o
    elif f == "cnooa":
        cond[1] = o
    elif f == "snb":
        conf[0] = o
    elif f == "snooa":
        conf[1] = o
    elif f == "sess":
        return {"stmts": [o]}
    elif f == "issue":
        return {"issue": o}
    return {"cond": cond, "confs": [conf]}


def _dedupe(xs):
    out = []
    for x in xs:
        if x not in out:
            out.append(x)
    return out


def stmt_grid(skew):
    k = skew or 0
    return _dedupe([None, -3600, -k - 2, -k - 1, -k + 1, k + 1, 3600])


def conf_shapes(skew):
    """Shapes of one bearer confirmation: None = no SubjectConfirmationData; [NotBefore, NotOnOrAfter] offsets."""
    k = skew or 0
    shapes = [None, [None, 300], [-300, 300], [None, -k - 2], [None, -k - 1], [k + 2, 3600], [-300, None], [None, None],
              [None, -k + 1]]
    if k >= 2:
        shapes.append([k - 1, -k + 1])     # inside both bounds plus skew, but NotOnOrAfter earlier than NotBefore
    return shapes


def message_cases(ctx):
    rng = ctx.rng
    deep = ctx.thorough
    out = []
    some_frac = lambda: "5" if rng.random() < 0.2 else None  # noqa: E731
    # (A) the sweeps over the other deliveries and Destination spellings
    for b in ("redirect", "soap", "post"):
        for dest in ("own", "absent"):
            if (b, dest) == ("post", "own"):
                continue                     # the old sweeps
            for skew in SKEWS:
                for f in FIELDS:
                    offs = offsets(skew)
                    if f != "issue":
                        if (dest != "own" or b == "post" or skew not in (None, 60)) and not deep:
                            continue
                        offs = offs if deep else offs[:14]
                    for o in offs:
                        if f == "issue" and o is None:
                            continue
                        out.append(msg(skew, some_frac() if o is not None else None, "delivery:" + f, binding=b, dest=dest,
                                       **_field_parts(f, o)))
    for b in BINDINGS:
        for skew in SKEWS:
            k = skew or 0
            for o in (-DAY - k - 1, -DAY - k + 1, 0, DAY + k - 1, DAY + k + 1):
                out.append(msg(skew, None, "delivery:other-destination", binding=b, dest="other", issue=o))
                if b == "paos":
                    out.append(msg(skew, None, "delivery:paos", binding=b, dest=rng.choice(["own", "absent"]), issue=o))
    for o in offsets(None):              # the process time zone on the synchronous path
        if o is not None:
            out.append(msg(None, None, "delivery:tz", binding="soap", dest="absent", issue=o, tz="JST-9"))
    # (B) any number of AuthnStatements
    for skew in SKEWS:
        g = stmt_grid(skew)
        for b in ("post", "soap"):
            out.append(msg(skew, None, "statements:0", binding=b, stmts=[]))
            out.append(msg(skew, None, "statements:0", binding=b, stmts=[], cond=None))
        for a in g:
            for c in g:
                out.append(msg(skew, some_frac() if (a, c) != (None, None) else None, "statements:2", stmts=[a, c]))
                if rng.random() < (1.0 if deep else 0.15):
                    out.append(msg(skew, None, "statements:2", binding=rng.choice(["soap", "redirect"]),
                                   dest=rng.choice(["own", "absent"]), stmts=[a, c]))
        if skew in (None, 60) or deep:
            for a in (None, 3600):
                for c in (None, 3600):
                    for d in g:
                        out.append(msg(skew, None, "statements:3", stmts=[a, c, d]))
    for _ in range(400 if deep else 60):
        skew = rng.choice(SKEWS)
        g = stmt_grid(skew)
        out.append(msg(skew, some_frac(), "statements:n", binding=rng.choice(list(BINDINGS)[:3]),
                       stmts=[rng.choice(g) for _ in range(rng.choice([3, 3, 4, 5]))]))
    # (C) any number of bearer confirmations
    for skew in (0, 60, 180):
        sh = conf_shapes(skew)
        for b in ("post", "soap"):
            out.append(msg(skew, None, "confirmations:0", binding=b, confs=[]))
            for w in sh:
                out.append(msg(skew, None, "confirmations:1", binding=b, confs=[w]))
        if skew != 60 or deep:
            for w1 in sh:
                for w2 in sh:
                    out.append(msg(skew, None, "confirmations:2", confs=[w1, w2]))
                    if rng.random() < (1.0 if deep else 0.2):
                        out.append(msg(skew, "5", "confirmations:2", binding=rng.choice(["soap", "redirect"]),
                                       confs=[w1, w2]))
    for _ in range(600 if deep else 120):
        skew = rng.choice(SKEWS)
        sh = conf_shapes(skew)
        out.append(msg(skew, some_frac(), "confirmations:n", binding=rng.choice(list(BINDINGS)[:3]),
                       confs=[rng.choice(sh) for _ in range(rng.choice([3, 3, 4]))]))
    # (D) no Conditions element / Conditions without bounds
    for skew in SKEWS:
        k = skew or 0
        for b in ("post", "soap"):
            for cond in (None, [None, None]):
                for st in (None, 3600, -k - 2, -k + 1):
                    out.append(msg(skew, None, "conditions:" + ("absent" if cond is None else "unbounded"), binding=b,
                                   cond=cond, stmts=[st]))
    # (D') Conditions without AudienceRestriction: with bounds, and the EMPTY element <Conditions/> (keyswv() empty)
    for skew in SKEWS:
        k = skew or 0
        for b in ("post", "soap"):
            for cond in ([None, None], [-300, 300], [None, -k - 2], [k + 2, 3600], [None, -k + 1]):
                c = msg(skew, None, "conditions:no-audience", binding=b, cond=cond, stmts=[rng.choice([None, 3600])])
                c["aud"] = False
                out.append(c)
    # (F) the assertion arrives encrypted (the same sweeps; several statements / confirmations sampled)
    for skew in (None, 60) if not deep else SKEWS:
        for f in FIELDS:
            offs = offsets(skew)
            for o in (offs if (f == "issue" or deep) else offs[:14]):
                if f == "issue" and o is None:
                    continue
                out.append(msg(skew, some_frac() if o is not None else None, "encrypted:" + f, enc=True,
                               binding="post" if rng.random() < 0.6 else rng.choice(["redirect", "soap"]),
                               **_field_parts(f, o)))
        g, sh = stmt_grid(skew), conf_shapes(skew)
        for _ in range(200 if deep else 30):
            out.append(msg(skew, None, "encrypted:statements", enc=True, stmts=[rng.choice(g) for _ in range(rng.choice([0, 2, 2, 3]))]))
            out.append(msg(skew, None, "encrypted:confirmations", enc=True, confs=[rng.choice(sh) for _ in range(rng.choice([1, 2, 2, 3]))]))
    # (E) everything at once
    for _ in range(2500 if deep else 350):
        skew = rng.choice(SKEWS)
        offs = [o for o in offsets(skew) if o is not None]
        pick = lambda base: base if rng.random() < 0.6 else rng.choice(offs + [None])  # noqa: E731
        sh = conf_shapes(skew)
        confs = [rng.choice(sh) if rng.random() < 0.5 else [pick(None), pick(300)] for _ in range(rng.choice([1, 1, 1, 2, 2, 3]))]
        stmts = [pick(None) for _ in range(rng.choice([0, 1, 1, 1, 1, 1, 2, 3]))]
        cond = None if rng.random() < 0.1 else [pick(-300), pick(300)]
        issue = 0 if rng.random() < 0.5 else (rng.choice(offs) if rng.random() < 0.7 else rng.randint(-2 * DAY, 2 * DAY))
        out.append(msg(skew, rng.choice([None, None, "5", "123456"]), "random",
                       binding=rng.choice(["post", "redirect", "soap", "soap", "paos"] if rng.random() < 0.2 else
                                          ["post", "redirect", "soap", "soap"]),
                       dest=rng.choice(["own", "own", "absent", "absent", "other"]), enc=rng.random() < 0.25, issue=issue,
                       cond=cond, confs=confs, stmts=stmts))
    return out


# ---------------------------------------------------------------------------- decorated confirmations (Model.dinput)
# Round 6.  What stands AROUND the time stamps is an input too: every SubjectConfirmation has a Method (bearer /
# holder-of-key / sender-vouches / unknown), its data may name an Address (absent, the empty string, IPv4, IPv6 in three
# spellings, texts that are no address) and carry a ds:KeyInfo; the application may hand over conversation info that
# names the peer (conv_info["remote_addr"]: absent, the wildcard, other keys only, the Address, another address).
# The model knows these (Model.decor / remote).  Decorations the model does NOT know (they must not matter, like the
# time zone): OneTimeUse / ProxyRestriction inside Conditions, SubjectLocality inside the AuthnStatement.
ADDRS = [("v4", "192.0.2.17", True), ("v4b", "198.51.100.4", True), ("v6", "2001:db8::17", True),
         ("v6br", "[2001:db8::17]", True), ("v6full", "2001:0db8:0000:0000:0000:0000:0000:0017", True),
         ("host", "idp.example.org", False), ("octet", "192.0.2.256", False), ("cidr", "192.0.2.0/24", False),
         ("empty", "", None)]
ADDR = {k: (i + 1, text, ok) for i, (k, text, ok) in enumerate(ADDRS)}
METHODS = {"bearer": ("MBearer", render.SCM_BEARER), "hok": ("MHolderOfKey", "urn:oasis:names:tc:SAML:2.0:cm:holder-of-key"),
           "sv": ("MSenderVouches", "urn:oasis:names:tc:SAML:2.0:cm:sender-vouches"),
           "other": ("MOther", "urn:oasis:names:tc:SAML:2.0:cm:attested")}
# conv_info spellings: the wildcard and "conversation info without remote_addr" both mean "any peer"
REMOTES = [None, "any", "nokey", "v4", "v4b", "v6", "v6br"]
COND_EXTRA = {None: "", "otu": "<saml:OneTimeUse/>", "proxy": '<saml:ProxyRestriction Count="0"/>',
              "both": '<saml:OneTimeUse/><saml:ProxyRestriction Count="1"><saml:Audience>%s</saml:Audience></saml:ProxyRestriction>'
                      % world.SP_ID}
LOCALITY = {None: "", "addr": '<saml:SubjectLocality Address="192.0.2.17"/>',
            "dns": '<saml:SubjectLocality Address="2001:db8::17" DNSName="client.example.org"/>'}
KEYINFO = '<ds:KeyInfo xmlns:ds="http://www.w3.org/2000/09/xmldsig#"><ds:KeyName>holder</ds:KeyName></ds:KeyInfo>'


def dk(m="bearer", addr=None, ki=False):
    return {"m": m, "addr": addr, "ki": bool(ki)}


def dmsg(skew, frac, tag, decor, remote=None, cond_extra=None, locality=None, unsolicited=None, **parts):
    c = msg(skew, frac, tag, **parts)
    c["tag"] = "decor:" + tag
    assert len(decor) == len(c["confs"])
    c["decor"] = [dict(d) for d in decor]
    for w, d in zip(c["confs"], c["decor"]):
        if w is None:                      # no SubjectConfirmationData: nothing to decorate
            d["addr"], d["ki"] = None, False
    c["remote"] = remote
    c["cond_extra"] = cond_extra
    c["locality"] = locality
    if unsolicited:
        c["unsolicited"] = unsolicited
    return c


def decor_cases(ctx):
    rng = ctx.rng
    deep = ctx.thorough
    out = []
    addr_keys = [k for k, _, _ in ADDRS]
    # (G1) the Address of the one bearer confirmation x the shapes of its window, per skew; the one-dimensional
    # sweeps of all five window stamps with an Address present
    for skew in SKEWS:
        keys = addr_keys if (skew in (None, 60) or deep) else ["v4", "v6br", "host"]
        for ak in keys:
            for w in conf_shapes(skew):
                if w is None:
                    continue
                out.append(dmsg(skew, None, "address", [dk(addr=ak)], confs=[w],
                                binding="post" if rng.random() < 0.7 else rng.choice(["redirect", "soap"])))
    for skew in (60,) if not deep else SKEWS:
        for f in FIELDS[:5]:
            for o in offsets(skew)[:14]:
                ak = rng.choice(["v4", "v6", "v6br", "v6full"])
                out.append(dmsg(skew, None if o is None else rng.choice([None, "5"]), "address-sweep:" + f,
                                [dk(addr=ak, ki=rng.random() < 0.3)], **_field_parts(f, o)))
    # (G2) who the application says the peer is x the Address x the window
    for skew in (60,) if not deep else (None, 60):
        k = skew or 0
        for remote in REMOTES:
            for ak in (None, "v4", "v6", "v6br", "host", "empty"):
                for w in ([None, 300], [None, -k - 2], [k + 2, 3600]):
                    for b in ("post", "redirect", "soap"):
                        if b != "post" and not deep and rng.random() > 0.3:
                            continue
                        out.append(dmsg(skew, None, "peer", [dk(addr=ak)], remote=remote, confs=[w], binding=b))
    for _ in range(300 if deep else 40):       # two confirmations of which one names the peer
        skew = rng.choice(SKEWS)
        sh = [w for w in conf_shapes(skew) if w is not None]
        out.append(dmsg(skew, None, "peer:2", [dk(addr=rng.choice([None, "v4", "v4b", "v6"])) for _ in range(2)],
                        remote=rng.choice(REMOTES), confs=[rng.choice(sh), rng.choice(sh)],
                        binding=rng.choice(["post", "post", "redirect", "soap"])))
    # (G3) the confirmation METHOD: one confirmation of every method x data shapes; complete products of two
    for skew in (0, 60) if not deep else (0, 60, 180):
        k = skew or 0
        for m in ("hok", "sv", "other", "bearer"):
            for w in (None, [None, 300], [None, -k - 2], [k + 2, 3600], [-300, None]):
                for ki in (False, True):
                    for b in ("post", "soap"):
                        out.append(dmsg(skew, None, "method:1", [dk(m, ki=ki)], confs=[w], binding=b))
    for skew in (60,) if not deep else (0, 60, 180):
        k = skew or 0
        shapes = [("bearer", [None, 300], None, False), ("bearer", [None, 300], "v4", False),
                  ("bearer", [None, -k - 2], "v4", True), ("bearer", [None, -k - 2], None, False),
                  ("bearer", [k + 2, 3600], "v6br", True), ("bearer", [k - 1, -k + 1], None, False),
                  ("bearer", [None, 300], "host", False), ("bearer", None, None, False),
                  ("hok", [None, 300], None, True), ("hok", [None, -k - 2], "v4", True), ("hok", [None, 300], None, False),
                  ("sv", [None, 300], None, False), ("sv", [None, -k - 2], None, False), ("sv", None, None, False),
                  ("other", [None, 300], None, False)]
        for m1, w1, a1, k1 in shapes:
            for m2, w2, a2, k2 in shapes:
                out.append(dmsg(skew, None, "method:2", [dk(m1, a1, k1), dk(m2, a2, k2)], confs=[w1, w2],
                                binding="post" if rng.random() < 0.8 else "soap"))
    # (G4) decorations the model does not know, over the window sweeps
    for ce in COND_EXTRA:
        for loc in LOCALITY:
            if ce is None and loc is None:
                continue
            for b in ("post", "soap"):
                out.append(dmsg(60, None, "unmodelled", [dk()], cond_extra=ce, locality=loc, binding=b))
    for skew in (60,) if not deep else SKEWS:
        for f in FIELDS[:5]:
            for o in offsets(skew)[:14]:
                ce, loc = rng.choice([("otu", None), ("proxy", None), (None, "addr"), (None, "dns"), ("both", "dns")])
                out.append(dmsg(skew, None, "unmodelled-sweep:" + f, [dk(ki=rng.random() < 0.5)], cond_extra=ce, locality=loc,
                                **_field_parts(f, o)))
    # (G6) the exchange is UNSOLICITED (SP option allow_unsolicited; Response and confirmation data without InResponseTo;
    # nothing pending / an unrelated request pending): the part of _bearer_confirmed after the window is another one,
    # the window is the same (the model has no such input)
    for skew in (60,) if not deep else SKEWS:
        for f in FIELDS[:5]:
            for o in offsets(skew)[:14]:
                out.append(dmsg(skew, None, "unsolicited-sweep:" + f, [dk(addr=rng.choice([None, None, "v4", "v6br"]))],
                                unsolicited=rng.choice(["empty", "pending"]),
                                binding="post" if rng.random() < 0.7 else "redirect", **_field_parts(f, o)))
    for skew in (None, 180):
        for w in conf_shapes(skew):
            for ak in (None, "v6"):
                out.append(dmsg(skew, None, "unsolicited", [dk(addr=ak)], unsolicited="pending" if ak else "empty", confs=[w]))
    # (G5) everything at once
    for _ in range(1500 if deep else 160):
        skew = rng.choice(SKEWS)
        offs = [o for o in offsets(skew) if o is not None]
        pick = lambda base: base if rng.random() < 0.6 else rng.choice(offs + [None])  # noqa: E731
        sh = conf_shapes(skew)
        n = rng.choice([1, 1, 1, 2, 2, 3])
        confs = [rng.choice(sh) if rng.random() < 0.5 else [pick(None), pick(300)] for _ in range(n)]
        decor = [dk(rng.choice(["bearer", "bearer", "bearer", "hok", "sv", "other"] if rng.random() < 0.4 else ["bearer"]),
                    rng.choice([None, None] + addr_keys), rng.random() < 0.3) for _ in range(n)]
        out.append(dmsg(skew, rng.choice([None, None, "5"]), "random", decor,
                        remote=rng.choice(REMOTES) if rng.random() < 0.4 else None,
                        cond_extra=rng.choice(list(COND_EXTRA)) if rng.random() < 0.3 else None,
                        locality=rng.choice(list(LOCALITY)) if rng.random() < 0.3 else None,
                        unsolicited=rng.choice(["empty", "pending"]) if rng.random() < 0.2 else None,
                        binding=rng.choice(["post", "post", "redirect", "soap"]), dest=rng.choice(["own", "own", "absent"]),
                        enc=rng.random() < 0.25, confs=confs,
                        cond=None if rng.random() < 0.1 else [pick(-300), pick(300)],
                        stmts=[pick(None) for _ in range(rng.choice([1, 1, 1, 1, 1, 2, 0]))],
                        issue=0 if rng.random() < 0.8 else rng.choice(offs)))
    return out


def _confirmation_xml(case, w, d, endpoint):
    """One SubjectConfirmation with its decorations (local renderer: render.subject_confirmation has no KeyInfo)."""
    method = METHODS[d["m"]][1]
    if w is None:
        return "<saml:SubjectConfirmation Method=%s/>" % render.quoteattr(method)
    at = render.attr("InResponseTo", None if case.get("unsolicited") else "req-1") + render.attr("NotBefore", _ts(case, w[0])) + \
        render.attr("NotOnOrAfter", _ts(case, w[1])) + render.attr("Recipient", endpoint)
    if d["addr"] is not None:
        at += render.attr("Address", ADDR[d["addr"]][1])                 # (also the empty string: Address="")
    return "<saml:SubjectConfirmation Method=%s><saml:SubjectConfirmationData%s>%s</saml:SubjectConfirmationData>" \
           "</saml:SubjectConfirmation>" % (render.quoteattr(method), at, KEYINFO if d["ki"] else "")


def _conv_info(remote):
    if remote is None:
        return None
    if remote == "any":
        return {"remote_addr": "0.0.0.0"}
    if remote == "nokey":
        return {"user_agent": "verif"}
    return {"remote_addr": ADDR[remote][1]}


# ---------------------------------------------------------------------------- time-stamp TEXT cases (C05/Time.v)
Y10K = 253402300800


def _fmt(y, mo, d, h, mi, s):
    return "%04d-%02d-%02dT%02d:%02d:%02dZ" % (y, mo, d, h, mi, s)


def _variants(rng, base):
    """Syntactic variants of one canonical text 'YYYY-MM-DDTHH:MM:SSZ'."""
    core = base[:-1]
    y, mo, d = core[0:4], core[5:7], core[8:10]
    h, mi, sec = core[11:13], core[14:16], core[17:19]
    short = lambda x: x.lstrip("0") or "0"  # noqa: E731
    out = [base, core, core.lower() + "z", core + "z", base.replace("T", "t"),
           core + ".5Z", core + ".Z", core + ".123456", core + ".000Z", core + ".5z", core + ".5.5Z",
           base + "\n", core + "\n", base + " ", " " + base, base + "Z", core + "+00:00", core + "-01:00",
           "%s-%s-%sT%s:%s:%sZ" % (y, short(mo), short(d), short(h), short(mi), short(sec)),
           "%s-%s-%sT%s:%s:%sZ" % (y, short(mo), d, h, mi, sec),
           "%s-%s-%sT%s:%s:%sZ" % (y, mo, short(d), h, mi, sec),
           "%s-%s-%sT%s:%s:%sZ" % (y, mo, d, short(h), mi, sec),
           "%s-%s-%sT%s:%s:%sZ" % (y, mo, d, h, short(mi), sec),
           "%s-%s-%sT%s:%s:%sZ" % (y, mo, d, h, mi, short(sec)),
           "%s-%s-%sT%s:%s:%s.5Z" % (y, mo, short(d), h, mi, sec),
           "%s-%s- %sT%s:%s:%sZ" % (y, mo, short(d)[-1:], h, mi, sec),
           "%s-%s-%s %s:%s:%sZ" % (y, mo, d, h, mi, sec),
           "0" + base, base[1:], base.replace("-", "/", 1), base.replace(":", ".", 1),
           "%s-%s-%sT%s:%s:60Z" % (y, mo, d, h, mi), "%s-%s-%sT%s:%s:61Z" % (y, mo, d, h, mi),
           "%s-%s-%sT%s:%s:62Z" % (y, mo, d, h, mi), "%s-%s-%sT24:%s:%sZ" % (y, mo, d, mi, sec),
           "%s-%s-%sT%s:60:%sZ" % (y, mo, d, h, sec), "%s-13-%sT%s:%s:%sZ" % (y, d, h, mi, sec),
           "%s-00-%sT%s:%s:%sZ" % (y, d, h, mi, sec), "%s-%s-00T%s:%s:%sZ" % (y, mo, h, mi, sec),
           "%s-%s-32T%s:%s:%sZ" % (y, mo, h, mi, sec), "%s-%s-31T%s:%s:%sZ" % (y, mo, h, mi, sec),
           "%s-%s-30T%s:%s:%sZ" % (y, mo, h, mi, sec), "%s-%s-29T%s:%s:%sZ" % (y, mo, h, mi, sec),
           "%s-02-29T%s:%s:%sZ" % (y, h, mi, sec), "%s-02-30T%s:%s:%sZ" % (y, h, mi, sec),
           "0000-%s-%sT%s:%s:%sZ" % (mo, d, h, mi, sec), "%s-%s-%sT%s:%s:%s" % (y, mo, d, h, mi, sec[:1]),
           base.replace(base[rng.randrange(len(base))], rng.choice("x-:TZ. 07"), 1)]
    return out


def text_cases(ctx):
    rng = ctx.rng
    stamps = [0, 1, 59, 60, 61, 3599, 3600, 86399, 86400, 86401, 951782400, 951868799, 951868800,  # 2000-02-29
              1709164800, 1709251199, 1709251200, 1735689599, 1735689600, 4107542400, NOW, NOW - 1, NOW + 1,
              Y10K - 1, Y10K - 86400, 978307199, 978307200, 68169599, 68169600]
    for _ in range(400 if ctx.thorough else 40):
        stamps.append(rng.randrange(0, Y10K))
    for _ in range(200 if ctx.thorough else 30):
        stamps.append(rng.randrange(0, 4102444800))
    texts = []
    for ts in stamps:
        base = env.iso(ts)
        texts += _variants(rng, base) if (ctx.thorough or rng.random() < 0.5 or ts < 100000) else [base, base[:-1] + ".25Z"]
    # dates before the epoch and arbitrary field combinations (also impossible ones)
    for _ in range(600 if ctx.thorough else 150):
        y = rng.choice([1, 2, 99, 100, 400, 1582, 1600, 1899, 1900, 1904, 1969, 1970, 2000, 2023, 2024, 2100, 9999,
                        rng.randrange(1, 10000)])
        mo, d = rng.randrange(0, 14), rng.randrange(0, 33)
        h, mi, sec = rng.randrange(0, 26), rng.randrange(0, 62), rng.randrange(0, 64)
        if rng.random() < 0.7:
            mo, d = max(1, min(12, mo)), max(1, min(31, d))
        if rng.random() < 0.7:
            h, mi, sec = min(23, h), min(59, mi), min(59, sec)
        b = _fmt(y, mo, d, h, mi, sec)
        texts.append(b)
        if rng.random() < 0.3:
            texts.append(rng.choice(_variants(rng, b)))
    texts += ["", "Z", "T", "now", "2020", "2020-01-01", "2020-01-01T", "2020-01-01T00:00", "20200101T000000Z",
              "2020-01-01T00:00:00,5Z", "2020-01-01T00:00:00.Z\n", "\n", "2020-01-01T00:00:00\n\n", "99999-01-01T00:00:00Z",
              "2020-1-1T0:0:0", "2020-1-1T0:0:0.5Z", "2020-01-01T00:00:00.5ZZ", "2020-01-01T00:00:00ZZ", "-2020-01-01T00:00:00Z",
              "+2020-01-01T00:00:00Z", "2020-01-01T00:00:00Z\t", "2020-01-01T00:00: 0Z", "2020-01-01T 0:00:00Z",
              "2020- 1-01T00:00:00Z", "2020-01- 0T00:00:00Z", "2020-01-  1T00:00:00Z"]
    seen, out = set(), []
    for t in texts:
        if t not in seen and all(ord(c) < 128 for c in t):
            seen.add(t)
            out.append({"text": t, "tag": "text"})
    return out


def stamp(case, f):
    o = case[f]
    if o is None:
        return None
    return env.iso(NOW + o, case["frac"])


def observe_text(case):
    import calendar

    from saml2 import time_util
    try:
        return {"secs": int(calendar.timegm(time_util.str_to_time(case["text"]))), "exc": None}
    except Exception as e:  # the exception class is the observation
        return {"secs": None, "exc": type(e).__name__}


def _ts(case, o):
    return None if o is None else env.iso(NOW + o, case["frac"])


def observe_message(case):
    """Render the message of the case, deliver it the way the case says, run the real acceptance path."""
    over = {}
    if case["skew"] is not None:
        over["accepted_time_diff"] = case["skew"]
    if case.get("unsolicited"):
        over["sp_allow_unsolicited"] = True
    sp = spaccept.get_sp(over)
    _, binding, endpoint = BINDINGS[case["binding"]]
    a = spaccept.good_assertion()
    if case["cond"] is None:
        a["conditions"] = None
    else:
        cond = {"audience_restrictions": [[world.SP_ID]] if case.get("aud", True) else []}
        if case["cond"][0] is not None:
            cond["not_before"] = _ts(case, case["cond"][0])
        if case["cond"][1] is not None:
            cond["not_on_or_after"] = _ts(case, case["cond"][1])
        a["conditions"] = cond
    confs = []
    for w in case["confs"]:
        c = {"method": render.SCM_BEARER}
        if w is not None:
            d = {"recipient": endpoint, "in_response_to": "req-1"}
            if w[0] is not None:
                d["not_before"] = _ts(case, w[0])
            if w[1] is not None:
                d["not_on_or_after"] = _ts(case, w[1])
            c["data"] = d
        confs.append(c)
    a["subject"]["confirmations"] = confs
    if "decor" in case:
        a["subject"] = {"name_id_xml": render.name_id("subject-1") + "".join(
            _confirmation_xml(case, w, d, endpoint) for w, d in zip(case["confs"], case["decor"])), "confirmations": []}
        if a["conditions"] is not None:
            a["conditions"]["extra"] = COND_EXTRA[case.get("cond_extra")]
    sts = []
    for i, o in enumerate(case["stmts"]):
        st = {"authn_instant": env.iso(NOW - 60 * i), "session_index": "s-%d" % (i + 1),
              "class_ref": render.AC_PASSWORD if i == 0 else "urn:oasis:names:tc:SAML:2.0:ac:classes:X509"}
        if o is not None:
            st["session_not_on_or_after"] = _ts(case, o)
        sts.append(st)
    a["authn_statements"] = sts
    dest = {"own": endpoint, "absent": None, "other": OTHER_ADDRESS}[case["dest"]]
    r = spaccept.good_response(issue_instant=_ts(case, case["issue"]), destination=dest)
    outstanding = {"req-1": "/"}
    if case.get("unsolicited"):
        r["in_response_to"] = None
        outstanding = {} if case["unsolicited"] == "empty" else {"req-7": "/elsewhere"}
    if case["enc"] or "decor" in case:      # spaccept.build with the encryption step before the Response is signed
        axml = render.assertion(a)
        if case.get("locality"):
            axml = axml.replace("<saml:AuthnContext>", LOCALITY[case["locality"]] + "<saml:AuthnContext>")
        r = dict(r, assertions_xml=[axml], sig_template=render.signature_template(r["id"]))
        xml = render.response(r)
        if case["enc"]:
            xml = render.encrypt_assertion_in_response(xml, "sp")
        xml = render.sign_xml(xml, "idp", render.R_ELEM, r["id"])
    else:
        xml = spaccept.build(r, [a], sign_response="idp")
    if case["binding"] == "redirect":
        encoded = render.deflate_b64(xml)
    elif case["binding"] in ("soap", "paos"):
        encoded = render.soap_envelope(xml)
    else:
        encoded = render.b64(xml)
    o = spaccept.observe(sp, xml, binding, outstanding, conv_info=_conv_info(case.get("remote")), encoded=encoded)
    return {"identity": o["identity"], "nooa": o["nooa"], "exc": o["exc"]}


def observe(case):
    if "text" in case:
        return observe_text(case)
    if case.get("tz"):
        import os
        import time as _t
        old = os.environ.get("TZ")
        os.environ["TZ"] = case["tz"]
        _t.tzset()
        try:
            return observe(dict(case, tz=None))     # (also a whole-message case)
        finally:
            if old is None:
                os.environ.pop("TZ", None)
            else:
                os.environ["TZ"] = old
            _t.tzset()
    if "binding" in case:
        return observe_message(case)
    over = {}
    if case["skew"] is not None:
        over["accepted_time_diff"] = case["skew"]
    sp = spaccept.get_sp(over)
    a = spaccept.good_assertion()
    cond = {"audience_restrictions": [[world.SP_ID]]}
    if stamp(case, "cnb"):
        cond["not_before"] = stamp(case, "cnb")
    if stamp(case, "cnooa"):
        cond["not_on_or_after"] = stamp(case, "cnooa")
    a["conditions"] = cond
    d = {"recipient": world.SP_ACS_POST, "in_response_to": "req-1"}
    if stamp(case, "snb"):
        d["not_before"] = stamp(case, "snb")
    if stamp(case, "snooa"):
        d["not_on_or_after"] = stamp(case, "snooa")
    a["subject"]["confirmations"][0]["data"] = d
    st = {"authn_instant": env.iso(NOW), "session_index": "s-1"}
    if stamp(case, "sess"):
        st["session_not_on_or_after"] = stamp(case, "sess")
    a["authn_statements"] = [st]
    r = spaccept.good_response(issue_instant=stamp(case, "issue"))
    xml = spaccept.build(r, [a], sign_response="idp")
    o = spaccept.observe(sp, xml, world.BINDING_HTTP_POST, {"req-1": "/"})
    return {"identity": o["identity"], "nooa": o["nooa"], "exc": o["exc"]}


def cq_stamp(case, f):
    o = case[f]
    if o is None:
        return "None"
    return "(Some (%s, %s))" % (cq(NOW + o), cq(bool(case["frac"])))


TEXT_EXC = {"ValueError": "TValueError", "AttributeError": "TAttributeError", "TypeError": "TEmpty"}


def coq_case(case, obs):
    if "text" in case:
        r = "(TVal %s)" % cq(obs["secs"]) if obs["exc"] is None else TEXT_EXC.get(obs["exc"], "TOther")
        return "C05.Corr.CTime %s %s" % (cq(case["text"]), r)
    if obs["identity"]:
        n = obs["nooa"]
        v = "(Accept %s)" % cq(int(n) if isinstance(n, int) else -1)
    else:
        v = "Reject"
    skew = "None" if case["skew"] is None else "(Some %s)" % cq(case["skew"])
    if "binding" in case:
        st = lambda o: "None" if o is None else "(Some (%s, %s))" % (cq(NOW + o), cq(bool(case["frac"])))  # noqa: E731
        win = lambda w: "None" if w is None else "(Some (%s, %s))" % (st(w[0]), st(w[1]))  # noqa: E731
        if "decor" in case:
            def adr(k):
                if k is None or ADDR[k][2] is None:
                    return "ANone"
                return "(%s %s)" % ("AWell" if ADDR[k][2] else "AMal", cq(ADDR[k][0]))
            rem = case["remote"]
            remote = "RNone" if rem is None else "RAny" if rem in ("any", "nokey") else "(RAddr %s)" % cq(ADDR[rem][0])
            return "C05.Corr.mkd %s %s %s %s %s (%s, %s) %s [%s] [%s] [%s] %s %s %s" % (
                cq(NOW), skew, BINDINGS[case["binding"]][0], DESTS[case["dest"]], cq(bool(case["enc"])), cq(NOW + case["issue"]),
                cq(bool(case["frac"])), win(case["cond"]), "; ".join(win(w) for w in case["confs"]),
                "; ".join(st(o) for o in case["stmts"]),
                "; ".join("dk %s %s %s" % (METHODS[d["m"]][0], adr(d["addr"]), cq(bool(d["ki"]))) for d in case["decor"]),
                remote, cq(case["binding"] in ("post", "redirect")), v)
        return "C05.Corr.mkx %s %s %s %s %s (%s, %s) %s [%s] [%s] %s" % (
            cq(NOW), skew, BINDINGS[case["binding"]][0], DESTS[case["dest"]], cq(bool(case["enc"])), cq(NOW + case["issue"]),
            cq(bool(case["frac"])), win(case["cond"]), "; ".join(win(w) for w in case["confs"]),
            "; ".join(st(o) for o in case["stmts"]), v)
    issue = "(%s, %s)" % (cq(NOW + case["issue"]), cq(bool(case["frac"])))
    return "C05.Corr.mk %s %s %s %s %s %s %s %s %s" % (
        cq(NOW), skew, cq_stamp(case, "cnb"), cq_stamp(case, "cnooa"), cq_stamp(case, "snb"), cq_stamp(case, "snooa"),
        cq_stamp(case, "sess"), issue, v)


def nontrivial(case, obs):
    if "text" in case:
        return ("text", case["text"])
    if "binding" in case:
        moved = tuple((f, case[f]) for f in sorted(MBASE) if case[f] != MBASE[f])
        if not case.get("aud", True):
            moved += (("aud", False),)
        if "decor" in case:
            moved += (("decor", tuple((d["m"], d["addr"], d["ki"]) for d in case["decor"]), case["remote"],
                       case["cond_extra"], case["locality"], case.get("unsolicited")),)
        return (moved, case["skew"], bool(case["frac"]), case.get("tz")) if moved else None
    moved = tuple((f, case[f]) for f in FIELDS if case[f] != BASE[f])
    if not moved:
        return None
    return (moved, case["skew"], bool(case["frac"]), case.get("tz"))


def histogram(cases, observed):
    h = {"by_tag": {}, "accepted": 0, "rejected": 0, "exceptions": {}}
    h["text_results"] = {}
    for c, o in zip(cases, observed):
        h["by_tag"][c["tag"]] = h["by_tag"].get(c["tag"], 0) + 1
        if "text" in c:
            k = o["exc"] or "value"
            h["text_results"][k] = h["text_results"].get(k, 0) + 1
            continue
        h["accepted" if o["identity"] else "rejected"] += 1
        if "binding" in c:
            for k in ("delivery:%s/%s%s" % (c["binding"], c["dest"], "/encrypted" if c["enc"] else ""),
                      "statements:%d" % len(c["stmts"]),
                      "confirmations:%d" % len(c["confs"]), "conditions:%s" % ("absent" if c["cond"] is None else "present")) + \
                    (tuple("method:" + d["m"] for d in c["decor"]) + tuple("address:%s" % d["addr"] for d in c["decor"]) +
                     ("peer:%s" % c["remote"], "unsolicited:%s" % c.get("unsolicited")) if "decor" in c else ()):
                h.setdefault("message_shapes", {})
                h["message_shapes"][k] = h["message_shapes"].get(k, 0) + 1
        if o["exc"]:
            h["exceptions"][o["exc"]] = h["exceptions"].get(o["exc"], 0) + 1
    return h


def explain_term(t):
    return "C05.Corr.explain (%s)" % t
