"""C02 — the reported identity of an accepted Response comes only from signature-covered content
(XML signature wrapping).  See DESIGN.md 6/C02, notes/C02.md.

Documents are abstract trees [tag, [[attr, value]...], text, [kids]] with canonical prefixes.  They
are derived from genuinely signed messages by tree surgery, serialised by this module's own
serialiser (not a pysaml2 class in sight) and handed to the real
Saml2Client.parse_authn_request_response.  Cryptographic values are abstracted to tokens:
DigestValue / SignatureValue texts become "$d<n>" / "$s<n>", a ciphertext becomes the node
xenc:EncryptedData[n="$e<n>"] whose kids are the plaintext; the tables (which tree a digest token
is the digest of, which key signed which SignedInfo) go to coq/gen/C02Base.v.
"""
import copy
import hashlib
import json
import os
import re
import xml.etree.ElementTree as ET
from xml.sax.saxutils import escape, quoteattr

from harness import common, env, fixtures, render, spaccept, world
from harness.common import Raw, cq, cq_opt

PID = "C02"
PARALLEL = 8
IMPORTS = "From Verif Require Import C02.Model C02.Spec C02.Corr.\nFrom VerifGen Require Import C02Base."
CASE_TYPE = "C02.Corr.group"
RUNNER = {"v0": "C02.Corr.run_v0", "v1": "C02.Corr.run_v1", "v2": "C02.Corr.run_v2"}.get(os.environ.get("VERIF_C02_MODEL"), "C02.Corr.run")
FINDING_CLASSES = {1: "C02-F1", 2: "C02-F2", 3: "C02-F3", 4: "C02-F4"}   # all fixed: a case in any class is a VIOLATION
RULE = ("documents derived from genuinely signed Responses (Response-signed, assertion-signed, both; plain and "
        "encrypted; two messages, three key pairs, alternative algorithms): complete catalogue = XSW placements "
        "(sibling before/after, Extensions, Advice, ds:Object, SubjectConfirmationData, AttributeValue, StatusDetail; "
        "assertion level and Response level) x ID policy {same, fresh, removed} x signature policy {copied, stripped, "
        "moved, copied+decoy, moved+decoy}, duplicated singleton children, Reference-URI rewrites, transform / c14n / "
        "digest / signature-method rewrites, extra Reference / ds:Object / SignedInfo, splices of two genuine "
        "messages, text edits, each under the SP policies {response, assertions, both, either}; then seeded random "
        "tree surgery (move / copy / delete / re-ID / wrap / splice); un-namespaced look-alikes of the signed node "
        "(<Assertion>/<Response> without namespace, with the forged / the genuine / a fresh / no ID, holding the genuine "
        "signed element) x placement x forged-signature policy, and random surgery followed by engine-oriented steps "
        "(duplicate an ID among the elements the engine registers, un-namespace, wrap, clone).  SIGNATURE ENGINE as a "
        "dimension: every document is run under xmlsec1's semantics (the shared stand-in) with a probe that computes, "
        "for every --verify call of that run, what each of the six variants {duplicate ID: error / first wins / last "
        "wins} x {first ds:Signature at or below the node / ds:Signature child} would resolve (start node, signature "
        "node, Reference targets); every variant that resolves any call differently gets a real run of its own; the "
        "others provably behave like xmlsec1 on that run and share its observation (quick tier: a rotating one of them "
        "is evaluated in Coq for every second document, thorough tier: all).  Observed per document and engine: accepted?, reported "
        "fields, and from the xmlsec1 stand-in's log which element was digested under which certificate.  "
        "Round 5: HOW MANY assertions feed one report - genuine messages answering the SAME request (two subjects, two IdP "
        "keys, plain / encrypted, a genuine message with one encrypted + one plain assertion) and a pool of things that can "
        "stand where an assertion is expected (signed, encrypted, unsigned, signed by a stranger, other request, EMPTY "
        "EncryptedAssertion, EncryptedAssertion holding ciphertext + plain / two ciphertexts / plain only): every ordered "
        "pair of the 8 main members, every ordered triple of 4, special shapes, random sequences; WHOSE KEY verified - "
        "messages genuinely signed by the attacker / another federation member x embedded ds:KeyInfo certificate {own, the "
        "IdP's, none} x whom the signed element names {unknown entity, entity without signing KeyDescriptor, no Issuer on the "
        "envelope, the genuine IdP} x level, genuine traffic with KeyInfo, under metadata with / without the keyless entity "
        "and with only_use_keys_in_metadata off (only on documents whose signed elements name an entity with metadata keys).  "
        "Round 6: WHOSE NAME the envelope carries - in assertion-signed traffic the envelope's Issuer (what issuer() / "
        "session_info() report) lies outside every signature: 45 spellings NEAR the signed assertion's Issuer (proper prefixes / "
        "suffixes / inner fragments down to one character, superstrings, letter-case variants, white space around / inside / "
        "only, URL-equivalent spellings, another member, unknown, empty) x where it stands (Issuer rewritten / second Issuer "
        "child after / before) x message kind (plain, encrypted, KeyInfo, Advice, signed Issuer spelled with surrounding white "
        "space, a GUEST IdP whose entityID nests the IdP's - both in the SP's metadata, policies '<P>g' - in both directions, "
        "whole envelopes swapped) x policy, the same rewrites on the SIGNED side, and random slices / case flips / "
        "insertions / deletions / paddings of the names at the envelope or any Issuer element (own PRNG stream).  "
        "The property checked on the observed output includes: ONE covered element accounts for the whole report.  "
        "non-trivial = distinct (family, policy, accepted, digested-element paths, per-variant outcomes)")
TRUSTED = ["xmlsec1 stand-in (harness/standin/xmlsec1.py: xmlSecFindNode = first ds:Signature at/below --node-id, "
           "duplicate ID = error, xmldsig.c child-order strictness); the fixed finding C02-F1 depended on these semantics",
           "the property is checked under SIX signature-engine variants, made in harness/c02.py around the shared stand-in "
           "(its _register_ids / _find_first are replaced for the duration of one --verify call): ID registration "
           "{strict = xmlsec1, first registration wins, last wins} x signature selection {first ds:Signature at or below "
           "the start node = xmlsec1, the ds:Signature child}; element-name matching of --id-attr (un-namespaced elements "
           "of that local name match too) is xmlsec1's in all variants; the probe that decides which variants need a run "
           "of their own (harness/c02.py resolutions) is trusted; the fixed finding C02-F3 existed only under the lenient variants",
           "abstraction tree <-> XML text of harness/c02.py (serialise -> parse = identity is checked for every document)",
           "translator v2 (harness/py2coq2.py, Base/Py2.v; its not-modelled list: notes/translator_v2.md) re-translates on every "
           "run: response.StatusResponse.issuer, sigver.SecurityContext.correctly_signed_response, "
           "sigver.CryptoBackendXmlSec1.validate_signature, response.AuthnResponse._assertion and the validator block of "
           "sigver.SecurityContext._check_signature and the two assertion-count tests of response.AuthnResponse.parse_assertion "
           "(its first statement, cut out by harness/c02.py slice_count, and the test added by 6a3bb24f, slice_one; validators: cut out by slice_validators: from "
           "`signed_info = item.signature.signed_info` to the `raise SignatureError(error_context)`; the cutting rule is "
           "trusted) - C02/Source2.v proves each equal to what the model says, for all inputs; the encodings of parsed "
           "objects (enc_item ... in C02/Source2.v) are trusted to be what the object model builds (that is C12 / the "
           "correspondence)",
           "oracle bits: content_ok = the real acceptance code run with _check_signature replaced by the identity "
           "(all non-signature checks: C04-C06), schema bits = the real validate_doc_with_schema on str(item)"]
ASSUMPTIONS = ["ideal digests and signatures (Section hypotheses of C02/Proofs.v; tables of genuinely made values in the "
               "correspondence, real RSA/SHA executed by the stand-in)",
               "XML text level (prefixes, entities, whitespace, comments, xpointer URIs) is not in the tree model: "
               "implementation side only",
               "only_use_keys_in_metadata = True (the default; switched off only for documents whose signed elements name an "
               "entity that has signing keys in the metadata, where it must not matter); attribute names from the bundled uri map",
               "encrypted path: the text against which decrypted assertions are verified (str(response) after "
               "decrypt_keys) is taken from the implementation run as an input of the model"]

NOW = spaccept.NOW
NSMAP = {
    "urn:oasis:names:tc:SAML:2.0:protocol": "samlp",
    "urn:oasis:names:tc:SAML:2.0:assertion": "saml",
    "http://www.w3.org/2000/09/xmldsig#": "ds",
    "http://www.w3.org/2001/04/xmlenc#": "xenc",
    "http://www.w3.org/2001/XMLSchema": "xs",
    "http://www.w3.org/2001/XMLSchema-instance": "xsi",
    "urn:example:evil": "ev",
}
PFX = {v: k for k, v in NSMAP.items()}
DS_SIG = "ds:Signature"
KEYS = {"idp": 1, "idp2": 2, "idpenc": 3, "other": 4, "sp": 5, "attacker": 6, "spenc2": 7}
GUEST_KEY = "spenc2"                       # (round 6) fixture key pair used as the signing key of the guest IdP ("g" policies)
GUEST_ID = world.IDP_ID + "/guest"         # (round 6) a federation member whose entityID NESTS the IdP's (IdP's = its leading part)
MD = [(world.IDP_ID, [1, 2]), (world.OTHER_ID, [4])]
MAIL = "urn:oid:0.9.2342.19200300.100.1.3"
GIVEN = "urn:oid:2.5.4.42"
SN = "urn:oid:2.5.4.4"
AMAP = [(render.NF_URI + "|" + MAIL, "mail"), (render.NF_URI + "|" + GIVEN.lower(), "givenName"),
        (render.NF_URI + "|" + SN, "sn")]
OUTSTANDING = {"req-1": "/one", "req-2": "/two", "req-3": "/three"}
POLICIES = {
    "R": {"sp_want_response_signed": True, "sp_want_assertions_signed": False},
    "A": {"sp_want_response_signed": False, "sp_want_assertions_signed": True},
    "B": {"sp_want_response_signed": True, "sp_want_assertions_signed": True},
    "E": {"sp_want_response_signed": False, "sp_want_assertions_signed": False,
          "sp_want_assertions_or_response_signed": True},
}
ORACLE_POLICY = {"sp_want_response_signed": False, "sp_want_assertions_signed": False}


def _round5_policies():
    """(round 5) configuration variants of the policies above, same signature requirements: "<P>n" = the SP's metadata
    also knows an IdP WITHOUT a signing KeyDescriptor (https://nokeys.example.org/idp.xml, encryption key only);
    "<P>m" = no metadata at all (`if self.metadata:` is false in _check_signature; Coq side: empty metadata table);
    "<P>o" = only_use_keys_in_metadata switched off (used only with documents whose signed elements name an entity that
    HAS signing keys in the metadata: the metadata keys must then still be the ones that count)"""
    nokeys = world.idp_descriptor("https://nokeys.example.org/idp.xml", [("idpenc", "encryption")],
                                  sso=[(world.BINDING_HTTP_REDIRECT, "https://nokeys.example.org/sso/redirect")])
    md = [world.default_idp_md(), world.default_other_md(), nokeys]
    for p in ("R", "A", "B", "E"):
        POLICIES[p + "n"] = dict(POLICIES[p], metadata_xml=md)
        POLICIES[p + "o"] = dict(POLICIES[p], only_use_keys_in_metadata=False)
        POLICIES[p + "m"] = dict(POLICIES[p], metadata_xml=[])          # an SP without any metadata: nobody has keys
    # (round 6) "<P>g": the SP's metadata also knows the guest IdP, whose entityID is the IdP's + "/guest" (own signing key)
    guest = world.idp_descriptor(GUEST_ID, [(GUEST_KEY, "signing")],
                                 sso=[(world.BINDING_HTTP_REDIRECT, "https://idp.example.org/guest/sso/redirect")])
    for p in ("R", "A", "B", "E"):
        POLICIES[p + "g"] = dict(POLICIES[p], metadata_xml=[world.default_idp_md(), world.default_other_md(), guest])


_round5_policies()

# ---------------------------------------------------------------------------- tokens and tables
TOK = {}        # token -> real text (digest / signature value) or raw EncryptedData XML
RAW2TOK = {}    # real value -> token ; CipherValue text -> token
DIGS = []       # (alg, token, tree)     the tree whose digest the token is
SIGS = []       # (token, key number, SignedInfo tree)


_COUNT = {}


def _new_tok(kind, raw):
    if raw in RAW2TOK:
        return RAW2TOK[raw]
    _COUNT[kind] = _COUNT.get(kind, 0) + 1
    t = "$%s%d" % (kind, _COUNT[kind])
    TOK[t] = raw
    RAW2TOK[raw] = t
    return t


# ---------------------------------------------------------------------------- trees
def T(tag, attrs=None, text="", kids=None):
    return [tag, sorted([list(a) for a in (attrs or [])]), text, list(kids or [])]


def _name(q):
    if q.startswith("{"):
        ns, local = q[1:].split("}", 1)
        return NSMAP[ns] + ":" + local
    return q


def _cipher_key(el):
    cv = el.find("{%s}CipherData/{%s}CipherValue" % (PFX["xenc"], PFX["xenc"]))
    return "cipher:" + "".join((cv.text or "").split()) if cv is not None else None


def from_et(el):
    tag = _name(el.tag)
    if tag == "xenc:EncryptedData":
        ck = _cipher_key(el)
        if ck in RAW2TOK:
            tok = RAW2TOK[ck]
            return [tag, [["n", tok]], "", [copy.deepcopy(PLAIN[tok])]]
    attrs = sorted([_name(k), v] for k, v in el.attrib.items())
    kids = []
    for ch in el:
        if not isinstance(ch.tag, str):
            raise ValueError("comment / processing instruction")
        if ch.tail and ch.tail.strip():
            raise ValueError("mixed content")
        kids.append(from_et(ch))
    text = el.text or ""
    if tag in ("ds:DigestValue", "ds:SignatureValue") and text in RAW2TOK:
        text = RAW2TOK[text]
    return [tag, attrs, text, kids]


def parse(xml):
    if isinstance(xml, str):
        xml = xml.encode("utf-8")
    return from_et(ET.fromstring(xml))


PLAIN = {}  # ciphertext token -> plaintext tree


def ser(t, top=True):
    tag, attrs, text, kids = t
    if tag == "xenc:EncryptedData" and attrs and attrs[0][0] == "n" and attrs[0][1] in TOK:
        return TOK[attrs[0][1]]
    decl = "".join(' xmlns:%s="%s"' % (p, u) for p, u in sorted(PFX.items())) if top else ""
    a = "".join(" %s=%s" % (k, quoteattr(v)) for k, v in attrs)
    if tag in ("ds:DigestValue", "ds:SignatureValue") and text in TOK:
        text = TOK[text]
    return "<%s%s%s>%s%s</%s>" % (tag, decl, a, escape(text), "".join(ser(k, False) for k in kids), tag)


def kids(t):
    return t[3]


def attr(t, name):
    for k, v in t[1]:
        if k == name:
            return v
    return None


def set_attr(t, name, val):
    t[1] = sorted([a for a in t[1] if a[0] != name] + ([[name, val]] if val is not None else []))


def walk(t, path=()):
    yield path, t
    for i, k in enumerate(t[3]):
        yield from walk(k, path + (i,))


def sub(t, path):
    for i in path:
        t = t[3][i]
    return t


def find_all(t, tag):
    return [(p, n) for p, n in walk(t) if n[0] == tag]


def child(t, tag, last=False):
    c = [k for k in t[3] if k[0] == tag]
    if not c:
        return None
    return c[-1] if last else c[0]


def without(t, tag):
    """copy of t without its direct children of that tag"""
    n = copy.deepcopy(t)
    n[3] = [k for k in n[3] if k[0] != tag]
    return n


def size(t):
    return 1 + sum(size(k) for k in t[3])


# ---------------------------------------------------------------------------- stand-in wrapper, engine variants
_CAPTURE = {"decrypted": []}

# The signature ENGINE is a dimension of the check.  pysaml2 is written for xmlsec1 (duplicate ID under --id-attr =
# hard error; the first ds:Signature in document order at or below the start node is processed) and the shared
# stand-in implements exactly that.  sigver._is_the_only_signature_child is defence in depth for engines that
# resolve a duplicated ID silently (first registration wins: libxml2 xmlGetID; last wins: hash-map registries) or
# that process the ds:Signature CHILD of the start node.  The variants are made here, around the shared stand-in
# (its _register_ids / _find_first are replaced for the duration of one --verify call), not in it.
ID_MODES = ("strict", "first", "last")
SIG_SELS = ("below", "child")
DEFAULT_ENGINE = ("strict", "below")
ENGINES = [(i, s_) for s_ in SIG_SELS for i in ID_MODES]
_ENGINE = {"cur": DEFAULT_ENGINE, "probe": None}


def _id_specs(id_attrs):
    out = []
    for attr_, spec in id_attrs:
        if ":" in spec and not spec.startswith("{"):
            ns, name = spec.rsplit(":", 1)
        else:
            ns, name = None, spec
        out.append((attr_, ns, name))
    return out


def register_ids(m, root, id_attrs, mode):
    """the stand-in's _register_ids (same element-name matching, document order) with the duplicate policy of the
    engine variant: strict = the stand-in itself (error), first / last = silent"""
    if mode == "strict":
        return m._register_ids(root, id_attrs)
    ids = {}
    for attr_, ns, name in _id_specs(id_attrs):
        for el in m._iter_doc(root):
            if m._local(el.tag) != name:
                continue
            if ns is not None and m._ns(el.tag) and m._ns(el.tag) != ns:
                continue
            val = el.get(attr_)
            if val is None:
                continue
            if val in ids and ids[val] is not el and mode == "first":
                continue
            ids[val] = el
    return ids


def find_signature(m, start, sel):
    if sel == "below":
        return m._find_first(start, m.DS, "Signature")
    for el in start:
        if isinstance(el.tag, str) and el.tag == "{%s}Signature" % m.DS:
            return el
    return None


def resolutions(m, data, opts):
    """what every engine variant resolves for one --verify call: {engine: (start node, signature node, Reference
    targets) as document-order indices, or an error tag}.  Everything else a --verify call does is a function of
    these, so two variants with the same resolution give the same answer."""
    out = {}
    try:
        root = m._parse(data)
    except Exception as e:  # noqa
        return {eng: "error:" + type(e).__name__ for eng in ENGINES}
    order = {id(e): i for i, e in enumerate(root.iter())}
    regs = {}
    for mode in ID_MODES:
        try:
            regs[mode] = register_ids(m, root, opts["id_attrs"], mode)
        except m.XErr:
            regs[mode] = None
    nid = opts.get("node_id")
    for eng in ENGINES:
        ids = regs[eng[0]]
        try:
            if ids is None:
                out[eng] = "dup"
                continue
            if nid is None:
                start = root
            elif nid in ids:
                start = ids[nid]
            else:
                out[eng] = "no-node"
                continue
            sig = find_signature(m, start, eng[1])
            if sig is None:
                out[eng] = "no-sig"
                continue
            refs = []
            si = sig.find("{%s}SignedInfo" % m.DS)
            for ref in (si.findall("{%s}Reference" % m.DS) if si is not None else []):
                uri = ref.get("URI")
                if uri is None or uri == "":
                    refs.append(0)
                elif uri.startswith("#"):
                    frag = uri[1:]
                    if frag.startswith("xpointer(id('") and frag.endswith("'))"):
                        frag = frag[len("xpointer(id('"):-3]
                    t = ids.get(frag)
                    refs.append(order[id(t)] if t is not None else -1)
                else:
                    refs.append(-2)
            out[eng] = (order[id(start)], order[id(sig)], tuple(refs))
        except Exception as e:  # noqa
            out[eng] = "error:" + type(e).__name__
    return out


def index_paths(m, data, opts, engine):
    """for one --verify call under one engine variant: (child-index path of the ds:Signature that is verified, [child-index
    path of every Reference's target]) in the parsed input - the same resolution as `resolutions`; None when anything
    does not resolve (the call then failed)"""
    try:
        root = m._parse(data)
        ids = register_ids(m, root, opts["id_attrs"], engine[0])
        nid = opts.get("node_id")
        start = root if nid is None else ids.get(nid)
        if start is None:
            return None
        sig = find_signature(m, start, engine[1])
        if sig is None:
            return None
        pmap = {c: p_ for p_ in root.iter() for c in p_}

        def ipath(el):
            out = []
            while el is not root:
                par = pmap[el]
                out.append([c for c in par if isinstance(c.tag, str)].index(el))
                el = par
            return list(reversed(out))

        targets = []
        si = sig.find("{%s}SignedInfo" % m.DS)
        for ref in si.findall("{%s}Reference" % m.DS):
            uri = ref.get("URI")
            if uri is None or uri == "":
                t = root
            elif uri.startswith("#"):
                frag = uri[1:]
                if frag.startswith("xpointer(id('") and frag.endswith("'))"):
                    frag = frag[len("xpointer(id('"):-3]
                t = ids.get(frag)
            else:
                t = None
            if t is None:
                return None
            targets.append(ipath(t))
        return ipath(sig), targets
    except Exception:  # noqa
        return None


class C02Popen:
    """the stand-in's FakePopen under the current engine variant + capture of what C02 needs to observe: the digest of
    every --verify input (to tell the received text from the decrypted text), the output of every successful
    --decrypt and (probe mode) the set of engine variants that resolve some --verify call differently"""

    def __init__(self, com_list, stderr=None, stdout=None, **kw):
        m = env.standin()
        argv = list(com_list[1:])
        cmd, opts = None, {}
        sha = None
        data = None
        try:
            cmd, opts = m.parse_args(argv)
            if cmd == "verify" and opts["files"]:
                with open(opts["files"][-1], "rb") as f:
                    data = f.read()
                    sha = hashlib.sha1(data).hexdigest()
        except Exception:
            pass
        n_before = len(m.LOG)
        engine = _ENGINE["cur"]
        if cmd == "verify" and data is not None and _ENGINE["probe"] is not None:
            res = resolutions(m, data, opts)
            for e in ENGINES:
                if res[e] != res[engine]:
                    _ENGINE["probe"].add(e)
        if cmd == "verify" and engine != DEFAULT_ENGINE:
            saved = (m._register_ids, m._find_first)

            def reg(root, id_attrs):
                if engine[0] == "strict":
                    return saved[0](root, id_attrs)
                return register_ids(m, root, id_attrs, engine[0])

            def first(start, ns, name):
                if engine[1] == "child" and ns == m.DS and name == "Signature":
                    for el in start:
                        if isinstance(el.tag, str) and el.tag == "{%s}Signature" % m.DS:
                            return el
                    return None
                return saved[1](start, ns, name)

            m._register_ids, m._find_first = reg, first
            try:
                self.returncode, self._out, self._err = m.main(argv)
            finally:
                m._register_ids, m._find_first = saved
        else:
            self.returncode, self._out, self._err = m.main(argv)
        if cmd == "verify" and len(m.LOG) > n_before and sha is not None:
            m.LOG[-1]["input_sha1"] = sha
            # EXACT child-index paths of the signature node and of the Reference targets this call used (the stand-in's
            # log writes '/Response/Assertion[0]/...': local names, index among the siblings of the same QUALIFIED name -
            # ambiguous when an un-namespaced <Assertion> stands next to a saml:Assertion)
            ip = index_paths(m, data, opts, engine)
            if ip is not None:
                m.LOG[-1]["sig_ipath"], m.LOG[-1]["target_ipaths"] = ip
        if cmd == "decrypt" and self.returncode == 0:
            try:
                out = opts.get("output")
                data = open(out, "rb").read() if out else self._out
                _CAPTURE["decrypted"].append(data)
            except Exception:
                pass

    def communicate(self, *a, **kw):
        return self._out, self._err


def install():
    m = env.install_standin()
    import saml2.sigver

    saml2.sigver.Popen = C02Popen
    spaccept.CLOCK.install()
    return m


# ---------------------------------------------------------------------------- genuine messages
SIG_ALGS = {"sha256": (render.SIG_SHA256, render.DIG_SHA256),
            "sha1": ("http://www.w3.org/2000/09/xmldsig#rsa-sha1", "http://www.w3.org/2000/09/xmldsig#sha1"),
            "sha512": ("http://www.w3.org/2001/04/xmldsig-more#rsa-sha512", "http://www.w3.org/2001/04/xmlenc#sha512")}
C14N_WC = "http://www.w3.org/2001/10/xml-exc-c14n#WithComments"
C14N_10 = "http://www.w3.org/TR/2001/REC-xml-c14n-20010315"


SAME = object()


def msg_spec(n, issuer=world.IDP_ID, aid=None, rid=None, name=None, mail=None, req=None, r_issuer=SAME):
    """req: the request the message answers (default: a request of its own, req-<n>); r_issuer: the envelope's Issuer
    (default: the assertion's; None = no Issuer element, it is optional on a Response)"""
    req = req or "req-%d" % n
    a = spaccept.good_assertion(
        id=aid or "a-%d" % n, issuer=issuer,
        subject={"name_id": name or "subject-%d" % n,
                 "confirmations": [{"method": render.SCM_BEARER,
                                    "data": {"recipient": world.SP_ACS_POST, "in_response_to": req,
                                             "not_on_or_after": env.iso(NOW + 300)}}]},
        authn_statements=[{"authn_instant": env.iso(NOW - 10 * n), "session_index": "s-%d" % n}],
        attributes=[(MAIL, render.NF_URI, "mail", [mail or "user%d@example.org" % n]),
                    (GIVEN, render.NF_URI, "givenName", ["Given%d" % n])])
    r = spaccept.good_response(id=rid or "r-%d" % n, in_response_to=req, issuer=issuer if r_issuer is SAME else r_issuer)
    return r, a


def _template(ref_id, algs="sha256", c14n=render.EXC_C14N, transforms=(render.ENVELOPED, render.EXC_C14N), nrefs=1, keyinfo=None):
    """keyinfo: name of the key pair whose certificate is embedded as ds:KeyInfo/ds:X509Data (None: no KeyInfo)"""
    s, d = SIG_ALGS[algs]
    extra = ""
    if nrefs > 1:
        tr = "".join('<ds:Transform Algorithm="%s"/>' % t for t in transforms)
        extra = ('<ds:Reference URI="#%s"><ds:Transforms>%s</ds:Transforms><ds:DigestMethod Algorithm="%s"/>'
                 "<ds:DigestValue/></ds:Reference>" % (ref_id, tr, d)) * (nrefs - 1)
    return render.signature_template(ref_id, ("x509", keyinfo) if keyinfo else None, sig_alg=s, dig_alg=d, c14n=c14n,
                                     transforms=transforms, extra_refs=extra)


def _record_signature(tree, elem_path, key):
    """after a signing step: register tokens and table entries for the signature of the element"""
    el = sub(tree, elem_path)
    sig = child(el, DS_SIG)
    si = child(sig, "ds:SignedInfo")
    sv = child(sig, "ds:SignatureValue")
    if not sv[2].startswith("$"):
        sv[2] = _new_tok("s", sv[2])
    digested = copy.deepcopy(el)
    digested[3] = [k for k in digested[3] if k is not None and k != sig]
    for ref in [k for k in si[3] if k[0] == "ds:Reference"]:     # every Reference points at the element itself
        dv = child(ref, "ds:DigestValue")
        if not dv[2].startswith("$"):
            dv[2] = _new_tok("d", dv[2])
        alg = attr(child(ref, "ds:DigestMethod"), "Algorithm")
        if (alg, dv[2]) not in [(a, t) for a, t, _ in DIGS]:
            DIGS.append((alg, dv[2], digested))
    if sv[2] not in [t for t, _, _ in SIGS]:
        SIGS.append((sv[2], KEYS[key], copy.deepcopy(si)))


def advice_xml(n):
    """an Advice carrying an (unsigned) assertion of the same issuer with attributes of its own"""
    a = spaccept.good_assertion(id="adv-%d" % n, subject=None, conditions=None, authn_statements=[],
                                attributes=[(SN, render.NF_URI, "sn", ["Advice%d" % n]),
                                            (MAIL, render.NF_URI, "mail", ["advice%d@example.org" % n])])
    return "<saml:Advice>%s</saml:Advice>" % render.assertion(a)


def build_message(n, mode, key, issuer=world.IDP_ID, algs="sha256", c14n=render.EXC_C14N,
                  transforms=(render.ENVELOPED, render.EXC_C14N), nrefs=1, advice=False, keyinfo=None, **kw):
    """mode: R | A | B (plain), ER | EA | EB (assertion encrypted for the SP).  Returns the abstract tree."""
    install()
    r, a = msg_spec(n, issuer=issuer, **kw)
    enc = mode.startswith("E")
    sign_a = mode[-1] in "AB"
    sign_r = mode[-1] in "RB"
    if advice:
        a["advice"] = advice_xml(n)
        a["attributes"] = a["attributes"][1:]          # the assertion itself says givenName only
    if sign_a:
        a["sig_template"] = _template(a["id"], algs, c14n, transforms, nrefs, keyinfo)
    r["assertions_xml"] = [render.assertion(a)]
    if sign_r:
        r["sig_template"] = _template(r["id"], algs, c14n, transforms, nrefs, keyinfo)
    xml = render.response(r)
    tree = None
    if sign_a:
        xml = render.sign_xml(xml, key, render.A_ELEM, a["id"])
        tree = parse(xml)
        ap = [p for p, nd in walk(tree) if nd[0] == "saml:Assertion"][0]
        _record_signature(tree, ap, key)
    if enc:
        plain_tree = parse(xml) if tree is None else tree
        plain_a = copy.deepcopy([nd for p, nd in walk(plain_tree) if nd[0] == "saml:Assertion"][0])
        xml = render.encrypt_assertion_in_response(xml, "sp")
        root = ET.fromstring(xml.encode("utf-8"))
        ed = root.find(".//{%s}EncryptedData" % PFX["xenc"])
        ed.tail = None
        tok = _new_tok("e", _cipher_key(ed))
        TOK[tok] = ET.tostring(ed, encoding="unicode")
        PLAIN[tok] = plain_a
    if sign_r:
        xml = render.sign_xml(xml, key, render.R_ELEM, r["id"])
    tree = parse(xml)
    if sign_r:
        _record_signature(tree, (), key)
    assert parse(ser(tree)) == tree
    return tree


def build_pair(n_enc, n_plain, key, sign_r, sign_a, req="req-1"):
    """a genuine message with TWO assertions answering one request: the first encrypted for the SP, the second plain
    (what an IdP that adds an encrypted assertion next to a plain one sends).  sign_r / sign_a: the Response / both
    assertions are signed."""
    install()
    r, a1 = msg_spec(n_enc, req=req)
    _, a2 = msg_spec(n_plain, req=req)
    r["id"] = "r-%d%d" % (n_enc, n_plain)
    if sign_a:
        a1["sig_template"] = _template(a1["id"])
        a2["sig_template"] = _template(a2["id"])
    r["assertions_xml"] = [render.assertion(a1), render.assertion(a2)]
    if sign_r:
        r["sig_template"] = _template(r["id"])
    xml = render.response(r)
    tree = parse(xml)
    if sign_a:
        for a in (a1, a2):
            xml = render.sign_xml(xml, key, render.A_ELEM, a["id"])
        tree = parse(xml)
        for ap in [p for p, nd in walk(tree) if nd[0] == "saml:Assertion" and len(p) == 1]:
            _record_signature(tree, ap, key)
    plain_a = copy.deepcopy([nd for p, nd in walk(tree) if nd[0] == "saml:Assertion"][0])
    xml = render.encrypt_assertion_in_response(xml, "sp")
    ed = ET.fromstring(xml.encode("utf-8")).find(".//{%s}EncryptedData" % PFX["xenc"])
    ed.tail = None
    tok = _new_tok("e", _cipher_key(ed))
    TOK[tok] = ET.tostring(ed, encoding="unicode")
    PLAIN[tok] = plain_a
    if sign_r:
        xml = render.sign_xml(xml, key, render.R_ELEM, r["id"])
    tree = parse(xml)
    if sign_r:
        _record_signature(tree, (), key)
    assert parse(ser(tree)) == tree
    return tree


UNKNOWN_ID = "https://unknown.example.org/idp.xml"     # no entity of that name in the SP's metadata
NOKEYS_ID = "https://nokeys.example.org/idp.xml"       # in the metadata of the "n" policies, WITHOUT a signing key
# (round 5) everything below was added after the other messages: their tokens / names in C02Base.v stay what they were
ROUND5 = ["m4A", "m4EA", "m4R", "m5A", "pairR", "pairA", "pairB", "m1A_ki", "m1R_ki",
          "kA_unk", "kR_noiss", "kR_unk", "kB_unk", "kEA_unk", "kA_nokeys", "kR_nokeys", "kA_unk_noki", "kA_unk_idpki",
          "kA_idp", "kR_idp", "oA_unk", "oR_noiss"]


def base_round5(b):
    # more genuine answers to request req-1 (another subject, another session): the material of a splice
    b["m4A"] = build_message(4, "A", "idp", req="req-1")
    b["m4EA"] = build_message(4, "EA", "idp", req="req-1")
    b["m4R"] = build_message(4, "R", "idp", req="req-1")
    b["m5A"] = build_message(5, "A", "idp2", req="req-1")
    # genuine messages with two assertions (first encrypted, second plain)
    b["pairR"] = build_pair(16, 17, "idp", True, False)
    b["pairA"] = build_pair(16, 17, "idp", False, True)
    b["pairB"] = build_pair(16, 17, "idp", True, True)
    # the usual shape of real traffic: the signer's certificate rides in ds:KeyInfo
    b["m1A_ki"] = build_message(1, "A", "idp", keyinfo="idp")
    b["m1R_ki"] = build_message(1, "R", "idp", keyinfo="idp")
    # messages made and genuinely signed by somebody else, who embeds a certificate in ds:KeyInfo, and whose signed
    # element names an entity for which the SP has no signing key in its metadata (unknown entity, entity without
    # signing KeyDescriptor, no Issuer on the envelope) - or a known one
    ev = dict(aid="a-9", rid="r-9", name="admin", mail="admin@example.org")
    b["kA_unk"] = build_message(1, "A", "attacker", issuer=UNKNOWN_ID, keyinfo="attacker", **ev)
    b["kR_noiss"] = build_message(1, "R", "attacker", r_issuer=None, keyinfo="attacker", **ev)
    b["kR_unk"] = build_message(1, "R", "attacker", issuer=UNKNOWN_ID, keyinfo="attacker", **ev)
    b["kB_unk"] = build_message(1, "B", "attacker", issuer=UNKNOWN_ID, keyinfo="attacker", **ev)
    b["kEA_unk"] = build_message(1, "EA", "attacker", issuer=UNKNOWN_ID, keyinfo="attacker", **ev)
    b["kA_nokeys"] = build_message(1, "A", "attacker", issuer=NOKEYS_ID, keyinfo="attacker", **ev)
    b["kR_nokeys"] = build_message(1, "R", "attacker", issuer=NOKEYS_ID, keyinfo="attacker", **ev)
    b["kA_unk_noki"] = build_message(1, "A", "attacker", issuer=UNKNOWN_ID, **ev)
    b["kA_unk_idpki"] = build_message(1, "A", "attacker", issuer=UNKNOWN_ID, keyinfo="idp", **ev)
    b["kA_idp"] = build_message(1, "A", "attacker", keyinfo="attacker", **ev)
    b["kR_idp"] = build_message(1, "R", "attacker", keyinfo="attacker", **ev)
    # a federation member (its key IS in the metadata, for its own entity) speaking under another name
    ev = dict(aid="a-8", rid="r-8", name="admin", mail="admin@example.org")
    b["oA_unk"] = build_message(1, "A", "other", issuer=UNKNOWN_ID, keyinfo="other", **ev)
    b["oR_noiss"] = build_message(1, "R", "other", r_issuer=None, keyinfo="other", **ev)


# (round 6) WHOSE NAME the unsigned envelope carries: genuine messages of the guest IdP (entityID = the IdP's + "/guest",
# in the metadata of the "g" policies; its subject "admin" is self-registered there), and a genuine message whose SIGNED
# assertion spells its Issuer with surrounding white space (pretty-printed XML) under an exactly spelled envelope Issuer
ROUND6 = ["gA", "gEA", "gB", "m7A_pad"]


def base_round6(b):
    g = dict(issuer=GUEST_ID, aid="a-6", rid="r-6", name="admin", mail="admin@example.org", req="req-1")
    b["gA"] = build_message(6, "A", GUEST_KEY, **g)
    b["gEA"] = build_message(6, "EA", GUEST_KEY, **g)
    b["gB"] = build_message(6, "B", GUEST_KEY, **g)
    b["m7A_pad"] = build_message(7, "A", "idp", issuer="\n    " + world.IDP_ID + "\n  ", r_issuer=world.IDP_ID, req="req-1")


_BASE = {}


def base():
    """the genuinely signed messages (deterministic order => deterministic tokens)"""
    if _BASE:
        return _BASE
    b = _BASE
    for mode in ("R", "A", "B", "ER", "EA", "EB"):
        b["m1" + mode] = build_message(1, mode, "idp")
    for mode in ("R", "A", "B"):
        b["m2" + mode] = build_message(2, mode, "idp2")
    # alternative (allowed) algorithms / transforms
    b["m1A_sha1"] = build_message(1, "A", "idp", algs="sha1", c14n=C14N_WC, transforms=(render.ENVELOPED,))
    b["m1R_sha512"] = build_message(1, "R", "idp", algs="sha512", transforms=(render.EXC_C14N, render.ENVELOPED))
    # genuinely signed, but outside the SAML signature profile
    b["m1A_c14n10"] = build_message(1, "A", "idp", c14n=C14N_10)
    b["m1A_noenv"] = build_message(1, "A", "idp", transforms=(render.EXC_C14N,))
    b["m1A_tr10"] = build_message(1, "A", "idp", transforms=(render.ENVELOPED, C14N_10))
    b["m1A_tr3"] = build_message(1, "A", "idp", transforms=(render.ENVELOPED, render.EXC_C14N, C14N_WC))
    b["m1A_trdup"] = build_message(1, "A", "idp", transforms=(render.ENVELOPED, render.ENVELOPED))
    b["m1A_2refs"] = build_message(1, "A", "idp", nrefs=2)
    b["m1R_2refs"] = build_message(1, "R", "idp", nrefs=2)
    # genuine messages whose assertion carries an Advice with an assertion of its own
    b["m3A"] = build_message(3, "A", "idp", advice=True)
    b["m3R"] = build_message(3, "R", "idp", advice=True)
    # other signers
    b["evilA_attacker"] = build_message(1, "A", "attacker", aid="a-9", rid="r-9", name="admin", mail="admin@example.org")
    b["evilB_attacker"] = build_message(1, "B", "attacker", aid="a-9", rid="r-9", name="admin", mail="admin@example.org")
    b["evilA_other"] = build_message(1, "A", "other", aid="a-8", rid="r-8", name="admin", mail="admin@example.org")
    b["otherB"] = build_message(1, "B", "other", issuer=world.OTHER_ID, aid="a-7", rid="r-7", name="guest",
                                mail="guest@other.example.org")
    base_round5(b)
    base_round6(b)
    return b


INTERN_T = {}   # json(tree) -> Coq identifier defined in C02Base.v
INTERN_S = {}   # string -> Coq identifier


def _intern_all():
    """every string and every subtree of the genuine messages gets a name in C02Base.v (hash-consing:
    case documents are mostly made of unchanged genuine subtrees, which keeps the case files small)"""
    base()
    defs = []

    def istr(x):
        if x not in INTERN_S and len(x) > 3:
            INTERN_S[x] = "s%d" % (len(INTERN_S) + 1)
            defs.append("Definition %s : string := %s." % (INTERN_S[x], cq(x)))

    def itree(t):
        key = json.dumps(t)
        if key in INTERN_T:
            return
        for k in t[3]:
            itree(k)
        istr(t[0])
        istr(t[2])
        for k, v in t[1]:
            istr(k)
            istr(v)
        name = "t%d" % (len(INTERN_T) + 1)
        defs.append("Definition %s : tree := %s." % (name, cq_tree(t, top=False)))
        INTERN_T[key] = name

    for name in sorted(_BASE):
        itree(_BASE[name])
    for a, tk, tr in DIGS:
        itree(tr)
    for tk, k, si in SIGS:
        itree(si)
    for tk in sorted(PLAIN):
        itree(PLAIN[tk])
    for u in ALG_URIS + [world.IDP_ID, world.OTHER_ID, "admin", "admin@evil.example", "s-evil", "evil-1", "evil-r", GUEST_ID]:
        istr(u)
    return defs


def cq_s(x):
    n = INTERN_S.get(x)
    return n if n is not None else cq(x)


def cq_tree(t, top=True):
    if top:
        n = INTERN_T.get(json.dumps(t))
        if n is not None:
            return n
    return "(Node %s [%s] %s [%s])" % (cq_s(t[0]), "; ".join("(%s, %s)" % (cq_s(k), cq_s(v)) for k, v in t[1]),
                                       cq_s(t[2]), "; ".join(cq_tree(k) for k in t[3]))


def tables_coq():
    INTERN_T.clear()
    INTERN_S.clear()
    defs = _intern_all()
    lines = ["(* generated by harness/c02.py: names for the strings / subtrees of the genuinely signed messages and the",
             "   ideal-crypto tables of the genuinely made digests and signatures *)",
             "From Coq Require Import String List NArith.", "From Verif Require Import Base.Str C02.Model C02.Corr.",
             "Import ListNotations.", "Open Scope string_scope.", "Open Scope list_scope."]
    lines += defs
    lines += ["Definition world : list (string * list nat) * list (string * string) :=",
              "  ([%s], [%s])." % ("; ".join("(%s, [%s])" % (cq(e), "; ".join("%d%%nat" % k for k in ks)) for e, ks in MD),
                                  "; ".join("(%s, %s)" % (cq(k), cq(v)) for k, v in AMAP)),
              "Definition tabs : C02.Corr.tabs := {|", "  t_digs := ["]
    lines.append(";\n".join("    (%s, %s, %s)" % (cq(a), cq(t), cq_tree(tr)) for a, t, tr in DIGS))
    lines.append("  ];\n  t_sigs := [")
    lines.append(";\n".join("    (%s, (%d%%nat, %s))" % (cq(t), k, cq_tree(si)) for t, k, si in SIGS))
    lines.append("  ] |}.")
    return "\n".join(lines) + "\n"


_TABLES_TEXT = []


def ensure_interned():
    if not INTERN_T:
        _TABLES_TEXT.append(tables_coq())


GEN_BASE = os.path.join(common.GEN, "C02Base.v")
GEN_TABLES = os.path.join(common.GEN, "C02Tables.v")


def regenerate_tables(ctx):
    """(1) live allow-lists of saml2.xmldsig -> coq/gen/C02Tables.v (Property.v proves them equal to the
    model's constants); (2) crypto tables of the genuine messages -> coq/gen/C02Base.v (compiled here);
    (3) translator v2: five decision functions of the anchored code -> coq/gen/C02Src2.v."""
    env.check_repo_import()
    obligations = 0
    try:
        import saml2.sigver
        import saml2.xmldsig as xd

        txt = ("(* generated from the live saml2.xmldsig / saml2.sigver *)\nFrom Coq Require Import String List.\n"
               "Import ListNotations.\nOpen Scope string_scope.\n"
               "Definition live_allowed_transforms : list string := %s.\n"
               "Definition live_allowed_canonicalizations : list string := %s.\n"
               "Definition live_transform_enveloped : string := %s.\n"
               "Definition live_node_name : string := %s.\n" % (
                   cq(sorted(xd.ALLOWED_TRANSFORMS)), cq(sorted(xd.ALLOWED_CANONICALIZATIONS)),
                   cq(xd.TRANSFORM_ENVELOPED), cq(saml2.sigver.NODE_NAME)))
        obligations = 4
    except Exception as e:  # fail closed
        txt = "(* GENERATION FAILED: %s *)\nDefinition generation_failed : False := I.\n" % str(e).replace("*)", "* )")
    changed = common.write_if_changed(GEN_TABLES, txt)
    info = {"obligations": obligations, "discharged": obligations, "unit": "live constants proved equal to the model's",
            "changed": changed}
    # base tables need C02/Corr.vo: build it first
    rc, out = common.coq_make(["theories/C02/Corr.vo"], jobs=4)
    btxt = tables_coq()
    bchanged = common.write_if_changed(GEN_BASE, btxt)
    if rc == 0 and (bchanged or not os.path.exists(GEN_BASE[:-2] + ".vo")
                    or os.path.getmtime(GEN_BASE[:-2] + ".vo") < os.path.getmtime(
                        os.path.join(common.THEORIES, "C02", "Corr.vo"))):
        with common._Lock():
            rc2, out2 = common.coqc(GEN_BASE, cwd=common.COQDIR)
        info["base_compiled"] = rc2 == 0
        if rc2 != 0:
            info["base_log"] = out2[-1500:]
    info["digest_entries"] = len(DIGS)
    info["signature_entries"] = len(SIGS)
    # (3) translator v2: decision functions of the anchored code -> coq/gen/C02Src2.v (C02/Source2.v: one theorem each)
    from harness import py2coq2

    info2 = py2coq2.regenerate(os.path.join(common.GEN, "C02Src2.v"), src2_items())
    info["obligations"] = info.get("obligations", 0) + info2["obligations"]
    info["discharged"] = info.get("discharged", 0) + info2["discharged"]
    info["untranslatable"] = list(info.get("untranslatable", [])) + list(info2["untranslatable"])
    info["translated"] = list(info.get("translated", [])) + list(info2["translated"])
    info["changed"] = bool(info.get("changed")) or bool(info2["changed"])
    return info


# ---------------------------------------------------------------------------- translator v2: specs
SRC2_EXC = {"SignatureError": ["Exception"], "XMLSchemaError": ["Exception"], "XmlsecError": ["Exception"],
            "MissingKey": ["Exception"], "CertificateError": ["Exception"], "VerificationError": ["Exception"],
            "StatusInvalidAuthnResponseStatement": ["Exception"]}
SLICE_DIR = os.path.join(common.WORK, "C02", "slices")
VALIDATORS_PARAMS = ["item", "decoded_xml", "node_name", "_issuer"]


def slice_validators():
    """The validator block of SecurityContext._check_signature as a function of its own, cut out of the CURRENT source
    text on every run: the statements from `signed_info = item.signature.signed_info` up to and including
    `if not all(validators.values()): ... raise SignatureError(...)`.  (The method as a whole is outside the translator's
    subset: `str(e)` of a caught exception.)  Written to work/C02/slices/; when the block cannot be found the file
    holds no function and the translation is refused (poisoned definition, broken obligation)."""
    import ast

    path = os.path.join(env.SRC, "saml2", "sigver.py")
    out = os.path.join(SLICE_DIR, "sigver_check_signature_validators.py")
    os.makedirs(SLICE_DIR, exist_ok=True)
    text = "# slice not found\n"
    try:
        with open(path) as f:
            src = f.read()
        from harness import py2coq2

        fn = py2coq2.find_function(ast.parse(src), "SecurityContext._check_signature")
        body = fn.body

        def is_start(st):
            return (isinstance(st, ast.Assign) and len(st.targets) == 1 and isinstance(st.targets[0], ast.Name)
                    and st.targets[0].id == "signed_info")

        def is_end(st):
            t = st.test if isinstance(st, ast.If) else None
            return (isinstance(t, ast.UnaryOp) and isinstance(t.op, ast.Not) and isinstance(t.operand, ast.Call)
                    and isinstance(t.operand.func, ast.Name) and t.operand.func.id == "all")

        i = [k for k, st in enumerate(body) if is_start(st)]
        j = [k for k, st in enumerate(body) if is_end(st)]
        if len(i) == 1 and len(j) == 1 and i[0] < j[0]:
            lines = src.splitlines()[body[i[0]].lineno - 1:body[j[0]].end_lineno]
            text = ("# cut from saml2/sigver.py SecurityContext._check_signature, lines %d-%d\n"
                    "def _check_signature__validators(%s):\n%s\n" % (body[i[0]].lineno, body[j[0]].end_lineno,
                                                                    ", ".join(VALIDATORS_PARAMS), "\n".join(lines)))
    except Exception as e:  # fail closed
        text = "# slice failed: %s\n" % type(e).__name__
    common.write_if_changed(out, text)
    return out


def slice_count():
    """The assertion-count test of AuthnResponse.parse_assertion as a function of its own, cut out of the CURRENT source
    text on every run: the first statement of the method (after the docstring), `if self.context == "AuthnQuery": ... else:
    ... raise InvalidAssertion(...)`.  The rest of the method (decryption loops, logging) is outside the translator's
    subset.  When the statement is not found where it is expected the file holds no function: poisoned definition."""
    import ast

    path = os.path.join(env.SRC, "saml2", "response.py")
    out = os.path.join(SLICE_DIR, "response_parse_assertion_count.py")
    os.makedirs(SLICE_DIR, exist_ok=True)
    text = "# slice not found\n"
    try:
        with open(path) as f:
            src = f.read()
        from harness import py2coq2

        fn = py2coq2.find_function(ast.parse(src), "AuthnResponse.parse_assertion")

        def is_count(st):
            t = st.test if isinstance(st, ast.If) else None
            return (isinstance(t, ast.Compare) and isinstance(t.left, ast.Attribute) and t.left.attr == "context"
                    and isinstance(t.left.value, ast.Name) and t.left.value.id == "self")

        body = [st for st in fn.body if not (isinstance(st, ast.Expr) and isinstance(st.value, ast.Constant))]
        if body and is_count(body[0]) and not any(is_count(st) for st in body[1:]):
            st = body[0]
            lines = src.splitlines()[st.lineno - 1:st.end_lineno]
            text = ("# cut from saml2/response.py AuthnResponse.parse_assertion, lines %d-%d\n"
                    "def parse_assertion__count(self):\n%s\n" % (st.lineno, st.end_lineno, "\n".join(lines)))
    except Exception as e:  # fail closed
        text = "# slice failed: %s\n" % type(e).__name__
    common.write_if_changed(out, text)
    return out


def slice_one():
    """The test added by 6a3bb24f to AuthnResponse.parse_assertion as a function of its own, cut out of the CURRENT source
    text on every run: the one `if` statement of the method whose test reads both len(self.assertions) and
    self.response.signature (`if self.context != "AuthnQuery" and len(self.assertions) > 1 and not self.response.signature:
    raise InvalidAssertion(...)`).  Not found / found more than once: the file holds no function (poisoned definition)."""
    import ast
    import textwrap

    path = os.path.join(env.SRC, "saml2", "response.py")
    out = os.path.join(SLICE_DIR, "response_parse_assertion_one.py")
    os.makedirs(SLICE_DIR, exist_ok=True)
    text = "# slice not found\n"
    try:
        with open(path) as f:
            src = f.read()
        from harness import py2coq2

        fn = py2coq2.find_function(ast.parse(src), "AuthnResponse.parse_assertion")
        hits = []
        for st in ast.walk(fn):
            if isinstance(st, ast.If):
                t = ast.unparse(st.test)
                if "len(self.assertions)" in t and "self.response.signature" in t:
                    hits.append(st)
        if len(hits) == 1:
            st = hits[0]
            lines = textwrap.dedent("\n".join(src.splitlines()[st.lineno - 1:st.end_lineno]))
            text = ("# cut from saml2/response.py AuthnResponse.parse_assertion, lines %d-%d\n"
                    "def parse_assertion__one(self):\n%s\n" % (st.lineno, st.end_lineno, textwrap.indent(lines, "    ")))
    except Exception as e:  # fail closed
        text = "# slice failed: %s\n" % type(e).__name__
    common.write_if_changed(out, text)
    return out


def src2_items():
    S = os.path.join(env.SRC, "saml2")
    cn = lambda a: '(p2_attr_x %s "c_node_name")' % a[0]           # class_name(x): the node name of the instance's class
    return [
        (os.path.join(S, "response.py"), "StatusResponse.issuer",
         {"name": "src2_issuer", "params": ["self"], "attr_errors": True}),
        (os.path.join(S, "sigver.py"), "SecurityContext.correctly_signed_response",
         {"name": "src2_correctly_signed_response",
          "params": ["self", "decoded_xml", "must", "origdoc", "only_valid_cert", "require_response_signature", "kwargs"],
          "extra_params": [("parse_resp", "pyval -> pyval"), ("check_sig", "pyval -> pyval -> pyval -> pyval -> pyval")],
          "attr_errors": True, "exc_parents": SRC2_EXC,
          "calls": {"samlp.any_response_from_string": lambda a: "(parse_resp %s)" % a[0],
                    "self._check_signature": lambda a: "(check_sig %s %s %s %s)" % tuple(a), "class_name": cn}}),
        (os.path.join(S, "sigver.py"), "CryptoBackendXmlSec1.validate_signature",
         {"name": "src2_validate_signature",
          "params": ["self", "signedtext", "cert_file", "cert_type", "node_name", "node_id"],
          "extra_params": [("run_xmlsec", "pyval -> pyval -> pyval"), ("parse_out", "pyval -> pyval -> pyval")],
          "attr_errors": True, "exc_parents": SRC2_EXC, "classes": {"bytes": ["bytes"]}, "lenient_raise_args": True,
          # str = the Coq string of its UTF-8 bytes: .encode("utf-8") is the identity on the representation;
          # make_temp: an object whose .name stands for the file holding that text
          "calls": {"signedtext.encode": lambda a: "v_signedtext",
                    "make_temp": lambda a, kw: '(PObj [("__class__", PStr "tmpfile"); ("name", %s)])' % a[0],
                    "self._run_xmlsec": lambda a: "(run_xmlsec %s %s)" % (a[0], a[1]),
                    "parse_xmlsec_verify_output": lambda a: "(parse_out %s %s)" % (a[0], a[1])}}),
        (os.path.join(S, "response.py"), "AuthnResponse._assertion",
         {"name": "src2_assertion", "params": ["self", "assertion", "verified"], "attr_errors": True,
          "extra_params": [("check_sig", "pyval -> pyval -> pyval -> pyval"), ("authn_ok", "pyval -> pyval"),
                           ("cond_ok", "pyval -> pyval"), ("get_subject", "pyval -> pyval")],
          "calls": {"self.sec.check_signature": lambda a: "(check_sig %s %s %s)" % (a[0], a[1], a[2]), "class_name": cn,
                    "self.issuer": lambda a: "(src2_issuer v_self)",
                    "self.authn_statement_ok": lambda a: "(authn_ok v_self)", "self.condition_ok": lambda a: "(cond_ok v_self)",
                    "self.get_subject": lambda a: "(get_subject v_self)"},
          "ignore_calls": ["logger.debug", "logger.error", "logger.exception", "logger.info"],
          "exc_parents": SRC2_EXC, "returns_state": ["self"]}),
        (slice_validators(), "_check_signature__validators",
         {"name": "src2_validators", "params": list(VALIDATORS_PARAMS), "attr_errors": True, "exc_parents": SRC2_EXC,
          "extra_params": [("allowed_c14n", "pyval"), ("allowed_transforms", "pyval"), ("transform_enveloped", "pyval")],
          "globals": {"ALLOWED_CANONICALIZATIONS": "allowed_c14n", "TRANSFORM_ENVELOPED": "transform_enveloped"},
          # set.intersection(list): the members of the set that occur in the list (a set: no duplicates)
          "calls": {"ALLOWED_TRANSFORMS.intersection": lambda a: "(p2_listcomp allowed_transforms (fun x_ => p2_in x_ %s) (fun x_ => x_))" % a[0]}}),
        (slice_count(), "parse_assertion__count",
         {"name": "src2_count", "params": ["self"], "attr_errors": True, "lenient_raise_args": True,
          "exc_parents": dict(SRC2_EXC, InvalidAssertion=["Exception"])}),
        (slice_one(), "parse_assertion__one",
         {"name": "src2_one", "params": ["self"], "attr_errors": True, "lenient_raise_args": True,
          "exc_parents": dict(SRC2_EXC, InvalidAssertion=["Exception"])}),
    ]


# ---------------------------------------------------------------------------- surgery helpers
def evil_identity(a, tag="admin"):
    """change what the assertion says (subject, attribute values, session index)"""
    a = copy.deepcopy(a)
    for p, n in walk(a):
        if n[0] == "saml:NameID":
            n[2] = tag
        elif n[0] == "saml:AttributeValue" and not n[3]:
            n[2] = tag + "@evil.example"
        elif n[0] == "saml:AuthnStatement":
            set_attr(n, "SessionIndex", "s-evil")
    return a


def decoy_signature(ref_id):
    t = parse('<x xmlns:ds="%s">%s</x>' % (PFX["ds"], _template(ref_id)))
    return t[3][0]


def look_alike(i, policy):
    return {"case": i.swapcase(), "padded": " " + i + " ", "prefix": "x" + i, "suffix": i + "x"}[policy]


def set_ids(el, policy, fresh):
    el = copy.deepcopy(el)
    if policy == "fresh":
        set_attr(el, "ID", fresh)
    elif policy == "removed":
        set_attr(el, "ID", None)
    elif policy in ("case", "padded", "prefix", "suffix"):
        set_attr(el, "ID", look_alike(attr(el, "ID") or fresh, policy))
    return el


def insert_by_order(parent, node, after_tags):
    """insert node after the last child whose tag is in after_tags (else at the front)"""
    idx = 0
    for i, k in enumerate(parent[3]):
        if k[0] in after_tags:
            idx = i + 1
    parent[3].insert(idx, node)


def place(root, evil, orig, where):
    """put `orig` (the genuine element) at one of the XSW places relative to the assertion `evil`, which is
    (or becomes) a child of the Response `root`.  Returns False when the place does not exist."""
    if where == "before":
        i = root[3].index(evil)
        root[3].insert(i, orig)
    elif where == "after":
        i = root[3].index(evil)
        root[3].insert(i + 1, orig)
    elif where == "extensions":
        insert_by_order(root, T("samlp:Extensions", kids=[orig]), ("saml:Issuer", DS_SIG))
    elif where == "statusdetail":
        st = child(root, "samlp:Status")
        if st is None:
            return False
        st[3].append(T("samlp:StatusDetail", kids=[orig]))
    elif where == "advice":
        insert_by_order(evil, T("saml:Advice", kids=[orig]), ("saml:Issuer", DS_SIG, "saml:Subject", "saml:Conditions"))
    elif where == "object":
        s = child(evil, DS_SIG, last=True)
        if s is None:
            return False
        s[3].append(T("ds:Object", kids=[orig]))
    elif where == "scd":
        scd = [n for p, n in walk(evil) if n[0] == "saml:SubjectConfirmationData"]
        if not scd:
            return False
        scd[0][3].append(orig)
    elif where == "attrvalue":
        av = [n for p, n in walk(evil) if n[0] == "saml:AttributeValue"]
        if not av:
            return False
        av[-1][3].append(orig)
        av[-1][2] = ""
    elif where == "box":
        evil[3].append(T("ev:Box", kids=[orig]))
    elif where == "child":
        evil[3].append(orig)
    else:
        raise ValueError(where)
    return True


def nested_first(holder, orig):
    """move the child of `holder` that contains `orig` in front of holder's first ds:Signature child, so that the
    nested element (and any signature it carries) precedes the holder's own signature in document order"""
    si = [i for i, k in enumerate(holder[3]) if k[0] == DS_SIG]
    ci = [i for i, k in enumerate(holder[3]) if any(n is orig for p, n in walk(k))]
    if not si or not ci or ci[0] < si[0]:
        return bool(ci and si)
    node = holder[3].pop(ci[0])
    holder[3].insert(si[0], node)
    return True


PLACES = ["before", "after", "extensions", "advice", "object", "scd", "attrvalue", "statusdetail", "box", "child"]
INNER_PLACES = ["advice", "scd", "attrvalue", "box", "child"]
ID_POLICIES = ["same", "fresh", "removed"]
LOOKALIKE_IDS = ["case", "padded", "prefix", "suffix"]
SIG_POLICIES = ["copied", "stripped", "moved", "copied+decoy", "moved+decoy", "decoy+moved"]
# "decoy": the wrapper carries only its own self-referencing signature template, the nested genuine element keeps its signature
ALL_SIG_POLICIES = SIG_POLICIES + ["decoy"]


def xsw_assertion(doc, where, idp, sigp, order="after"):
    """assertion-level wrapping of the (first) signed assertion of doc; order="before": the nested genuine element
    precedes the wrapper's own ds:Signature child(ren) in document order"""
    root = copy.deepcopy(doc)
    ai = [i for i, k in enumerate(root[3]) if k[0] == "saml:Assertion"]
    if not ai:
        return None
    a = root[3][ai[0]]
    s = child(a, DS_SIG)
    evil = evil_identity(without(a, DS_SIG))
    evil = set_ids(evil, idp, "evil-1")
    eid = attr(evil, "ID") or "evil-1"
    orig = copy.deepcopy(a)
    sigs = []
    if s is not None:
        if sigp.startswith("copied"):
            sigs = [copy.deepcopy(s)]
        elif sigp.startswith("moved") or sigp.endswith("moved"):
            sigs = [copy.deepcopy(s)]
            orig = without(orig, DS_SIG)
        if sigp.endswith("+decoy") or sigp == "decoy":
            sigs = sigs + [decoy_signature(eid)]
        elif sigp.startswith("decoy+"):
            sigs = [decoy_signature(eid)] + sigs
    elif sigp != "stripped":
        return None
    for j, sg in enumerate(sigs):
        evil[3].insert(1 + j, sg)
    root[3][ai[0]] = evil
    if not place(root, evil, orig, where):
        return None
    if order == "before" and not nested_first(evil, orig):
        return None
    return root


def xsw_response(doc, where, idp, sigp, order="after"):
    """Response-level wrapping: a new outer Response carries the evil content, the genuine Response is tucked away"""
    orig = copy.deepcopy(doc)
    s = child(orig, DS_SIG)
    outer = without(doc, DS_SIG)
    outer = set_ids(outer, idp, "evil-r")
    rid = attr(outer, "ID") or "evil-r"
    for i, k in enumerate(outer[3]):
        if k[0] == "saml:Assertion":
            e = evil_identity(without(k, DS_SIG))
            set_attr(e, "ID", "evil-1")
            outer[3][i] = e
    sigs = []
    if s is not None:
        if sigp.startswith("copied"):
            sigs = [copy.deepcopy(s)]
        elif sigp.startswith("moved") or sigp.endswith("moved"):
            sigs = [copy.deepcopy(s)]
            orig = without(orig, DS_SIG)
        if sigp.endswith("+decoy") or sigp == "decoy":
            sigs = sigs + [decoy_signature(rid)]
        elif sigp.startswith("decoy+"):
            sigs = [decoy_signature(rid)] + sigs
    elif sigp != "stripped":
        return None
    for j, sg in enumerate(sigs):
        outer[3].insert(1 + j, sg)
    ev = [k for k in outer[3] if k[0] == "saml:Assertion"]
    if where in ("before", "after"):
        if where == "before":
            outer[3].insert(0, orig)
        else:
            outer[3].append(orig)
    elif not ev and where in ("advice", "scd", "attrvalue", "box", "child"):
        return None
    elif where == "object":
        sg = child(outer, DS_SIG, last=True)
        if sg is None:
            return None
        sg[3].append(T("ds:Object", kids=[orig]))
    elif not place(outer, ev[0] if ev else None, orig, where):
        return None
    if order == "before" and not nested_first(outer, orig):
        return None
    return outer


SINGLETONS = [
    ("samlp:Response", ["saml:Issuer", DS_SIG, "samlp:Extensions", "samlp:Status"]),
    ("saml:Assertion", ["saml:Issuer", DS_SIG, "saml:Subject", "saml:Conditions", "saml:Advice"]),
    ("saml:Subject", ["saml:NameID"]),
    ("saml:SubjectConfirmation", ["saml:SubjectConfirmationData"]),
    ("saml:AuthnStatement", ["saml:AuthnContext"]),
    ("saml:AuthnContext", ["saml:AuthnContextClassRef"]),
    (DS_SIG, ["ds:SignedInfo", "ds:SignatureValue", "ds:KeyInfo"]),
    ("ds:SignedInfo", ["ds:CanonicalizationMethod", "ds:SignatureMethod"]),
    ("ds:Reference", ["ds:Transforms", "ds:DigestMethod", "ds:DigestValue"]),
]


def altered(n):
    """a visibly different copy of a node (what an attacker would want to be read instead)"""
    n = copy.deepcopy(n)
    tag = n[0]
    if tag == "saml:Issuer":
        n[2] = world.OTHER_ID
    elif tag in ("saml:Subject", "saml:NameID"):
        for p, x in walk(n):
            if x[0] == "saml:NameID":
                x[2] = "admin"
    elif tag == "saml:Conditions":
        for p, x in walk(n):
            if x[0] == "saml:Audience":
                x[2] = "https://elsewhere.example.org/sp"
        set_attr(n, "NotOnOrAfter", env.iso(NOW + 86400))
    elif tag == "saml:SubjectConfirmationData":
        set_attr(n, "Recipient", "https://elsewhere.example.org/acs")
    elif tag == "saml:AuthnContextClassRef":
        n[2] = "urn:oasis:names:tc:SAML:2.0:ac:classes:Smartcard"
    elif tag == "ds:SignatureValue":
        n[2] = "$sX"
    elif tag == "ds:DigestValue":
        n[2] = "$dX"
    elif tag in ("ds:CanonicalizationMethod", "ds:SignatureMethod", "ds:DigestMethod"):
        set_attr(n, "Algorithm", {"ds:CanonicalizationMethod": C14N_10, "ds:SignatureMethod": SIG_ALGS["sha1"][0],
                                  "ds:DigestMethod": SIG_ALGS["sha1"][1]}[tag])
    elif tag == "ds:SignedInfo":
        for p, x in walk(n):
            if x[0] == "ds:Reference":
                set_attr(x, "URI", "#elsewhere")
    elif tag == "ds:Transforms":
        n[3] = n[3][:1]
    elif tag == "samlp:Status":
        for p, x in walk(n):
            if x[0] == "samlp:StatusCode":
                set_attr(x, "Value", "urn:oasis:names:tc:SAML:2.0:status:Responder")
    return n


TOK["$sX"] = "AAAA"
TOK["$dX"] = "BBBB"
RAW2TOK["AAAA"] = "$sX"
RAW2TOK["BBBB"] = "$dX"


def duplicates(doc):
    """for every singleton member present in doc: a modified duplicate before / after the original"""
    out = []
    for ptag, members in SINGLETONS:
        for pp, pn in find_all(doc, ptag):
            for mt in members:
                idx = [i for i, k in enumerate(pn[3]) if k[0] == mt]
                if not idx:
                    if mt in ("samlp:Extensions", "saml:Advice", "ds:KeyInfo"):
                        continue
                    continue
                for pos in ("before", "after"):
                    d = copy.deepcopy(doc)
                    par = sub(d, pp)
                    dup = altered(par[3][idx[0]])
                    par[3].insert(idx[0] + (1 if pos == "after" else 0), dup)
                    out.append(("dup:%s/%s:%s" % (ptag, mt, pos), d))
            # only the first parent of each kind in the quick tier (the same operation elsewhere is covered randomly)
            break
    return out


ALG_URIS = [render.ENVELOPED, render.EXC_C14N, C14N_WC, C14N_10, "http://www.w3.org/2006/12/xml-c14n11",
            "http://www.w3.org/TR/1999/REC-xpath-19991116", "http://www.w3.org/2000/09/xmldsig#base64",
            SIG_ALGS["sha1"][0], SIG_ALGS["sha1"][1], SIG_ALGS["sha256"][0], SIG_ALGS["sha256"][1],
            "http://www.w3.org/2001/04/xmldsig-more#rsa-md5", "urn:example:unknown"]


def signature_rewrites(doc):
    out = []
    sigs = find_all(doc, DS_SIG)
    for sp, s in sigs[:2]:
        owner = sub(doc, sp[:-1])
        oid = attr(owner, "ID")

        def mod(name, f, sp=sp):
            d = copy.deepcopy(doc)
            f(sub(d, sp), d)
            out.append((name, d))

        refp = [p for p, n in walk(s) if n[0] == "ds:Reference"][0]
        for uri in ["", "#", "#elsewhere", "#r-1", "#a-1", "#" + (oid or "x") + " ", "#xpointer(/)", None, oid or "x",
                    "http://evil.example/x"]:
            mod("uri:%r@%s" % (uri, owner[0]), lambda sg, d, uri=uri: set_attr(sub(sg, refp), "URI", uri))
        for tag in ("ds:CanonicalizationMethod", "ds:SignatureMethod", "ds:DigestMethod", "ds:Transform"):
            nodes = [p for p, n in walk(s) if n[0] == tag]
            for np_ in nodes:
                for u in ALG_URIS + [None]:
                    mod("alg:%s=%s@%s" % (tag, u, owner[0]), lambda sg, d, np_=np_, u=u: set_attr(sub(sg, np_), "Algorithm", u))
        trp = [p for p, n in walk(s) if n[0] == "ds:Transforms"][0]
        mod("transforms:none@" + owner[0], lambda sg, d: sub(sg, trp[:-1])[3].pop(trp[-1]))
        mod("transforms:empty@" + owner[0], lambda sg, d: sub(sg, trp).__setitem__(3, []))
        mod("transforms:3@" + owner[0], lambda sg, d: sub(sg, trp)[3].append(T("ds:Transform", [["Algorithm", C14N_WC]])))
        mod("transforms:dup-env@" + owner[0], lambda sg, d: sub(sg, trp)[3].append(T("ds:Transform", [["Algorithm", render.ENVELOPED]])))
        mod("transforms:swap@" + owner[0], lambda sg, d: sub(sg, trp)[3].reverse())
        # extra Reference (before / after), ds:Object with content, KeyInfo with attacker certificate
        sip = [p for p, n in walk(s) if n[0] == "ds:SignedInfo"][0]
        for pos in ("before", "after"):
            def extra_ref(sg, d, pos=pos):
                si = sub(sg, sip)
                r = copy.deepcopy(sub(sg, refp))
                set_attr(r, "URI", "#elsewhere")
                i = si[3].index(sub(sg, refp))
                si[3].insert(i + (1 if pos == "after" else 0), r)
            mod("extra-ref:%s@%s" % (pos, owner[0]), extra_ref)
        mod("object:empty@" + owner[0], lambda sg, d: sg[3].append(T("ds:Object")))
        mod("object:assertion@" + owner[0],
            lambda sg, d: sg[3].append(T("ds:Object", kids=[evil_identity(without(child(base()["m1A"], "saml:Assertion"), DS_SIG))])))
        mod("keyinfo:attacker@" + owner[0], lambda sg, d: sg[3].append(
            T("ds:KeyInfo", kids=[T("ds:X509Data", kids=[T("ds:X509Certificate", text=fixtures.cert_b64("attacker"))])])))
        mod("sigvalue:corrupt@" + owner[0], lambda sg, d: child(sg, "ds:SignatureValue").__setitem__(2, "$sX"))
        mod("digest:corrupt@" + owner[0], lambda sg, d: sub(sg, refp + (len(sub(sg, refp)[3]) - 1,)).__setitem__(2, "$dX"))
        mod("sig:reorder@" + owner[0], lambda sg, d: sg[3].reverse())
        mod("sig:unnamespaced-owner@" + owner[0], lambda sg, d, sp=sp: sub(d, sp[:-1]).__setitem__(0, owner[0].split(":")[1]))
    return out


def text_edits(doc):
    out = []

    def mod(name, f):
        d = copy.deepcopy(doc)
        if f(d) is not False:
            out.append((name, d))

    def set_text(tag, val, which=0):
        def f(d):
            n = [x for p, x in walk(d) if x[0] == tag]
            if len(n) <= which:
                return False
            n[which][2] = val
        return f

    def set_at(tag, a, val, which=0):
        def f(d):
            n = [x for p, x in walk(d) if x[0] == tag]
            if len(n) <= which:
                return False
            set_attr(n[which], a, val)
        return f

    mod("edit:nameid", set_text("saml:NameID", "admin"))
    mod("edit:attrvalue", set_text("saml:AttributeValue", "admin@evil.example"))
    mod("edit:audience", set_text("saml:Audience", "https://elsewhere.example.org/sp"))
    mod("edit:issuer-envelope=other", set_text("saml:Issuer", world.OTHER_ID, 0))
    mod("edit:issuer-envelope=unknown", set_text("saml:Issuer", "https://unknown.example.org/idp", 0))
    mod("edit:issuer-envelope=empty", set_text("saml:Issuer", "", 0))
    mod("edit:issuer-envelope=padded", set_text("saml:Issuer", " " + world.IDP_ID + " ", 0))
    mod("edit:issuer-assertion=other", set_text("saml:Issuer", world.OTHER_ID, 1))
    mod("edit:issuer-both=other", lambda d: [n.__setitem__(2, world.OTHER_ID) for p, n in walk(d) if n[0] == "saml:Issuer"] and None)
    mod("edit:drop-issuer-envelope", lambda d: d[3].pop(0) if d[3] and d[3][0][0] == "saml:Issuer" else False)
    mod("edit:response-id", lambda d: set_attr(d, "ID", "r-x"))
    mod("edit:assertion-id", set_at("saml:Assertion", "ID", "a-x"))
    mod("edit:assertion-noid", set_at("saml:Assertion", "ID", None))
    mod("edit:response-noid", lambda d: set_attr(d, "ID", None))
    mod("edit:session-index", set_at("saml:AuthnStatement", "SessionIndex", "s-evil"))
    mod("edit:session-nooa", set_at("saml:AuthnStatement", "SessionNotOnOrAfter", env.iso(NOW + 7200)))
    mod("edit:cond-nooa", set_at("saml:Conditions", "NotOnOrAfter", env.iso(NOW + 86400)))
    mod("edit:destination", lambda d: set_attr(d, "Destination", world.SP_ACS_POST))
    mod("edit:inresponseto", lambda d: set_attr(d, "InResponseTo", "req-2"))
    mod("edit:extra-attribute", lambda d: [n[3].append(T("saml:Attribute", [["Name", GIVEN], ["NameFormat", render.NF_URI]],
                                                        kids=[T("saml:AttributeValue", text="Root")]))
                                           for p, n in walk(d) if n[0] == "saml:AttributeStatement"] and None)
    mod("edit:extra-statement", lambda d: [n[3].append(T("saml:AttributeStatement", kids=[
        T("saml:Attribute", [["Name", MAIL], ["NameFormat", render.NF_URI]], kids=[T("saml:AttributeValue", text="root@evil.example")])]))
        for p, n in walk(d) if n[0] == "saml:Assertion"] and None)
    mod("edit:drop-signatures", lambda d: [sub(d, p[:-1])[3].remove(n) for p, n in reversed(find_all(d, DS_SIG))] and None)
    mod("edit:drop-response-signature", lambda d: d.__setitem__(3, [k for k in d[3] if k[0] != DS_SIG]))
    mod("edit:drop-assertion-signature", lambda d: [k.__setitem__(3, [x for x in k[3] if x[0] != DS_SIG])
                                                    for k in d[3] if k[0] == "saml:Assertion"] and None)
    return out


def splices(b):
    out = []
    B = base()

    def asr(doc):
        return [copy.deepcopy(k) for k in doc[3] if k[0] == "saml:Assertion"]

    def with_assertions(doc, al):
        d = copy.deepcopy(doc)
        i = [j for j, k in enumerate(d[3]) if k[0] in ("saml:Assertion", "saml:EncryptedAssertion")]
        pos = i[0] if i else len(d[3])
        d[3] = [k for k in d[3] if k[0] not in ("saml:Assertion", "saml:EncryptedAssertion")]
        d[3][pos:pos] = al
        return d

    for x in ("R", "A", "B"):
        for y in ("R", "A", "B"):
            out.append(("splice:m1%s<-assertion(m2%s)" % (x, y), with_assertions(B["m1" + x], asr(B["m2" + y]))))
            out.append(("splice:m1%s+assertion(m2%s)" % (x, y), with_assertions(B["m1" + x], asr(B["m1" + x]) + asr(B["m2" + y]))))
            out.append(("splice:m1%s,assertion(m2%s)first" % (x, y), with_assertions(B["m1" + x], asr(B["m2" + y]) + asr(B["m1" + x]))))
    # genuine signature of one message on the other
    for x, y in (("A", "A"), ("R", "R"), ("B", "B")):
        d = copy.deepcopy(B["m1" + x])
        src = B["m2" + y]
        for p, n in find_all(d, DS_SIG):
            own = sub(d, p[:-1])
            other = [k for pp, k in walk(src) if k[0] == own[0]][0]
            own[3][p[-1]] = copy.deepcopy(child(other, DS_SIG))
        out.append(("splice:m1%s with signatures of m2%s" % (x, y), d))
    # assertions by other signers inside the genuine envelope
    for name in ("evilA_attacker", "evilA_other", "otherB"):
        out.append(("splice:m1R<-assertion(%s)" % name, with_assertions(B["m1R"], asr(B[name]))))
        out.append(("splice:m1A<-assertion(%s)" % name, with_assertions(B["m1A"], asr(B[name]))))
        out.append((name, copy.deepcopy(B[name])))
    out.append(("evilB_attacker", copy.deepcopy(B["evilB_attacker"])))
    # encrypted next to plain
    for x in ("ER", "EA", "EB"):
        enc = [copy.deepcopy(k) for k in B["m1" + x][3] if k[0] == "saml:EncryptedAssertion"]
        for y in ("R", "A", "B"):
            out.append(("splice:m2%s+enc(m1%s)" % (y, x), with_assertions(B["m2" + y], asr(B["m2" + y]) + enc)))
            out.append(("splice:m2%s<-enc(m1%s)" % (y, x), with_assertions(B["m2" + y], enc)))
    return out


def enc_variants():
    """encrypted family: the attacker can encrypt anything for the SP (public key)"""
    out = []
    B = base()
    for x in ("ER", "EA", "EB"):
        doc = B["m1" + x]
        ei = [i for i, k in enumerate(doc[3]) if k[0] == "saml:EncryptedAssertion"][0]
        ed = doc[3][ei][3][0]
        plain = ed[3][0]
        # re-encrypt a modified plaintext (fresh ciphertext made at observe time)
        for name, f in (("evil", lambda a: evil_identity(a)), ("same", lambda a: copy.deepcopy(a)),
                        ("evil-nosig", lambda a: evil_identity(without(a, DS_SIG))),
                        ("xsw-advice", lambda a: xsw_assertion(T("samlp:Response", kids=[copy.deepcopy(a)]), "advice", "fresh", "moved+decoy")[3][0]
                         if child(a, DS_SIG) else None)):
            p2 = f(plain)
            if p2 is None:
                continue
            d = copy.deepcopy(doc)
            d[3][ei] = T("saml:EncryptedAssertion", kids=[T("xenc:EncryptedData", [["n", "$new"]], kids=[p2])])
            out.append(("enc:%s:reencrypt-%s" % (x, name), d))
        # plain evil assertion smuggled into the EncryptedAssertion element, next to the ciphertext
        d = copy.deepcopy(doc)
        d[3][ei][3].append(evil_identity(without(plain, DS_SIG)))
        out.append(("enc:%s:plain-sibling-in-EncryptedAssertion" % x, d))
        d = copy.deepcopy(doc)
        d[3][ei][3].insert(0, evil_identity(plain))
        out.append(("enc:%s:signed-plain-sibling-in-EncryptedAssertion" % x, d))
        # the decrypted assertion put next to its own ciphertext / instead of it
        d = copy.deepcopy(doc)
        d[3].insert(ei, copy.deepcopy(plain))
        out.append(("enc:%s:plaintext-next-to-ciphertext" % x, d))
        d = copy.deepcopy(doc)
        d[3][ei] = copy.deepcopy(plain)
        out.append(("enc:%s:plaintext-instead" % x, d))
        d = copy.deepcopy(doc)
        d[3].insert(ei, evil_identity(without(plain, DS_SIG)))
        out.append(("enc:%s:evil-plain-before" % x, d))
        d = copy.deepcopy(doc)
        d[3].insert(ei + 1, evil_identity(without(plain, DS_SIG)))
        out.append(("enc:%s:evil-plain-after" % x, d))
        # ciphertext replaced by junk
        d = copy.deepcopy(doc)
        d[3][ei] = T("saml:EncryptedAssertion", kids=[T("xenc:EncryptedData", kids=[T("xenc:CipherData", kids=[T("xenc:CipherValue", text="AAAA")])]),
                                                      evil_identity(without(plain, DS_SIG))])
        out.append(("enc:%s:junk-ciphertext+plain" % x, d))
        for nm, e in text_edits(doc)[:12]:
            out.append(("enc:%s:%s" % (x, nm), e))
    return out


# ---------------------------------------------------------------------------- random surgery
def signed_regions(d):
    """(ids of the genuinely signed elements of d, ids of everything strictly inside them)"""
    genuine = {t for t, _, _ in SIGS}
    roots, inner = set(), set()
    for p, n in walk(d):
        s = child(n, DS_SIG)
        if s is None:
            continue
        sv = child(s, "ds:SignatureValue")
        if sv is not None and sv[2] in genuine:
            roots.add(id(n))
            for q, x in walk(n):
                if q:
                    inner.add(id(x))
    return roots, inner


def random_surgery(rng, doc, donor, steps, careful=False):
    """careful: leave the inside of genuinely signed elements alone (they may still be moved, copied, wrapped or
    deleted as a whole) — these are the documents on which signatures keep verifying"""
    d = copy.deepcopy(doc)
    desc = ["careful"] if careful else []
    for _ in range(steps):
        roots, inner = signed_regions(d) if careful else (set(), set())
        nodes = [(p, n) for p, n in walk(d) if p and id(n) not in inner]
        holders = [(q, x) for q, x in walk(d) if id(x) not in inner and id(x) not in roots]
        if not nodes or not holders:
            break
        op = rng.choice(["move", "copy", "delete", "reid", "wrap", "graft", "dupsig", "text", "swap", "unwrap", "attr", "xsw"])
        if op == "xsw":
            f = rng.choice([xsw_assertion, xsw_response])
            try:
                w = f(d, rng.choice(PLACES), rng.choice(ID_POLICIES + LOOKALIKE_IDS), rng.choice(ALL_SIG_POLICIES),
                      rng.choice(["after", "before"]))
            except Exception:
                w = None
            if w is not None:
                d = w
                desc.append(op)
            continue
        p, n = rng.choice(nodes)
        par = sub(d, p[:-1])
        whole_only = id(n) in roots
        if id(par) in roots or id(par) in inner:
            continue
        try:
            if op == "delete":
                par[3].pop(p[-1])
            elif op in ("move", "copy"):
                cand = [(q, x) for q, x in holders if q[:len(p)] != p]
                if not cand:
                    continue
                tp, tn = rng.choice(cand)
                node = copy.deepcopy(n) if op == "copy" else n
                if op == "move":
                    par[3].pop(p[-1])
                tn[3].insert(rng.randint(0, len(tn[3])), node)
            elif op == "reid":
                c = [x for q, x in walk(d) if attr(x, "ID") is not None and id(x) not in inner and id(x) not in roots]
                if c:
                    x = rng.choice(c)
                    i0 = attr(x, "ID")
                    set_attr(x, "ID", rng.choice(["a-1", "r-1", "a-2", "evil-1", "None", "", None, i0 + "x", "x" + i0,
                                                  i0.swapcase(), " " + i0 + " ", "A-1", "R-1"]))
            elif op == "wrap":
                w = rng.choice(["saml:Advice", "samlp:Extensions", "ds:Object", "samlp:StatusDetail", "ev:Box",
                                "saml:EncryptedAssertion", "saml:Assertion", "saml:AttributeValue"])
                wn = T(w, kids=[n])
                if w == "saml:Assertion":
                    set_attr(wn, "ID", "wrap-%d" % rng.randint(1, 3))
                par[3][p[-1]] = wn
            elif op == "unwrap":
                if n[3] and not whole_only:
                    par[3][p[-1]:p[-1] + 1] = n[3]
            elif op == "graft":
                gp, gn = rng.choice([(q, x) for q, x in walk(donor) if q])
                tp, tn = rng.choice(holders)
                tn[3].insert(rng.randint(0, len(tn[3])), copy.deepcopy(gn))
            elif op == "dupsig":
                s = [x for q, x in walk(d) if x[0] == DS_SIG] + [x for q, x in walk(donor) if x[0] == DS_SIG]
                if s:
                    cand = [(q, x) for q, x in holders if x[0] in ("saml:Assertion", "samlp:Response")] or [holders[0]]
                    tp, tn = rng.choice(cand)
                    sg = copy.deepcopy(rng.choice(s))
                    if rng.random() < 0.3:
                        sg = decoy_signature(attr(tn, "ID") or "x")
                    tn[3].insert(rng.randint(0, len(tn[3])), sg)
            elif op == "text":
                if not n[3] and not whole_only and n[0] not in ("ds:DigestValue", "ds:SignatureValue"):
                    n[2] = rng.choice(["admin", "admin@evil.example", world.OTHER_ID, world.IDP_ID, "", " " + n[2] + " "])
            elif op == "swap":
                if len(par[3]) > 1:
                    j = rng.randrange(len(par[3]))
                    par[3][p[-1]], par[3][j] = par[3][j], par[3][p[-1]]
            elif op == "attr":
                if n[1] and not whole_only:
                    k = rng.choice(n[1])[0]
                    if k != "n":
                        set_attr(n, k, rng.choice([None, "x", "#a-1", "req-2", env.iso(NOW + 600)]))
        except (IndexError, ValueError):
            continue
        desc.append(op)
    return normalise_enc(d), "+".join(desc)


# ---------------------------------------------------------------------------- engine-oriented families
BARE = {"saml:Assertion": "Assertion", "samlp:Response": "Response"}


def bare_docs(doc, level, quick):
    """neighbourhood of C02-F3 / of the uniqueness test of _is_the_only_signature_child: an UN-NAMESPACED element with
    the local name of the signed node (Assertion / Response) carries an ID - the forged element's, the genuine
    element's, a fresh one, none - and holds the genuine signed element (signature inside it, or moved up to be the
    holder's own child); the forged element (fresh ID or the genuine ID) carries a self-referencing decoy, a copy of
    the genuine signature, or none.  xmlsec1's --id-attr registration matches the un-namespaced element too."""
    out = []
    tag = "saml:Assertion" if level == "a" else "samlp:Response"
    wheres = ("before", "after", "extensions", "statusdetail", "attrvalue")
    hids = ("forged", "genuine", None) if quick else ("forged", "genuine", "fresh", None)
    fsigs = ("decoy", "copied") if quick else ("decoy", "copied", "stripped")
    fids = ("fresh",) if quick else ("fresh", "same")
    for where in wheres:
        for hid in hids:
            for fsig in fsigs:
                for inner in ("signed", "moved"):
                    for fid in fids:
                        root = copy.deepcopy(doc)
                        if level == "a":
                            ai = [i for i, k in enumerate(root[3]) if k[0] == tag]
                            if not ai:
                                continue
                            gen = root[3][ai[0]]
                        else:
                            gen = root
                        s_ = child(gen, DS_SIG)
                        if s_ is None:
                            continue
                        gid = attr(gen, "ID")
                        forged = evil_identity(without(gen, DS_SIG))
                        if level == "r":
                            for i, k in enumerate(forged[3]):
                                if k[0] == "saml:Assertion":
                                    e = evil_identity(without(k, DS_SIG))
                                    set_attr(e, "ID", "evil-1")
                                    forged[3][i] = e
                        eid = gid if fid == "same" else ("evil-1" if level == "a" else "evil-r")
                        set_attr(forged, "ID", eid)
                        if fsig == "decoy":
                            forged[3].insert(1, decoy_signature(eid))
                        elif fsig == "copied":
                            forged[3].insert(1, copy.deepcopy(s_))
                        orig = copy.deepcopy(gen)
                        hk = [orig]
                        if inner == "moved":
                            hk = [copy.deepcopy(s_), without(orig, DS_SIG)]
                        holder = T(BARE[tag], kids=hk)
                        set_attr(holder, "ID", {"forged": eid, "genuine": gid, "fresh": "h-1", None: None}[hid])
                        if level == "a":
                            root[3][ai[0]] = forged
                            top, anchor = root, forged
                        else:
                            top, anchor = forged, None
                        if where in ("extensions", "statusdetail", "attrvalue"):
                            ev = anchor if level == "a" else ([k for k in top[3] if k[0] == "saml:Assertion"] or [None])[0]
                            if (where == "attrvalue" and ev is None) or not place(top, ev, holder, where):
                                continue
                        elif level == "a":
                            i = top[3].index(anchor)
                            top[3].insert(i + (1 if where == "after" else 0), holder)
                        elif where == "before":
                            top[3].insert(0, holder)
                        else:
                            top[3].append(holder)
                        out.append(("%s:%s:holder-id=%s:forged-sig=%s:%s:forged-id=%s" % (level, where, hid, fsig, inner, fid), top))
    return out


def engine_surgery(rng, d):
    """one step that only matters to an engine that is lenient about duplicate IDs / picks the signature child"""
    d = copy.deepcopy(d)
    named = [(p, n) for p, n in walk(d) if n[0] in BARE or n[0] in BARE.values()]
    op = rng.choice(["dupid", "dupid", "bare", "barewrap", "xsw-same", "clone"])
    try:
        if op == "dupid":
            c = [n for p, n in named if attr(n, "ID") is not None]
            if len(c) >= 2:
                x, y = rng.sample(c, 2)
                set_attr(y, "ID", attr(x, "ID"))
            elif named and c:
                set_attr(rng.choice(named)[1], "ID", attr(c[0], "ID"))
        elif op == "bare":
            c = [n for p, n in named if p and n[0] in BARE]
            if c:
                n = rng.choice(c)
                n[0] = BARE[n[0]]
        elif op == "barewrap":
            c = [(p, n) for p, n in walk(d) if p]
            ids = [attr(n, "ID") for p, n in walk(d) if attr(n, "ID") is not None]
            if c:
                p, n = rng.choice(c)
                h = T(rng.choice(["Assertion", "Response"]), kids=[n])
                set_attr(h, "ID", rng.choice(ids + [None, "h-1"]))
                sub(d, p[:-1])[3][p[-1]] = h
        elif op == "xsw-same":
            f = rng.choice([xsw_assertion, xsw_response])
            w = f(d, rng.choice(["before", "after", "extensions", "statusdetail"]), "same",
                  rng.choice(["copied", "copied+decoy", "decoy", "moved"]), rng.choice(["after", "before"]))
            if w is not None:
                d = w
        elif op == "clone":
            c = [(p, n) for p, n in named if p and attr(n, "ID") is not None]
            holders = [n for p, n in walk(d) if n[0] in ("samlp:Response", "samlp:Extensions", "samlp:Status", "saml:Advice")]
            if c and holders:
                p, n = rng.choice(c)
                cp = copy.deepcopy(n)
                if rng.random() < 0.5:
                    cp = evil_identity(cp)
                h = rng.choice(holders)
                h[3].insert(rng.randint(0, len(h[3])), cp)
    except (IndexError, ValueError):
        pass
    return normalise_enc(d), op


# ---------------------------------------------------------------------------- generator
def policies_for(name, quick):
    return ["R", "A", "B", "E"]


def generate(ctx):
    install()
    B = base()
    cases = []

    def add(family, name, doc, pols=("R", "A", "B", "E")):
        if doc is None:
            return
        doc = normalise_enc(doc)
        for pol in pols:
            cases.append({"family": family, "name": name, "policy": pol, "doc": doc})

    plain_modes = ["m1R", "m1A", "m1B"]
    # 0. the genuine messages under every policy
    for k, d in B.items():
        if k not in ROUND5 and k not in ROUND6:
            add("genuine", k, copy.deepcopy(d))
    # 1. XSW catalogue
    for bname in plain_modes:
        for where in PLACES:
            for idp in ID_POLICIES:
                for sigp in SIG_POLICIES:
                    pols = ({"m1R": ("R", "E"), "m1A": ("A", "E"), "m1B": ("R", "A", "B")} if ctx.thorough else
                            {"m1R": ("R",), "m1A": ("A",), "m1B": ("B", "E")})[bname]
                    if bname != "m1R":
                        add("xsw-a", "%s:%s:%s:%s" % (bname, where, idp, sigp), xsw_assertion(B[bname], where, idp, sigp), pols)
                    if bname != "m1A":
                        add("xsw-r", "%s:%s:%s:%s" % (bname, where, idp, sigp), xsw_response(B[bname], where, idp, sigp), pols)
    # 1b. look-alike IDs (case variant, whitespace-padded, prefix / suffix) and nested-genuine-FIRST placements
    #     (the nested element precedes the wrapper's own ds:Signature child), incl. wrapper with only its own
    #     self-referencing signature template around the still signed genuine element
    for bname in plain_modes:
        pols = ({"m1R": ("R", "E"), "m1A": ("A", "E"), "m1B": ("R", "A", "B")} if ctx.thorough else
                {"m1R": ("R",), "m1A": ("A",), "m1B": ("B", "E")})[bname]
        fs = ([("xsw-a", xsw_assertion)] if bname != "m1R" else []) + ([("xsw-r", xsw_response)] if bname != "m1A" else [])
        for fam, f in fs:
            places = PLACES if ctx.thorough else ["after", "extensions", "advice"]
            sigps = ALL_SIG_POLICIES if ctx.thorough else ["copied", "moved", "moved+decoy"]
            for idp in LOOKALIKE_IDS:
                for where in places:
                    for sigp in sigps:
                        add(fam, "%s:%s:%s:%s" % (bname, where, idp, sigp), f(B[bname], where, idp, sigp), pols)
            ids = ID_POLICIES + LOOKALIKE_IDS if ctx.thorough else ["same", "fresh", "case"]
            places = PLACES if ctx.thorough else (INNER_PLACES + ["extensions"])
            sigps = ALL_SIG_POLICIES if ctx.thorough else ["decoy", "copied+decoy", "moved+decoy", "decoy+moved", "stripped"]
            for where in places:
                for idp in ids:
                    for sigp in sigps:
                        add(fam, "%s:%s:%s:%s:nested-first" % (bname, where, idp, sigp), f(B[bname], where, idp, sigp, "before"), pols)
                        if sigp == "decoy":
                            add(fam, "%s:%s:%s:%s" % (bname, where, idp, sigp), f(B[bname], where, idp, sigp), pols)
    # 2. duplicated singleton children
    for bname in plain_modes:
        pols = {"m1R": ("R",), "m1A": ("A",), "m1B": ("B", "E")}[bname]
        for nm, d in duplicates(B[bname]):
            add("dup", bname + ":" + nm, d, pols)
    # 3. signature structure rewrites
    for bname in ("m1A", "m1R") + (("m1B",) if ctx.thorough else ()):
        pols = {"m1R": ("R",), "m1A": ("A",), "m1B": ("B",)}[bname]
        for nm, d in signature_rewrites(B[bname]):
            add("sigrw", bname + ":" + nm, d, pols)
    # 4. text edits inside / outside the signed region
    for bname in plain_modes:
        for nm, d in text_edits(B[bname]):
            add("edit", bname + ":" + nm, d, ("R", "A", "E") if not ctx.thorough else ("R", "A", "B", "E"))
    # 5. splices of genuine messages
    for nm, d in splices(B):
        add("splice", nm, d, ("R", "A", "E") if not ctx.thorough else ("R", "A", "B", "E"))
    # 6. encrypted family
    for nm, d in enc_variants():
        add("enc", nm, d, ("R", "A", "E") if not ctx.thorough else ("R", "A", "B", "E"))
    # 6b. engine-oriented catalogue: un-namespaced look-alikes of the signed node with an ID (C02-F3 and around)
    for bname, levels in (("m1A", "a"), ("m1R", "r"), ("m1B", "ar")):
        pols = ({"m1R": ("R", "E"), "m1A": ("A", "E"), "m1B": ("R", "A", "B")} if ctx.thorough else
                {"m1R": ("R",), "m1A": ("A",), "m1B": ("B",)})[bname]
        for level in levels:
            for nm, d in bare_docs(B[bname], level, not ctx.thorough):
                add("bare", bname + ":" + nm, d, pols)
    n_catalogue = len(cases)
    # 7. seeded random surgery
    n_random = 20000 if ctx.thorough else 1500
    seeds = [k for k in B if k not in ("evilB_attacker",) and k not in ROUND5 and k not in ROUND6]     # round-5/6 messages: families 9-13
    catalogue_docs = [c["doc"] for c in cases if c["family"] in ("xsw-a", "xsw-r", "splice")]
    for i in range(n_random):
        r = ctx.rng.random()
        if r < 0.55:
            src = B[ctx.rng.choice(seeds)]
        else:
            src = ctx.rng.choice(catalogue_docs)
        donor = B[ctx.rng.choice(seeds)]
        careful = ctx.rng.random() < 0.5
        d, desc = random_surgery(ctx.rng, src, donor, ctx.rng.choice([1, 1, 2, 2, 3, 4, 6]), careful)
        if size(d) > 400:
            continue
        if careful:
            # a policy under which what is signed suffices
            has_r = child(d, DS_SIG) is not None
            has_a = any(child(k, DS_SIG) is not None for k in d[3] if k[0] == "saml:Assertion") or any(
                n[0] == "saml:EncryptedAssertion" for n in d[3])
            pol = ctx.rng.choice((["R", "E"] if has_r else []) + (["A", "E"] if has_a else []) + (["B"] if has_r and has_a else [])
                                 or ["R", "A", "E"])
        else:
            pol = ctx.rng.choice(["R", "A", "A", "B", "E"])
        cases.append({"family": "random", "name": desc, "policy": pol, "doc": d})
    # 8. seeded random surgery followed by engine-oriented steps (duplicate IDs among the elements the engine
    #    registers, un-namespaced look-alikes, clones) - own PRNG stream, so that family 7 is what it was
    rng2 = __import__("random").Random(ctx.seed * 7919 + 2)
    eng_docs = [c["doc"] for c in cases[:n_catalogue] if c["family"] in ("xsw-a", "xsw-r", "splice", "bare", "genuine")]
    for i in range(4000 if ctx.thorough else 300):
        src = rng2.choice(eng_docs)
        d = src
        desc = []
        if rng2.random() < 0.5:
            d, ds_ = random_surgery(rng2, d, B[rng2.choice(seeds)], rng2.choice([1, 1, 2]), True)
            desc.append(ds_)
        for _ in range(rng2.choice([1, 1, 2])):
            d, op = engine_surgery(rng2, d)
            desc.append(op)
        if size(d) > 400:
            continue
        cases.append({"family": "random-eng", "name": "+".join(desc), "policy": rng2.choice(["R", "A", "A", "B", "E"]), "doc": d})
    round5_families(ctx, cases, add)
    round6_families(ctx, cases, add)
    if ctx.thorough:
        for c in cases:
            if c["family"] != "random":
                c["all_engines"] = True
    return cases


def multi_pool():
    """what can stand as a child of the Response where an assertion is expected: genuinely signed assertions that answer
    the SAME request (two subjects, two keys of the IdP), their encrypted forms, an unsigned one, one signed by a
    stranger, one answering another request, an EncryptedAssertion element without content, and EncryptedAssertion
    elements holding more than one thing (ciphertext + plain assertion, two ciphertexts, a plain assertion only)"""
    B = base()
    a_of = lambda k: copy.deepcopy([x for x in B[k][3] if x[0] == "saml:Assertion"][0])
    e_of = lambda k: copy.deepcopy([x for x in B[k][3] if x[0] == "saml:EncryptedAssertion"][0])
    pool = {"P1": a_of("m1A"), "P4": a_of("m4A"), "P5": a_of("m5A"), "E4": e_of("m4EA"), "E1": e_of("m1EA"),
            "U4": a_of("m4R"), "X9": a_of("evilA_attacker"), "O2": a_of("m2A"), "Z": T("saml:EncryptedAssertion")}
    pool["H41"] = T("saml:EncryptedAssertion", kids=e_of("m4EA")[3] + [a_of("m1A")])
    pool["H14"] = T("saml:EncryptedAssertion", kids=[a_of("m1A")] + e_of("m4EA")[3])
    pool["D41"] = T("saml:EncryptedAssertion", kids=e_of("m4EA")[3] + e_of("m1EA")[3])
    pool["HP4"] = T("saml:EncryptedAssertion", kids=[a_of("m4A")])
    return pool


def with_children(envelope, children):
    d = copy.deepcopy(envelope)
    d[3] = [k for k in d[3] if k[0] not in ("saml:Assertion", "saml:EncryptedAssertion")] + [copy.deepcopy(c) for c in children]
    return d


def multi_docs():
    """HOW MANY assertions feed one report: every ordered pair of different pool members, every ordered triple of
    {P1, P4, E4, Z}, and the shapes around them (nested holders, repeated members, four children)"""
    import itertools

    B = base()
    pool = multi_pool()
    out = []
    main = ["P1", "P4", "P5", "E4", "E1", "U4", "X9", "Z"]
    seqs = [list(x) for x in itertools.permutations(main, 2)] + [list(x) for x in itertools.permutations(["P1", "P4", "E4", "Z"], 3)]
    seqs += [["H41"], ["H14"], ["D41"], ["HP4"], ["P1", "HP4"], ["HP4", "P1"], ["P1", "H41"], ["P5", "D41"], ["P1", "P4", "HP4"],
             ["P1", "P4", "P5"], ["P1", "P4", "P5", "Z"], ["P1", "P4", "E1"], ["P1", "P4", "Z", "Z"], ["P1", "P1", "Z"],
             ["P4", "P1", "O2", "Z"], ["P1", "O2", "Z"], ["P1", "X9", "Z"], ["X9", "P1", "Z"], ["P1", "U4", "Z"], ["E4", "E1", "P1"],
             [], ["Z"], ["Z", "Z"]]
    for sq in seqs:
        out.append(("m1A[%s]" % ",".join(sq), with_children(B["m1A"], [pool[k] for k in sq])))
    # the same under the envelope of a Response-signed message (the envelope signature no longer matches) and of the
    # genuine two-assertion messages
    for sq in (["P1", "P4", "Z"], ["P1", "E4"], ["P4", "P1"]):
        out.append(("m1R[%s]" % ",".join(sq), with_children(B["m1R"], [pool[k] for k in sq])))
    for name in ("pairR", "pairA", "pairB"):
        d = copy.deepcopy(B[name])
        d[3].append(copy.deepcopy(pool["P1"]))
        out.append((name + "+P1", d))
        d = copy.deepcopy(B[name])
        ai = [i for i, k in enumerate(d[3]) if k[0] in ("saml:Assertion", "saml:EncryptedAssertion")]
        d[3][ai[0]], d[3][ai[1]] = d[3][ai[1]], d[3][ai[0]]
        out.append((name + ":swapped", d))
    return out


def round5_families(ctx, cases, add):
    """(round 5) two dimensions the families above never explored: how many assertions feed one report, and whose key a
    verifying signature was made with when the signed element names nobody the metadata has signing keys for"""
    B = base()
    quick = not ctx.thorough
    # 9. the round-5 messages as they are
    for k in ROUND5:
        add("genuine", k, copy.deepcopy(B[k]), ("R", "A", "E") if quick else ("R", "A", "B", "E"))
    # 10. several assertions in one Response
    for nm, d in multi_docs():
        pair = nm.startswith("m1A[") and nm.count(",") == 1 and "H" not in nm and "D" not in nm
        add("multi", nm, d, (("A",) if pair else ("A", "E")) if quick else ("R", "A", "B", "E"))
    rng3 = __import__("random").Random(ctx.seed * 7919 + 5)
    pool = multi_pool()
    names = sorted(pool)
    envelopes = ["m1A", "m1A", "m4A", "m1R", "pairA", "m1B"]
    for i in range(1500 if ctx.thorough else 80):
        sq = [rng3.choice(names) for _ in range(rng3.choice([1, 2, 2, 3, 3, 4]))]
        d = with_children(B[rng3.choice(envelopes)], [pool[k] for k in sq])
        desc = ",".join(sq)
        if rng3.random() < 0.25:
            d, ds_ = random_surgery(rng3, d, B[rng3.choice(ROUND5)], 1, True)
            desc += "+" + ds_
        cases.append({"family": "multi-random", "name": desc, "policy": rng3.choice(["A", "A", "E", "E", "R", "B"]),
                      "doc": normalise_enc(d)})
    # 11. foreign signer x embedded certificate x whom the signed element names, under the metadata / key-source variants
    keyed = [k for k in ROUND5 if k[0] in "ko"]
    for k in keyed:
        add("keys", k, copy.deepcopy(B[k]), ("Rn", "An") if quick else ("Rn", "An", "Bn", "En"))
    for k in ("m1A", "m1R", "m1B", "m1A_ki", "m1R_ki", "kA_idp", "kR_idp", "evilA_attacker", "evilB_attacker", "pairB", "otherB"):
        add("keys", k, copy.deepcopy(B[k]), ("Ro", "Ao") if quick else ("Ro", "Ao", "Bo", "Eo"))
    for k in ("m1A", "m1R", "m1B", "m1A_ki", "m1R_ki", "kA_unk", "kR_noiss", "kA_idp", "oR_noiss"):
        add("keys", k, copy.deepcopy(B[k]), ("Rm", "Am") if quick else ("Rm", "Am", "Bm", "Em"))
    # the foreign signed element inside / around genuine traffic: genuine envelope + foreign assertion, foreign
    # envelope + genuine assertion, wrapping catalogue applied to the foreign messages
    a_of = lambda name: [copy.deepcopy(x) for x in B[name][3] if x[0] == "saml:Assertion"]
    for env_, inner in (("m1A", "kA_unk"), ("m1R", "kA_unk"), ("kR_noiss", "m1A"), ("kR_unk", "m1A"), ("kA_unk", "m1A"),
                        ("kR_noiss", "kA_unk"), ("oR_noiss", "m1A"), ("m1A", "oA_unk")):
        add("keys", "%s<-assertion(%s)" % (env_, inner), with_children(B[env_], a_of(inner)), ("R", "A", "E"))
    for k in ("kA_unk", "kR_noiss", "kB_unk"):
        for where, idp, sigp in (("extensions", "fresh", "moved+decoy"), ("advice", "fresh", "copied"), ("after", "same", "copied")):
            f = xsw_response if k[1] == "R" else xsw_assertion
            add("keys", "%s:xsw:%s:%s:%s" % (k, where, idp, sigp), f(B[k], where, idp, sigp), ("R", "A"))


# ---------------------------------------------------------------------------- (round 6) whose name the envelope carries
def issuer_lookalikes(iss):
    """spellings NEAR an entityID - everything a comparison other than byte-for-byte equality of the stripped texts might
    let through: proper prefixes / suffixes / inner fragments (down to one character), superstrings (incl. the nested
    entityID of the guest IdP), letter-case variants, white space around / inside / only, URL-equivalent spellings, and
    the controls (another federation member, an unknown entity, empty).  [(label, text)], texts distinct and != iss."""
    parts = iss.split("/")
    origin = "/".join(parts[:3])                  # https://idp.example.org
    host = parts[2]
    path = iss[len(origin):]                      # /idp.xml
    v = [("prefix:origin", origin), ("prefix:origin/", origin + "/"), ("prefix:-1", iss[:-1]), ("prefix:noext", iss.rsplit(".", 1)[0]),
         ("prefix:half", iss[:len(iss) // 2]), ("prefix:scheme", "https://"), ("prefix:1", iss[:1]),
         ("suffix:path", path), ("suffix:file", iss.rsplit("/", 1)[1]), ("suffix:+1", iss[1:]), ("suffix:host+path", host + path),
         ("suffix:1", iss[-1:]),
         ("inner:host", host), ("inner:domain", host.split(".", 1)[1]), ("inner:slash", "/"), ("inner:dot", "."), ("inner:mid", iss[3:-3]),
         ("nested:idp", world.IDP_ID), ("nested:guest", GUEST_ID),
         ("super:x", iss + "x"), ("super:pre", "x" + iss), ("super:slash", iss + "/"), ("super:twice", iss + iss),
         ("super:two", iss + " " + iss), ("super:query", iss + "?x=1"), ("super:frag", iss + "#x"), ("super:sub", iss + ".evil.example"),
         ("case:upper", iss.upper()), ("case:host", origin.replace(host, host.upper()) + path), ("case:scheme", "HTTPS" + iss[5:]),
         ("case:last", iss[:-1] + iss[-1:].swapcase()), ("case:path", origin + path.upper()),
         ("pad:space", " " + iss + " "), ("pad:tabnl", "\t" + iss + "\n"), ("pad:inner", origin + " " + path), ("pad:only", "   "),
         ("pad:nl-only", "\n"),
         ("url:port", origin + ":443" + path), ("url:dotseg", origin + "/." + path), ("url:pct", iss.replace(".", "%2E", 1)),
         ("url:http", "http" + iss[5:]), ("url:userinfo", "https://" + host + "@evil.example" + path), ("url:hostdot", "https://" + host + "." + path),
         ("other", world.OTHER_ID), ("unknown", UNKNOWN_ID), ("empty", "")]
    out, seen = [], {iss}
    for lab, t in v:
        if t not in seen:
            seen.add(t)
            out.append((lab, t))
    return out


def random_lookalike(rng, iss):
    """a random spelling near iss: a slice, one letter's case flipped, one character inserted / deleted / doubled, padding"""
    r = rng.randrange(7)
    n = len(iss)
    if n == 0:
        return rng.choice(["x", " ", world.IDP_ID])
    i, j = sorted((rng.randrange(n + 1), rng.randrange(n + 1)))
    if r == 0:
        return iss[i:j] if (i, j) != (0, n) else iss[1:]
    if r == 1:
        k = rng.randrange(n)
        return iss[:k] + iss[k].swapcase() + iss[k + 1:]
    if r == 2:
        return iss[:i] + rng.choice("x/. -_") + iss[i:]
    if r == 3:
        k = rng.randrange(n)
        return iss[:k] + iss[k + 1:]
    if r == 4:
        return iss[:i] + iss[i:j] + iss[i:]
    if r == 5:
        return rng.choice([" ", "\n", "\t ", ""]) + iss + rng.choice([" ", "\n  ", ""]) + rng.choice(["", "", "x"])
    return rng.choice(issuer_lookalikes(iss))[1]


ISSUER_MODES = ("replace", "append", "prepend")


def envelope_issuer(doc, text, mode="replace"):
    """the Response envelope names `text`: its Issuer child rewritten / a second Issuer child after (read: last wins) or
    before the original one; an envelope without Issuer gets one"""
    d = copy.deepcopy(doc)
    idx = [i for i, k in enumerate(d[3]) if k[0] == "saml:Issuer"]
    node = T("saml:Issuer", text=text)
    if not idx:
        d[3].insert(0, node)
    elif mode == "replace":
        d[3][idx[0]][2] = text
    elif mode == "append":
        d[3].insert(idx[-1] + 1, node)
    else:
        d[3].insert(idx[0], node)
    return d


def signed_issuer(doc):
    """the Issuer text of the first assertion of the document (plain, or inside a ciphertext node), unstripped"""
    for p, n in walk(doc):
        if n[0] == "saml:Assertion":
            i = child(n, "saml:Issuer")
            return i[2] if i is not None else ""
    return ""


def round6_families(ctx, cases, add):
    """(round 6) the envelope's Issuer - what AuthnResponse.issuer() / session_info()["issuer"] report and the key under
    which the identity cache files the subject - is outside every signature in assertion-signed traffic; it must be the
    Issuer of the signature-covered assertion.  Dimension: HOW NEAR the envelope's Issuer is to the signed one (spellings
    of issuer_lookalikes) x where it stands (rewritten / second Issuer child after / before) x message kind (plain,
    encrypted, with KeyInfo, Advice, padded signed Issuer, guest IdP whose entityID nests the IdP's, both in the metadata)
    x policy; and the same on the SIGNED side (the assertion's Issuer rewritten: the signature must then fail)."""
    B = base()
    quick = not ctx.thorough
    # 12. the round-6 messages as they are
    for k in ROUND6:
        add("genuine", k, copy.deepcopy(B[k]), (("Ag", "Rg", "A") if k[0] == "g" else ("A", "R")) if quick else
            ("Rg", "Ag", "Bg", "Eg", "R", "A", "B", "E"))
    for k in ("m1A", "m1R", "m1B", "otherB"):
        add("genuine", k, copy.deepcopy(B[k]), ("Ag", "Rg") if quick else ("Rg", "Ag", "Bg", "Eg"))
    # 13. the catalogue
    short = ("prefix:origin", "prefix:-1", "suffix:file", "suffix:+1", "inner:host", "nested:idp", "nested:guest", "super:x", "super:pre",
             "case:host", "pad:tabnl", "pad:only", "url:port", "other")
    plan = [("m1A", ("A", "E") if quick else ("R", "A", "B", "E", "Ag"), None, ISSUER_MODES[:2]),
            ("gA", ("Ag", "Eg") if quick else ("Rg", "Ag", "Bg", "Eg", "A"), None, ISSUER_MODES[:1] if quick else ISSUER_MODES[:2]),
            ("m1EA", ("A",) if quick else ("A", "E", "Ag"), short if quick else None, ISSUER_MODES[:1]),
            ("gEA", ("Ag",) if quick else ("Ag", "Eg"), short if quick else None, ISSUER_MODES[:1]),
            ("m7A_pad", ("A",) if quick else ("A", "E"), short if quick else None, ISSUER_MODES[:1]),
            ("m3A", ("E",) if quick else ("A", "E"), short if quick else None, ISSUER_MODES[:1]),
            ("m1A_ki", ("Ao",) if quick else ("A", "Ao"), short if quick else None, ISSUER_MODES[:1]),
            ("m5A", ("Ag",) if quick else ("A", "Ag"), short, ISSUER_MODES[2:]),
            # controls: the envelope is signed (the rewrite breaks its signature) / nothing is signed where it must be
            ("m1B", ("A", "R") if quick else ("R", "A", "B", "E"), short[:6], ISSUER_MODES[:1]),
            ("gB", ("Ag", "Rg") if quick else ("Rg", "Ag", "Bg", "Eg"), short[:6], ISSUER_MODES[:1]),
            ("m1R", ("R",) if quick else ("R", "E"), short[:6], ISSUER_MODES[:1])]
    for bname, pols, labels, modes in plan:
        for lab, text in issuer_lookalikes(signed_issuer(B[bname]).strip()):
            if labels is not None and lab not in labels:
                continue
            for mode in modes:
                add("issuer", "%s:envelope:%s:%s" % (bname, mode, lab), envelope_issuer(B[bname], text, mode),
                    pols[:1] if quick and mode != "replace" else pols)
    # the signed side: the assertion's own Issuer (inside the signed region) rewritten, the envelope's kept / rewritten alike
    for bname, pols in (("m1A", ("A",)), ("gA", ("Ag",))):
        for lab, text in issuer_lookalikes(signed_issuer(B[bname])):
            if lab not in short:
                continue
            for both in (False, True):
                d = copy.deepcopy(B[bname])
                a = [k for k in d[3] if k[0] == "saml:Assertion"][0]
                child(a, "saml:Issuer")[2] = text
                if both:
                    d = envelope_issuer(d, text)
                add("issuer", "%s:%s:%s" % (bname, "both" if both else "assertion", lab), d, pols)
    # the guest IdP's signed assertion under the envelope of a genuine IdP message and the other way round (whole envelopes, not
    # only their Issuer), and next to an IdP assertion
    a_of = lambda name: [copy.deepcopy(x) for x in B[name][3] if x[0] in ("saml:Assertion", "saml:EncryptedAssertion")]
    for env_, inner in (("m1A", "gA"), ("gA", "m1A"), ("m4A", "gA"), ("m1A", "gEA"), ("gA", "m4EA"), ("m1R", "gA"), ("gB", "m1A")):
        add("issuer", "%s<-assertion(%s)" % (env_, inner), with_children(B[env_], a_of(inner)), ("Ag", "Eg") if quick else ("Rg", "Ag", "Bg", "Eg"))
    # 14. random: any message with a signed assertion (round-5 multi-assertion shapes included), a random spelling near the
    #     Issuer of one of its assertions, at the envelope or (sometimes) at any Issuer element, sometimes one careful
    #     surgery step after it
    rng6 = __import__("random").Random(ctx.seed * 7919 + 6)
    pool = multi_pool()
    srcs = [B[k] for k in ("m1A", "m1A", "gA", "gA", "m1EA", "gEA", "m3A", "m4A", "m5A", "m7A_pad", "m1A_ki", "pairA", "m1B", "otherB")]
    srcs += [with_children(B["m1A"], [pool[a], pool[b_]]) for a, b_ in (("P1", "Z"), ("P1", "P4"), ("E4", "Z"), ("P4", "E1"))]
    srcs += [with_children(B["gA"], a_of("m1A")), with_children(B["m1A"], a_of("gA"))]
    for i in range(2500 if ctx.thorough else 120):
        d = copy.deepcopy(rng6.choice(srcs))
        names = [n[2] for p, n in walk(d) if n[0] == "saml:Issuer" and len(p) > 1] or [world.IDP_ID]
        near = rng6.choice(names).strip()
        text = random_lookalike(rng6, near)
        if rng6.random() < 0.75:
            mode = rng6.choice(ISSUER_MODES + ("replace",))
            d = envelope_issuer(d, text, mode)
            desc = "envelope:%s" % mode
        else:
            nodes = [n for p, n in walk(d) if n[0] == "saml:Issuer"]
            rng6.choice(nodes)[2] = text
            desc = "any-issuer"
        if rng6.random() < 0.25:
            d, ds_ = random_surgery(rng6, d, B[rng6.choice(ROUND6 + ["m1A", "m4A"])], 1, True)
            desc += "+" + ds_
        if size(d) > 400:
            continue
        cases.append({"family": "issuer-random", "name": "%s:%r" % (desc, text), "policy": rng6.choice(["Ag", "Ag", "Eg", "A", "E", "Bg"]),
                      "doc": normalise_enc(d)})


# ---------------------------------------------------------------------------- observation
def new_nodes(d):
    """xenc:EncryptedData[n="$new"] nodes of d, innermost first, with the per-document token they get"""
    nodes = [node for p, node in walk(d) if node[0] == "xenc:EncryptedData" and attr(node, "n") == "$new"]
    nodes.reverse()
    return [(node, "$n%d" % (i + 1)) for i, node in enumerate(nodes)]


def normalise_enc(d):
    """after surgery: a ciphertext token stays only on an untouched plaintext; a touched one becomes a fresh
    attacker-made encryption ($new) when it still has exactly one child, plain junk otherwise"""
    for p, node in walk(d):
        if node[0] == "xenc:EncryptedData" and attr(node, "n") is not None:
            tok = attr(node, "n")
            if tok in PLAIN and node[3] == [PLAIN[tok]] and not node[2] and len(node[1]) == 1:
                continue
            if len(node[3]) == 1 and node[3][0][0] in ("saml:Assertion", "samlp:Response", "saml:Subject"):
                node[1] = [["n", "$new"]]
                node[2] = ""
            else:
                set_attr(node, "n", None)
    return d


def encrypt_for_sp(plain_xml):
    """attacker-made ciphertext: anybody can encrypt for the SP's public key"""
    import tempfile

    m = env.standin()
    root = ET.fromstring('<samlp:Response xmlns:samlp="%s" xmlns:saml="%s"><saml:EncryptedAssertion/></samlp:Response>'
                         % (PFX["samlp"], PFX["saml"]))
    inner = ET.fromstring(plain_xml)
    root[0].append(inner)
    xp = '/*[local-name()="Response"]/*[local-name()="EncryptedAssertion"]/*[local-name()="%s"]' % inner.tag.rsplit("}", 1)[-1]
    with tempfile.NamedTemporaryFile(suffix=".xml", delete=False) as f:
        f.write(ET.tostring(root, encoding="utf-8"))
        path = f.name
    try:
        out, _, _ = m.do_encrypt({"xml_data": path, "node_xpath": xp, "pubkey_cert": fixtures.cert_path("sp")},
                                 render.ENC_TEMPLATE.encode())
    finally:
        os.unlink(path)
    ed = ET.fromstring(out).find(".//{%s}EncryptedData" % PFX["xenc"])
    ed.tail = None
    return ET.tostring(ed, encoding="unicode"), _cipher_key(ed)


def resolve_new_ciphertexts(doc):
    """encrypt the plaintext of every $new node now.  Returns (abstract doc with per-document tokens, registry)."""
    d = copy.deepcopy(doc)
    local = {}
    for node, tok in new_nodes(d):
        plain = node[3][0]
        raw, ck = encrypt_for_sp(ser(plain))
        local[tok] = (TOK.get(tok), PLAIN.get(tok), ck, RAW2TOK.get(ck))
        TOK[tok], PLAIN[tok], RAW2TOK[ck] = raw, copy.deepcopy(plain), tok
        set_attr(node, "n", tok)
    return d, local


def release_new_ciphertexts(local):
    for tok, (old_raw, old_plain, ck, old_tok) in local.items():
        for dct, key, old in ((TOK, tok, old_raw), (PLAIN, tok, old_plain), (RAW2TOK, ck, old_tok)):
            if old is None:
                dct.pop(key, None)
            else:
                dct[key] = old


_oracle_sp = {}


def oracle_sp():
    if "sp" not in _oracle_sp:
        sp = world.make_sp(**copy.deepcopy(ORACLE_POLICY))
        import saml2.sigver

        saml2.sigver.Popen = C02Popen
        sp.sec._check_signature = lambda decoded_xml, item, *a, **kw: item
        _oracle_sp["sp"] = sp
    from saml2.population import Population

    _oracle_sp["sp"].users = Population()
    return _oracle_sp["sp"]


_FP = {}
_FP_KEYS = dict(KEYS)


def _fingerprints():
    """sha1 of the DER form of every fixture certificate -> key number (own copy: no dependency on harness.c03)."""
    if not _FP:
        from cryptography import x509
        from cryptography.hazmat.primitives import serialization

        from harness import fixtures

        for n, i in _FP_KEYS.items():
            with open(fixtures.cert_path(n), "rb") as f:
                der = x509.load_pem_x509_certificate(f.read()).public_bytes(serialization.Encoding.DER)
            _FP[hashlib.sha1(der).hexdigest()] = i
    return _FP


def run_sp(sp, xml):
    """the real acceptance path; returns (accepted, response object or None, exception name)"""
    exc = None
    r = None
    try:
        r = sp.parse_authn_request_response(render.b64(xml), world.BINDING_HTTP_POST, dict(OUTSTANDING))
    except Exception as e:  # noqa
        exc = type(e).__name__
        r = None
    identity = False
    si = None
    if r is not None:
        try:
            si = r.session_info()
        except Exception:
            si = None
        identity = bool(getattr(r, "name_id", None) is not None or getattr(r, "ava", None)
                        or getattr(r, "assertion", None) is not None or si is not None)
    try:
        if list(sp.users.subjects()):
            identity = True
    except Exception:
        pass
    return identity, r, si, exc


def reported_fields(r, si):
    nid = getattr(r, "name_id", None)
    rep = {"name_id": None if nid is None else [nid.text or "", nid.format]}
    ava = getattr(r, "ava", None) or {}
    rep["ava"] = sorted([k, [v if isinstance(v, str) else "<complex>" for v in vs]] for k, vs in ava.items())
    try:
        rep["issuer"] = r.issuer() if r.response is not None else ""
    except AttributeError:      # <saml:Issuer/> without text: issuer() itself fails, nothing is reported
        rep["issuer"] = ""
    a = getattr(r, "assertion", None)
    cd = getattr(a, "conditions", None) if a is not None else None
    rep["audiences"] = [au.text or "" for ar in (cd.audience_restriction if cd is not None else []) for au in ar.audience]
    rep["not_before"] = cd.not_before if cd is not None else None
    rep["not_on_or_after"] = cd.not_on_or_after if cd is not None else None
    sts = getattr(a, "authn_statement", None) or []
    rep["session_index"] = sts[0].session_index if sts else None
    nooa = si.get("not_on_or_after") if si else 0
    rep["session_nooa"] = env.iso(nooa) if nooa else None
    if sts:
        ac = sts[0].authn_context
        cr = getattr(getattr(ac, "authn_context_class_ref", None), "text", None) if ac is not None else None
        rep["authn"] = [sts[0].authn_instant, cr or None]
    else:
        rep["authn"] = None
    return rep


def path_from_log(tree, logpath, want_id):
    """stand-in path '/Response/Assertion[0]/...' (index among same-tag siblings) -> child-index path"""
    segs = [s for s in logpath.split("/") if s]
    cands = [((), tree)]
    for s in segs[1:]:
        m = re.match(r"^(.*)\[(\d+)\]$", s)
        local, idx = m.group(1), int(m.group(2))
        nxt = []
        for p, n in cands:
            groups = {}
            for i, k in enumerate(n[3]):
                if k[0].split(":")[-1] == local:
                    groups.setdefault(k[0], []).append(i)
            for tag, ii in sorted(groups.items()):
                if idx < len(ii):
                    nxt.append((p + (ii[idx],), n[3][ii[idx]]))
        cands = nxt
    if want_id is not None:
        c2 = [c for c in cands if attr(c[1], "ID") == want_id]
        cands = c2 or cands
    return list(cands[0][0]) if cands else None


def run_engine(policy, xml, doc, engine, probe):
    """one run of the real acceptance path under one engine variant.  Returns (run record, engines that resolved
    some --verify call differently [probe mode only])"""
    m = env.standin()
    sp = spaccept.get_sp(dict(POLICIES[policy]))
    import saml2.sigver

    saml2.sigver.Popen = C02Popen
    del m.LOG[:]
    _CAPTURE["decrypted"] = []
    _ENGINE["cur"] = tuple(engine)
    _ENGINE["probe"] = set() if probe else None
    try:
        accepted, r, si, exc = run_sp(sp, xml)
    finally:
        differing = sorted(_ENGINE["probe"] or [])
        _ENGINE["cur"] = DEFAULT_ENGINE
        _ENGINE["probe"] = None
    log = list(m.LOG)
    decrypted = list(_CAPTURE["decrypted"])
    run = {"engines": [list(engine)], "accepted": accepted, "exc": exc, "reported": None, "digs": [], "ddoc": None}
    # the text against which decrypted assertions were verified
    ddoc = None
    if any(n[0] == "saml:EncryptedAssertion" for p, n in walk(doc)):
        try:
            if decrypted:
                ddoc = parse(decrypted[-1])
            else:
                from saml2 import samlp

                ddoc = parse(str(samlp.response_from_string(xml)))
        except Exception:  # noqa
            ddoc = None
    run["ddoc"] = ddoc
    # which elements were digested under a verifying signature, with which certificate
    doc_sha = hashlib.sha1(xml.encode("utf-8")).hexdigest()
    fps = _fingerprints()
    out = []
    for ent in log:
        if ent.get("op") != "verify" or not ent.get("ok"):
            continue
        k = ent.get("key") or ""
        key = fps.get(k.split(":", 1)[1], 99) if k.startswith("file:") else 98
        which = ent.get("input_sha1") != doc_sha
        tree = ddoc if which else doc
        if tree is None:
            out.append([which, [999], [999], key])
            continue
        exact = "sig_ipath" in ent and len(ent.get("target_ipaths", [])) == len(ent["digested"])
        if exact:       # sanity: the exact resolution names elements with the IDs the stand-in logged
            try:
                exact = all(attr(sub(tree, tp), "ID") == dg.get("id") for tp, dg in zip(ent["target_ipaths"], ent["digested"])) \
                    and sub(tree, ent["sig_ipath"])[0] == DS_SIG
            except Exception:  # noqa
                exact = False
        sp_ = ent["sig_ipath"] if exact else path_from_log(tree, ent["signature_path"], None)
        for j, dg in enumerate(ent["digested"]):
            tp = ent["target_ipaths"][j] if exact else path_from_log(tree, dg["path"], dg.get("id"))
            out.append([which, tp if tp is not None else [999], sp_ if sp_ is not None else [999], key])
    uniq = []
    for e in sorted(out):
        if e not in uniq:
            uniq.append(e)
    run["digs"] = uniq
    if accepted and r is not None:
        run["reported"] = reported_fields(r, si)
    return run, differing


def invariant_sample(case, differing):
    """engine variants that resolve every --verify call of the default run exactly like xmlsec1 does (their run is
    the default run, call for call): all of them go into the Coq group in the thorough tier (catalogue families and
    random-eng; family random: as in the quick tier), a rotating one for every second document in the quick tier"""
    inv = [list(e) for e in ENGINES if e != DEFAULT_ENGINE and e not in differing]
    if case.get("all_engines") or not inv:
        return inv
    h = int(hashlib.sha1((case["policy"] + json.dumps(case["doc"])).encode()).hexdigest()[:8], 16)
    return [inv[(h // 2) % len(inv)]] if h % 2 == 0 or case["family"] in ("bare", "random-eng", "genuine") else []


def observe(case):
    install()
    doc, local = resolve_new_ciphertexts(case["doc"])
    try:
        xml = ser(doc)
        if parse(xml) != doc:
            return {"error": "abstraction: parse(ser(doc)) != doc"}
        # 1. xmlsec1 as it is (the shared stand-in), probing which engine variants would resolve any --verify call
        #    of this run differently; 2. one more real run for each of those
        run0, differing = run_engine(case["policy"], xml, doc, DEFAULT_ENGINE, True)
        differing = [tuple(e) for e in differing]
        run0["engines"] += invariant_sample(case, differing)
        runs = [run0]
        for e in differing:
            run, _ = run_engine(case["policy"], xml, doc, e, False)
            runs.append(run)
        obs = {"runs": runs, "accepted": run0["accepted"], "exc": run0["exc"], "digs": run0["digs"], "ddoc": run0["ddoc"],
               "engines_differing": [list(e) for e in differing]}
        # oracle bits
        import saml2.sigver

        osp = oracle_sp()
        o_acc, _, _, o_exc = run_sp(osp, xml)
        obs["content_ok"] = bool(o_acc)
        obs["content_exc"] = o_exc
        seen = {}
        for run in runs:
            key = json.dumps(run["ddoc"])
            if key not in seen:
                seen[key] = schema_bits(xml, run["ddoc"])
            obs["schema_root"], obs["schema_as"], run["schema_enc"] = seen[key]
        return obs
    finally:
        release_new_ciphertexts(local)


def schema_bits(xml, ddoc):
    from saml2 import samlp
    import saml2.sigver as sv

    def ok(item):
        try:
            sv.validate_doc_with_schema(str(item))
            return True
        except Exception:
            return False

    try:
        resp = samlp.response_from_string(xml)
    except Exception:
        resp = None
    if resp is None:
        return False, [], []
    root_ok = ok(resp)
    as_ok = [ok(a) for a in resp.assertion]
    enc_ok = []
    if ddoc is not None:
        try:
            from saml2 import extension_elements_to_elements, saml

            dresp = samlp.response_from_string(ser(ddoc))
            for ea in dresp.encrypted_assertion:
                if ea.extension_elements:
                    for a in extension_elements_to_elements(ea.extension_elements, [saml, samlp]):
                        enc_ok.append(ok(a))
        except Exception:
            enc_ok = []
    return root_ok, as_ok, enc_ok


# ---------------------------------------------------------------------------- Coq terms
def cq_path(p):
    return "[%s]" % "; ".join("%d%%nat" % i for i in p)


def cq_bools(l):
    return "[%s]" % "; ".join("true" if b else "false" for b in l)


def cq_rep(rep):
    if rep is None:
        return "None"
    nid = "None" if rep["name_id"] is None else "(Some (%s, %s))" % (cq(rep["name_id"][0]), cq_opt(rep["name_id"][1]))
    ava = "[%s]" % "; ".join("(%s, [%s])" % (cq(k), "; ".join(cq(v) for v in vs)) for k, vs in rep["ava"])
    au = "[%s]" % "; ".join(cq(x) for x in rep["audiences"])
    authn = "None" if rep["authn"] is None else "(Some (%s, %s))" % (cq_opt(rep["authn"][0]), cq_opt(rep["authn"][1]))
    return "(Some (C02.Corr.mkrep %s %s %s %s %s %s %s %s %s))" % (
        nid, ava, cq(rep["issuer"]), au, cq_opt(rep["not_before"]), cq_opt(rep["not_on_or_after"]),
        cq_opt(rep["session_index"]), cq_opt(rep["session_nooa"]), authn)


ENG_NUM = {"strict": 0, "first": 1, "last": 2, "below": 0, "child": 1}


def coq_case(case, obs):
    """a group: one Coq case per (engine variant, run)"""
    if "error" in obs:
        raise RuntimeError(obs["error"])
    ensure_interned()
    doc, local = resolve_tokens_only(case["doc"])
    pol = POLICIES[case["policy"]]
    # the "m" policies: an SP without metadata
    world_term = "(@nil (string * list nat), snd C02Base.world)" if case["policy"].endswith("m") else "C02Base.world"
    if case["policy"].endswith("g"):      # (round 6) the metadata also knows the guest IdP
        world_term = "((%s, [%d%%nat]) :: fst C02Base.world, snd C02Base.world)" % (cq_s(GUEST_ID), KEYS[GUEST_KEY])
    members = []
    for run in obs["runs"]:
        digs = "[%s]" % "; ".join("(%s, %s, %s, %d%%nat)" % (cq(bool(w)), cq_path(t), cq_path(s), k) for w, t, s, k in run["digs"])
        for ids, sel in run["engines"]:
            members.append("C02.Corr.mk (C02.Corr.eng %d %d) %s %s %s %s %s %s %s %s %s %s C02Base.tabs %s %s %s" % (
                ENG_NUM[ids], ENG_NUM[sel], world_term,
                cq(bool(pol.get("sp_want_response_signed"))), cq(bool(pol.get("sp_want_assertions_signed"))),
                cq(bool(pol.get("sp_want_assertions_or_response_signed", False))),
                cq(bool(obs["content_ok"])), cq(bool(obs["schema_root"])), cq_bools(obs["schema_as"]), cq_bools(run["schema_enc"]),
                "the_doc", "None" if run["ddoc"] is None else "(Some %s)" % cq_tree(run["ddoc"]),
                cq(bool(run["accepted"])), cq_rep(run["reported"] if run["accepted"] else None), digs))
    return "(let the_doc := %s in\n   [%s])" % (cq_tree(doc), ";\n    ".join(members))


def resolve_tokens_only(doc):
    """the abstract document as observe() saw it ($new -> $n<k>), without encrypting anything"""
    d = copy.deepcopy(doc)
    for node, tok in new_nodes(d):
        set_attr(node, "n", tok)
    return d, {}


def nontrivial(case, obs):
    if "error" in obs:
        return None
    return (case["family"], case["policy"], obs["accepted"], json.dumps(obs["digs"]), obs["content_ok"],
            json.dumps([[r["engines"][0], r["accepted"], r["digs"]] for r in obs["runs"][1:]]),
            case["name"] if not case["family"].startswith("random") else hashlib.sha1(json.dumps(case["doc"]).encode()).hexdigest()[:10])


def histogram(cases, observed):
    h = {"by_family": {}, "by_policy": {}, "accepted": 0, "rejected": 0, "content_ok": 0, "accepted_by_family": {},
         "exceptions": {}, "digested_elements": {"0": 0, "1": 0, "2": 0, "3+": 0}, "encrypted_docs": 0,
         "doc_nodes": {"<50": 0, "50-99": 0, "100-199": 0, ">=200": 0}, "rejected_although_content_ok": 0,
         "engine_runs": {}, "engine_accepted": {}, "engine_members_in_coq": 0, "docs_engine_sensitive": 0,
         "docs_accepted_by_some_variant_only": 0, "docs_rejected_by_some_variant_only": 0}
    for c, o in zip(cases, observed):
        h["by_family"][c["family"]] = h["by_family"].get(c["family"], 0) + 1
        h["by_policy"][c["policy"]] = h["by_policy"].get(c["policy"], 0) + 1
        if "error" in o:
            continue
        for r in o["runs"]:
            en = "/".join(r["engines"][0])
            h["engine_runs"][en] = h["engine_runs"].get(en, 0) + 1
            if r["accepted"]:
                h["engine_accepted"][en] = h["engine_accepted"].get(en, 0) + 1
            h["engine_members_in_coq"] += len(r["engines"])
        if len(o["runs"]) > 1:
            h["docs_engine_sensitive"] += 1
            if not o["accepted"] and any(r["accepted"] for r in o["runs"][1:]):
                h["docs_accepted_by_some_variant_only"] += 1
            if o["accepted"] and any(not r["accepted"] for r in o["runs"][1:]):
                h["docs_rejected_by_some_variant_only"] += 1
        h["accepted" if o["accepted"] else "rejected"] += 1
        if o["accepted"]:
            h["accepted_by_family"][c["family"]] = h["accepted_by_family"].get(c["family"], 0) + 1
        if o["content_ok"]:
            h["content_ok"] += 1
            if not o["accepted"]:
                h["rejected_although_content_ok"] += 1
        if o["exc"]:
            h["exceptions"][o["exc"]] = h["exceptions"].get(o["exc"], 0) + 1
        nd = len(o["digs"])
        h["digested_elements"]["3+" if nd >= 3 else str(nd)] += 1
        if o["ddoc"] is not None:
            h["encrypted_docs"] += 1
        s = size(c["doc"])
        h["doc_nodes"]["<50" if s < 50 else "50-99" if s < 100 else "100-199" if s < 200 else ">=200"] += 1
    return h


def search(ctx, disagreeing):
    """model and implementation disagree (or a proof broke): look for an input on which the implementation's
    output FAILS the spec outside the known classes — neighbours of the disagreeing documents (1-3 surgery steps,
    every policy) and the wrapping catalogue applied to them."""
    install()
    B = base()
    rng = ctx.rng
    cand = []
    seeds = [c for c in disagreeing if "doc" in c][:12]
    for c in seeds:
        for pol in ("R", "A", "B", "E"):
            cand.append({"family": "search", "name": "same-doc", "policy": pol, "doc": c["doc"]})
        for where in PLACES:
            for sigp in ("copied", "moved", "moved+decoy", "stripped"):
                for f in (xsw_assertion, xsw_response):
                    try:
                        d = f(c["doc"], where, "fresh", sigp)
                    except Exception:
                        d = None
                    if d is not None:
                        cand.append({"family": "search", "name": "xsw:%s:%s" % (where, sigp), "policy": c["policy"],
                                     "doc": normalise_enc(d)})
        for i in range(40):
            donor = B[rng.choice(sorted(B))]
            d, desc = random_surgery(rng, c["doc"], donor, rng.choice([1, 1, 2, 3]), rng.random() < 0.5)
            if size(d) <= 400:
                cand.append({"family": "search", "name": desc, "policy": rng.choice([c["policy"], "R", "A", "E"]), "doc": d})
    if not cand:
        return None
    obs = common.observe_all(__import__("harness.c02", fromlist=["x"]), cand)
    ok = [(c, o) for c, o in zip(cand, obs) if "error" not in o]
    terms = [coq_case(c, o) for c, o in ok]
    results, errors = common.eval_cases(PID, IMPORTS, CASE_TYPE, RUNNER, terms, tag="search")
    known = {(k["property"], k.get("class")) for k in common.load_known() if k.get("status") == "open"}
    bad = sorted(i for i, code in results if code == 2 or (code >= 10 and (PID, code - 10) not in known))
    if bad:
        i = min(bad, key=lambda j: size(ok[j][0]["doc"]))
        return ok[i]
    return None


def explain_term(t):
    return "C02.Corr.explain (%s)" % t
