"""Service-provider acceptance harness shared by C01, C03, C04, C05, C06 (and C02):
render a Response from an abstract spec, sign it through the stand-in, feed it to the
real Saml2Client.parse_authn_request_response and abstract what comes back."""
import copy
import json

from harness import env, fixtures, render, world

NOW = 1700000000  # frozen virtual clock (2023-11-14T22:13:20Z)
CLOCK = env.VClock(NOW)

_sp_cache = {}


def get_sp(over):
    """A Saml2Client for the given config overrides; identity cache cleared on every use."""
    env.install_standin()
    CLOCK.install()
    key = json.dumps(over, sort_keys=True, default=str)
    sp = _sp_cache.get(key)
    if sp is None:
        sp = world.make_sp(**copy.deepcopy(over))
        _sp_cache[key] = sp
    from saml2.population import Population

    sp.users = Population()
    return sp


def good_assertion(now=NOW, **over):
    a = {
        "id": "a-1",
        "issue_instant": env.iso(now),
        "issuer": world.IDP_ID,
        "subject": {
            "name_id": "subject-1",
            "confirmations": [
                {"method": render.SCM_BEARER,
                 "data": {"recipient": world.SP_ACS_POST, "in_response_to": "req-1",
                          "not_on_or_after": env.iso(now + 300)}}],
        },
        "conditions": {"not_before": env.iso(now - 300), "not_on_or_after": env.iso(now + 300),
                       "audience_restrictions": [[world.SP_ID]]},
        "authn_statements": [{"authn_instant": env.iso(now), "session_index": "s-1"}],
        "attributes": [("urn:oid:0.9.2342.19200300.100.1.3", render.NF_URI, "mail", ["a@example.org"])],
    }
    a.update(over)
    return a


def good_response(now=NOW, **over):
    r = {
        "id": "r-1",
        "in_response_to": "req-1",
        "destination": world.SP_ACS_POST,
        "issue_instant": env.iso(now),
        "issuer": world.IDP_ID,
        "version": "2.0",
    }
    r.update(over)
    return r


def build(resp, assertions, sign_response="idp", sign_assertions=None, keyinfo=None):
    """Render and sign.  sign_response / sign_assertions[i]: key name or None."""
    sign_assertions = sign_assertions or [None] * len(assertions)
    axml = []
    for a, k in zip(assertions, sign_assertions):
        a = dict(a)
        if k:
            a["sig_template"] = render.signature_template(a["id"], keyinfo)
        axml.append(render.assertion(a))
    r = dict(resp)
    r["assertions_xml"] = axml
    if sign_response:
        r["sig_template"] = render.signature_template(r["id"], keyinfo)
    xml = render.response(r)
    for a, k in zip(assertions, sign_assertions):
        if k:
            xml = render.sign_xml(xml, k, render.A_ELEM, a["id"])
    if sign_response:
        xml = render.sign_xml(xml, sign_response, render.R_ELEM, r["id"])
    return xml


def observe(sp, xml, binding=world.BINDING_HTTP_POST, outstanding=None, conv_info=None, encoded=None):
    """Run the real code; return the abstract observation."""
    if encoded is None:
        encoded = render.b64(xml)
    obs = {"identity": False, "exc": None, "name_id": None, "ava": None, "nooa": None, "came_from": None,
           "cached": False, "issuer": None}
    try:
        r = sp.parse_authn_request_response(encoded, binding, outstanding, conv_info=conv_info)
    except Exception as e:  # noqa
        obs["exc"] = type(e).__name__
        obs["exc_mro"] = [c.__name__ for c in type(e).__mro__ if c.__name__ not in ("object", "BaseException")]
        r = None
    if r is not None:
        nid = getattr(r, "name_id", None)
        obs["name_id"] = getattr(nid, "text", None) if nid is not None else None
        obs["ava"] = getattr(r, "ava", None)
        obs["came_from"] = getattr(r, "came_from", None)
        si = None
        try:
            si = r.session_info()
        except Exception:
            si = None
        if si is not None:
            obs["nooa"] = si.get("not_on_or_after")
            obs["issuer"] = si.get("issuer")
        has_assertion = getattr(r, "assertion", None) is not None
        obs["identity"] = bool(obs["name_id"] is not None or obs["ava"] or has_assertion or si is not None)
    try:
        subs = list(sp.users.subjects())
    except Exception:
        subs = []
    if subs:
        obs["cached"] = True
        obs["identity"] = True
    return obs
