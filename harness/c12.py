"""C12 — protocol objects survive serialisation and parsing unchanged.

Kinds of case:
  rt    a random INSTANCE of a live class (built with the live constructor / setattr) is serialised with
        to_string(), the bytes are read by xml.etree (independent reader) and by the library
        (<element>_from_string / create_class_from_xml_string), serialised again, parsed again, serialised again;
  doc   a random DOCUMENT for a class, rendered by this file (other prefixes, default namespace, attribute
        order, quoting, character references, CDATA, comments, PIs, tails), is parsed by the library, serialised,
        parsed, serialised;
  rtb   (round 5) an AttributeValue instance built along a RECIPE (constructor keywords, then public calls): C12/Build.v
        restates what is built; the round trip is demanded without the parse-fixpoint guard;
  lite  (round 5) only when the class-table translator fails closed: table-free implementation-only round trips with a
        foreign child named like an element another live class registers (verdicts through C12/Lite.v);
  seq   (round 5, second pass) a HISTORY of serialisation calls - to_string() / str(), to_string(nspair),
        register_prefix(nspair), to_string_force_namespace(nspair), the self-contained-assertion variant - on 1-3 long-lived
        instances in one process: after every call the process-global prefix registry, the instance, what the independent
        reader and the library's parser make of the bytes (C12/Prefix.v restates the registry, Corr.SEQ the rest);
  impl  checks on the implementation only (the truth is in the XML parser): entity-declaring documents are
        refused, malformed documents are refused, deep documents are refused or read completely, typed attribute
        values whose conversion the model does not restate (float, double, date) are stable.
Coq evaluates: model output = every observed tree/object; spec on the observed objects (C12/Corr.v).
"""
import copy
import os
import sys
from xml.etree import ElementTree as ET

from harness import classtables, common, env
from harness.common import cq_str

PID = "C12"
PARALLEL = 6
IMPORTS = "From Verif Require Import Base.Xml Base.ClassTable C12.Model C12.Build C12.Corr.\nFrom VerifGen Require Import ClassTables C12Vocab."
CASE_TYPE = "C12.Corr.case"
RUNNER = "C12.Corr.run"
FINDING_CLASSES = {1: "C12-F1", 2: "C12-F2", 3: "C12-F3", 4: "C12-F4", 5: "C12-F5", 6: "C12-F6", 7: "C12-F7", 8: "C12-F8", 9: "C12-F9", 10: "C12-F10", 11: "C12-F11"}
RULE = ("every class of the live table (core: saml, samlp, md, xmldsig, xmlenc, extension.*, soapenv, ecp, paos, samlec; "
        "extra: ws.*, authn_context.*) x seeded random instances (minimal / random / with foreign elements, foreign "
        "attributes and hostile characters / every schema attribute present with the EMPTY string; attribute values, "
        "extension attribute values and texts are the empty string with probability 0.08; depth <= 4) through to_string -> independent reader + *_from_string -> "
        "to_string -> *_from_string -> to_string; every core class x seeded random documents (known children in "
        "arbitrary order and repeated, unknown children and attributes, look-alike names in other namespaces) rendered "
        "independently of the library; root-mismatch documents; AttributeValue typing table enumerated completely "
        "(type spelling x text class x nil x extension children); implementation-only refusal checks. "
        "Round 2: every class with >= 2 child members x one instance and one document with EVERY child member present at "
        "once (all pairs of children in one element), schema order judged by the ranks of the XML Schema files; every "
        "document is handed over in a seeded INPUT FORM (str / UTF-8 / UTF-8+BOM / UTF-16 LE,BE with and without BOM / "
        "ISO-8859-1 / US-ASCII / windows-1252, with no, a bare or a matching XML declaration); entity-declaring documents "
        "(12 shapes incl. white-space variants, ATTLIST defaults) x every input form x padding before the DOCTYPE x entry "
        "point (6 classes completely, every core class once, saml2.extension_element_from_string). "
        "Round 3: for every core class with schema attributes or children one instance and one document whose foreign "
        "attributes / elements are LOOK-ALIKES of the schema names (alike_names: the schema local name x {unqualified, "
        "the namespace of the carrying element, another live namespace, a vendor namespace, a namespace one character / "
        "case away, xml:} x {exact, lower, upper, first letter swapped, suffixed, unrelated local name}), next to the "
        "schema attributes themselves, also one level down and inside foreign elements. "
        "Round 5: HOW an AttributeValue instance is built (recipes, C12/Build.v): the constructor with its three keywords, "
        "complete over the Python TYPE and boundary values of text (absent / None / '' / ' ' / str / bytes / 0 / int / False / "
        "True / 0.0 / float / nan) x the extension_attributes argument x extension elements (none / empty list / one), "
        "then public calls: set_text(v) and .text = v for every value on a fresh instance, set_type(t) + set_text for every "
        "type spelling x fitting and unfitting texts, seeded call patterns [xa* type? text xa*] / [text text] / [type] / "
        "[clear_type text]; the round trip of what was built is demanded WITHOUT the parse-fixpoint guard. "
        "Foreign children / attributes named like an element / attribute ANOTHER live class registers (live_names: relatives "
        "= classes sharing a base class, same-namespace tags, other live namespaces) for every core class with relatives "
        "(instance + document) and a quarter of the others; which children a class knows is judged by the XML Schema "
        "files (Xsd.xsd_kept_b). When the class-table translator fails closed, a table-free implementation-only battery "
        "(every core class x names it registers beyond its schema type, relatives' names, live tags) still names a failing input. "
        "Histories (second pass of round 5): the complete family of call sequences of length <= 2 (+ a closing to_string()) over "
        "{to_string(), to_string({p: X}), to_string({p: Y}), to_string({ns1: Z}), to_string({ns0: X, q: Y}), register_prefix, "
        "to_string_force_namespace(full map), to_string_force_namespace({p: Z})} on one instance that combines the foreign "
        "namespaces X, Y, Z (elements with namespace-qualified attributes, nested); seeded histories of 2-8 calls on 1-3 instances "
        "(core classes, AttributeValue holders, a Response whose Assertion was moved into an EncryptedAssertion) that all draw on "
        "one pool of four foreign namespaces, prefixes from a pool of 22 (ns<N> forms, ElementTree's built-ins xs/xsi/dc, "
        "prefixes an earlier call of the same history asked for), nspairs partial or covering every namespace of the instance; "
        "the registry is reset before and after every case. "
        "Round 7: MULTIPLICITY of a child member judged independently of the brackets of its c_children entry: for every child "
        "member that the entry, c_cardinality (no max / max > 1), the constructor (stores a list for an absent argument) or the "
        "XML Schema files (maxOccurs of the particle or an enclosing group) call repeatable, n = 1, 2, 3 (sampled: 33) marked "
        "occurrences as a built instance and as an independently written document: all come back, as a list, in document order, "
        "none as extension, and again after the next serialisation (every core class member x n; other classes one n, all n when "
        "the sources disagree). "
        "non-trivial = distinct (kind, class, outcome, shape features: foreign elements/attributes, repeated singleton, "
        "character classes)")
TRUSTED = ["independent reader: xml.etree.ElementTree (expat) applied to the library's output",
           "document renderer and object/tree abstraction in harness/c12.py (renderer self-checked against the reader)",
           "translator harness/classtables.py (fail-closed)", "sparse->dense object adaptor C12.Corr.dense",
           "schema order oracle: src/saml2/data/schemas/*.xsd flattened to ranks by harness/c12.py (Schemas / merge_ranks; "
           "over-approximates: repeatable groups and names met twice share a rank); the same ranks say which child names an "
           "element HAS (Xsd.xsd_kept_b, root level; hand-reviewed exceptions Xsd.xsd_extra_allowed, mirrored in "
           "harness/c12.py XSD_EXTRA_ALLOWED for the table-free battery)",
           "source-to-Gallina translator v2 harness/py2coq2.py + coq/theories/Base/Py2.v (its trusted base: "
           "notes/translator_v2.md; value semantics, no aliasing) for the functions re-translated on every run: "
           "saml2/__init__.py create_class_from_element_tree, ExtensionContainer._convert_element_attribute_to_member, "
           "SamlBase._convert_element_attribute_to_member, SamlBase._add_members_to_element_tree, "
           "ExtensionElement.transfer_to_element_tree; saml2/saml.py "
           "AttributeValueBase.set_type, AttributeValueBase.get_type (theorems c12_source2_*; encodings enc_* / clark in "
           "C12/Source2.v; external calls - constructors, methods acting on another object, self.__class__.c_attributes - "
           "are universally quantified extra arguments)"]
ASSUMPTIONS = ["histories (C12/Prefix.v): xml.etree.ElementTree.register_namespace / _namespaces are restated from the Python 3.12 "
               "source (re.match(r'ns\\d+$') for ASCII digits: the prefix pool has no non-ASCII digit); a nspair never binds the xml "
               "namespace or a prefix starting with 'xml' (not legal XML, the caller's error); the registry every case starts from "
               "is carried in the case (observed) and must satisfy map_ok_b; equal bytes are carried as equal identifiers; "
               "the documents of the prefix-forcing calls are compared up to the order of the attributes of an element",
               "recipes (C12/Build.v): str(float) is carried as data, float(str)/date conversions are not restated (model "
               "TUnmodelled: the round trip of such an instance is still evaluated on the implementation); str.strip() is "
               "restated for ASCII white space (seeded texts avoid outer non-ASCII white space); an int / bool / float kept "
               "as it is by xs:anyType is outside the property's domain (text is not a string): only model agreement is checked",
               "character data before the first child is the element's text; tails (character data after a child) are "
               "not read by the code and not part of the tree model",
               "what ElementTree.tostring writes and expat reads back is the identity on trees except: keys spelled "
               "xmlns:* become namespace declarations, raw CR in text becomes LF (model: wire); checked on every case "
               "against the independent reader",
               "AttributeValueBase: conversions of xs:float/double/date are not restated (implementation-only check); "
               "integer/boolean text restated for ASCII; str.strip() restated for ASCII whitespace",
               "entity refusal, malformed-input refusal and byte-identity are checked on the implementation only",
               "the encoding / XML declaration / BOM of a document is not part of the tree model: the same tree is expected "
               "from every input form (checked against the independent reader on the same bytes)"]

XSI = "http://www.w3.org/2001/XMLSchema-instance"
XS = "http://www.w3.org/2001/XMLSchema"
XSI_TYPE = "{%s}type" % XSI
XSI_NIL = "{%s}nil" % XSI


# ---------------------------------------------------------------------------- tables
_TABLE_ERROR = None


def regenerate_tables(ctx):
    global _TABLE_ERROR
    try:
        info = classtables.write()
    except Exception as e:  # fail closed: an unusable table makes the proof build fail (and no modelled case is generated)
        _TABLE_ERROR = "%s: %s" % (type(e).__name__, e)
        common.write_if_changed(classtables.OUT, "(* GENERATION FAILED: %s *)\nDefinition generation_failed : False := I.\n"
                                % _TABLE_ERROR.replace("*)", "* )"))
        enter_lite()            # ... but the table-free battery still looks for a concrete failing input
        return {"obligations": 1, "discharged": 0, "error": _TABLE_ERROR, "fallback": "table-free battery (C12/Lite.v)"}
    # the case files need C12/Corr.vo against the table just written, also when a table obligation (C12/Live.v)
    # fails afterwards: then the correspondence still runs and names the failing input
    info["vocabulary"] = write_vocab()
    info["schema_order_oracle"] = write_schema()
    # translator v2: the decision functions as they read NOW -> gen/C12Src2.v (C12/Source2.v proves them equal to the model)
    from harness import py2coq2
    src2 = py2coq2.regenerate(SRC2_OUT, source2_items())
    common.coq_make(["theories/C12/Corr.vo"], jobs=4)
    # obligations discharged by vm_compute in C12/Live.v: EVERY live class parses and serialises consistently
    # (live_table_ok: wf_class) and the order table of every class with a content model in the shipped XML Schema
    # files never contradicts that model (live_xsd_ok); the driver zeroes them when the build breaks
    n = info["classes"] + info["schema_order_oracle"]["with_content_model"]
    info.update({"obligations": n + src2["obligations"], "discharged": n + src2["discharged"],
                 "unit": "live classes checked: wf_class, no exception list (C12/Live.v live_table_ok) + classes whose "
                         "c_child_order is checked against the XSD content model (live_xsd_ok) + functions re-translated "
                         "from the source text (gen/C12Src2.v, theorems c12_source2_*)",
                 "source2": src2, "untranslatable": list(src2["untranslatable"]),
                 "changed": bool(info.get("changed")) or bool(src2.get("changed"))})
    return info


# ---------------------------------------------------------------------------- table-free fallback (round 5)
# The class-table translator fails closed: when a live table has a shape it cannot stand for (a child registered for
# a member the instances do not have, say) there is no table, no model and - until round 5 - no case at all: the
# alarm was "theorem broken, no failing input found".  The battery below needs no table: for every core class it
# builds an instance / renders a document that carries ONE foreign child named like an element another live class
# registers (relatives first: a shared or wrongly copied child table brings exactly those names along) and checks
# on the implementation that the child surfaces in extension_elements and survives to_string() byte-identically.
# Which names are foreign is said by the schema files where they declare the element (else by the class's own
# c_children).  Verdicts go through C12/Lite.v.
_LITE = False
# mirror of Xsd.xsd_extra_allowed (registered children the schema files do not declare; reviewed by hand)
XSD_EXTRA_ALLOWED = {
    ("http://www.w3.org/2001/04/xmlenc#", "EncryptedKey"): ["saml2.xmldsig.KeyInfoType_", "saml2.xmldsig.KeyInfo",
                                                           "saml2.xmlenc.OriginatorKeyInfo", "saml2.xmlenc.RecipientKeyInfo"],
    ("http://www.w3.org/2001/04/xmlenc#", "KA_Nonce"): ["saml2.xmlenc.AgreementMethodType_", "saml2.xmlenc.AgreementMethod"],
    ("urn:oasis:names:tc:SAML:2.0:assertion", "AttributeValue"): [
        "saml2.extension.requested_attributes.RequestedAttributeType_", "saml2.extension.requested_attributes.RequestedAttribute"],
}
for _n in ("faultcode", "faultstring", "faultactor", "detail"):
    XSD_EXTRA_ALLOWED[("http://schemas.xmlsoap.org/soap/envelope/", _n)] = ["saml2.schema.soapenv.Fault_", "saml2.schema.soapenv.Fault"]


def enter_lite():
    global IMPORTS, CASE_TYPE, RUNNER, _LITE
    _LITE = True
    IMPORTS = "From Verif Require Import C12.Lite."
    CASE_TYPE = "C12.Lite.lcase"
    RUNNER = "C12.Lite.lrun"
    common.coq_make(["theories/C12/Lite.vo"], jobs=2)


def lite_classes():
    import importlib
    import inspect

    from saml2 import SamlBase

    out = []
    for mn in classtables.expand(classtables.CORE_MODULES):
        mod = importlib.import_module(mn)
        for n, c in vars(mod).items():
            if inspect.isclass(c) and issubclass(c, SamlBase) and c.__module__ == mn and n == c.__name__ \
                    and isinstance(c.c_tag, str) and c.c_tag and isinstance(c.c_namespace, str) and c.c_namespace:
                out.append(c)
    return out


def _split(name):
    return tuple(unclark(name))


def lite_cases(rng, per_class=3):
    classes = lite_classes()
    roots = {b for c in classes for b in c.__mro__ if b.__name__ in ("SamlBase", "ExtensionContainer", "AttributeValueBase", "object")}
    by_base = {}
    for c in classes:
        for b in set(c.__mro__) - roots:
            by_base.setdefault(b, []).append(c)
    S = Schemas(os.path.join(env.SRC, "saml2", "data", "schemas"))
    tags = sorted({(c.c_namespace, c.c_tag) for c in classes})
    cases = []
    for c in classes:
        if getattr(c, "harvest_element_tree", None) is not None and c.harvest_element_tree.__qualname__.startswith("AttributeValueBase"):
            continue
        name = "%s.%s" % (c.__module__, c.__name__)
        own = {_split(k) for k in c.c_children if isinstance(k, str)}
        try:
            ms = S.models((c.c_namespace, c.c_tag))
        except Unrankable:
            ms = []
        model = set(ms[0]) if ms and all(m == ms[0] for m in ms) and ms[0] else None

        def foreign(q):
            if model is not None:
                return q not in model and name not in XSD_EXTRA_ALLOWED.get(q, ())
            return q not in own

        rel = []
        for b in set(c.__mro__) - roots:
            for c2 in by_base[b]:
                for k in c2.c_children:
                    q = _split(k) if isinstance(k, str) else None
                    if q is not None and q not in rel and foreign(q):
                        rel.append(q)
        rng.shuffle(rel)
        # first of all: what the class REGISTERS although the schema does not give it to the element
        cand = sorted(q for q in own if foreign(q))
        cand += [q for q in rel if q not in cand][:per_class]
        pool = [q for q in tags if foreign(q) and q not in cand]
        same = [q for q in pool if q[0] == c.c_namespace]
        if same:
            cand.append(rng.choice(same))
        if len(cand) < per_class + 1 and pool:
            cand.append(rng.choice(pool))
        for q in cand:
            cases.append({"kind": "lite", "cls": name, "name": list(q), "how": rng.choice(["instance", "document"]),
                          "relative": q in rel})
    return cases


def observe_lite(case):
    import importlib

    import saml2

    mn, cn = case["cls"].rsplit(".", 1)
    cls = getattr(importlib.import_module(mn), cn)
    ns, tag = case["name"]
    try:
        if case["how"] == "instance":
            inst = cls()
            inst.extension_elements = [saml2.ExtensionElement(tag, namespace=ns, text="kept", children=[
                saml2.ExtensionElement("inner", namespace=FOREIGN_NS[0], attributes={"a": "1"})])]
            s1 = inst.to_string()
            if b"kept" not in s1:
                return {"ok": False, "detail": "the extension element is not serialised"}
        else:
            s1 = ('<r:%s xmlns:r="%s"><q:%s xmlns:q="%s">kept<i:inner xmlns:i="%s" a="1"/></q:%s></r:%s>'
                  % (cls.c_tag, cls.c_namespace, tag, ns, FOREIGN_NS[0], tag, cls.c_tag)).encode("utf-8")
        o = saml2.create_class_from_xml_string(cls, s1)
        if o is None:
            return {"ok": False, "detail": "parse gives None"}
        got = [[e.namespace, e.tag] for e in o.extension_elements]
        if got != [[ns, tag]]:
            return {"ok": False, "detail": "unknown child did not surface as an extension element: %r" % (got,)}
        s2 = o.to_string()
        if b"kept" not in s2:
            return {"ok": False, "detail": "unknown child dropped by to_string()"}
        # (s2 == s1 is not demanded of a bare cls(): parsing fills in schema defaults such as NameFormat)
        o2 = saml2.create_class_from_xml_string(cls, s2)
        if o2 is None or o2.to_string() != s2:
            return {"ok": False, "detail": "not stable"}
        return {"ok": True, "detail": "kept"}
    except Exception as e:  # noqa: BLE001
        return {"ok": False, "detail": "%s: %s" % (type(e).__name__, e)}


# ---------------------------------------------------------------------------- source tie (translator v2)
SRC2_OUT = os.path.join(common.GEN, "C12Src2.v")


def source2_items():
    """What translator v2 (harness/py2coq2.py) re-translates from the source TEXT on every run; C12/Source2.v proves
    each definition equal to the model function it mirrors, for all inputs.  External calls (constructors, the
    methods that work on ANOTHER object, class attributes reached through self.__class__) are extra parameters of the
    Gallina definitions and Section variables of the theorems.  The module constants are read from the live module."""
    from harness.py2coq2 import cstr
    from saml2 import saml

    init = os.path.join(env.SRC, "saml2", "__init__.py")
    samlpy = os.path.join(env.SRC, "saml2", "saml.py")
    consts = {"XSI_NIL": "(PStr %s)" % cstr(saml.XSI_NIL), "XSI_TYPE": "(PStr %s)" % cstr(saml.XSI_TYPE),
              "XS_NAMESPACE": "(PStr %s)" % cstr(saml.XS_NAMESPACE)}
    return [
        # root tag check; target_class() and target.harvest_element_tree(tree) are external
        (init, "create_class_from_element_tree", {
            "name": "src2_create_class_from_element_tree", "params": ["target_class", "tree", "namespace", "tag"],
            "extra_params": [("construct", "pyval -> pyval"), ("harvest", "pyval -> pyval -> pyval")],
            "calls": {"target_class": lambda a: "(construct v_target_class)",
                      "target.harvest_element_tree": lambda a: "(harvest v_target %s)" % a[0]}}),
        (init, "ExtensionContainer._convert_element_attribute_to_member", {
            "name": "src2_ec_convert_attribute", "params": ["self", "attribute", "value"], "returns_state": ["self"]}),
        (init, "SamlBase._convert_element_attribute_to_member", {
            "name": "src2_convert_attribute", "params": ["self", "attribute", "value"], "returns_state": ["self"],
            "extra_params": [("c_attributes", "pyval"), ("ec_convert", "pyval -> pyval -> pyval -> pyval")],
            "calls": {"self.__class__.c_attributes": "c_attributes",
                      "ExtensionContainer._convert_element_attribute_to_member":
                          lambda a: "(ec_convert %s %s %s)" % tuple(a)}}),
        (samlpy, "AttributeValueBase.set_type", {
            "name": "src2_set_type", "params": ["self", "typ"], "returns_state": ["self"], "globals": consts,
            "attr_errors": True}),
        (samlpy, "AttributeValueBase.get_type", {
            "name": "src2_get_type", "params": ["self"], "globals": consts, "attr_errors": True}),
        # ElementTree.Element(""), iter() and child.become_child_element_of(element_tree) are external
        (init, "ExtensionElement.transfer_to_element_tree", {
            "name": "src2_transfer_to_element_tree", "params": ["self"],
            "extra_params": [("new_element", "pyval -> pyval"), ("become_child", "pyval -> pyval -> pyval")],
            "calls": {"ElementTree.Element": lambda a: "(new_element %s)" % a[0], "iter": lambda a: a[0],
                      "child.become_child_element_of": lambda a: "(become_child v_child %s)" % a[0]}}),
        # the class's c_attributes / child order and everything that acts on ANOTHER object are external; the tree is
        # the state (tree.attrib[...] = ... rebinds it)
        (init, "SamlBase._add_members_to_element_tree", {
            "name": "src2_add_members", "params": ["self", "tree"], "returns_state": ["tree"],
            "extra_params": [("c_attributes", "pyval"), ("child_order", "pyval -> pyval"),
                             ("become_child", "pyval -> pyval -> pyval"), ("ec_add", "pyval -> pyval -> pyval")],
            "calls": {"self.__class__.c_attributes.items": lambda a: "(p2_items c_attributes)", "iter": lambda a: a[0],
                      "self._get_all_c_children_with_order": lambda a: "(child_order v_self)",
                      "instance.become_child_element_of": lambda a: "(become_child v_instance %s)" % a[0],
                      "member.become_child_element_of": lambda a: "(become_child v_member %s)" % a[0],
                      "ExtensionContainer._add_members_to_element_tree": lambda a: "(ec_add %s %s)" % tuple(a)}}),
    ]


# ---------------------------------------------------------------------------- vocabulary (compact case files)
# Coq reads a string literal at ~80 us per character; the case files therefore name the strings of a fixed
# vocabulary (generator pools + every member / element / attribute name of the table), defined once in
# gen/C12Vocab.v, and spell any string as a concatenation of vocabulary words and literal rests.  This is
# only a shorter spelling of the same value: the words are written from the same Python lists.
VOCAB_OUT = os.path.join(common.GEN, "C12Vocab.v")
_VOC = None


def cq_lit(s):
    b = s.encode("utf-8")
    if all(c >= 0x20 or c in (9, 10) for c in b) and 0x7F not in b:
        return '"' + s.replace('"', '""') + '"'
    return cq_str(s)


def vocab():
    """[words], {word: identifier}, tokenizer regex"""
    global _VOC
    if _VOC is None:
        import re

        words = []
        t = tab()
        pools = [WORDS, MARKUP, WS, NONASCII, NONBMP, FOREIGN_NS, FOREIGN_LOCAL, PLAIN_ATTR,
                 [XSI, XS, "xs:string", "xs:integer", "xs:boolean", "xs:anyType", "xs:base64Binary", "xsd:string", "my:type",
                  "xmlns:xs", "xmlns:xsd", "type", "nil", "false", "string", "integer", "boolean", "\r", "\r\n",
                  "urn:oasis:names:tc:SAML:2.0:attrname-format:uri", "urn:oasis:names:tc:SAML:2.0:attrname-format:unspecified"]]
        for pool in pools:
            words += pool
        for r in t.classes:
            words += [r.tag[1]] + [q[1] for q, _m, _k, _l in r.children] + [m for _q, m, _k, _l in r.children]
            words += [q[1] for q, _m, _t, _r in r.attributes] + [m for _q, m, _t, _r in r.attributes]
            words += [v for _m, v in r.parse_defaults]
        # round 3: the look-alike names (alike_names) - other-case spellings of the schema names and of the live
        # namespaces, the fixed value prefixes
        words += ["x-", "v-", "note", "Extra", "x-1"]
        for n in sorted(ns_ids()):
            words += [n, n.upper(), n.lower()]
        for r in t.classes:
            for w in [q[1] for q, _m, _k, _l in r.children] + [q[1] for q, _m, _t, _r in r.attributes]:
                words += [w.lower(), w.upper(), w[:1].swapcase() + w[1:]]
        # round 5 (histories): the prefixes asked for and the namespaces ElementTree knows from the start
        words += SEQ_PFX + list(ET_BUILTIN_NS) + ["urn:x-verif:unused", "encas"]
        seen, out = set(), []
        for w in words:
            if w and w not in seen:
                seen.add(w)
                out.append(w)
        ids = {w: "w%d" % i for i, w in enumerate(out)}
        rx = re.compile("|".join(re.escape(w) for w in sorted(out, key=len, reverse=True)), re.S)
        _VOC = (out, ids, rx)
    return _VOC


def write_vocab():
    words, ids, _rx = vocab()
    txt = ["(* GENERATED by harness/c12.py: strings the C12 case files refer to by name - do not edit. *)",
           "From Coq Require Import String List NArith.", "From Verif Require Import Base.Str.", "Import ListNotations.",
           "Open Scope string_scope.", ""]
    for w in words:
        # a word that looks like a forbidden Coq keyword is spelled as bytes (the proof-file scanner reads this file)
        lit = cq_lit(w) if not common.FORBIDDEN.search(w) else "(sb [%s]%%N)" % ";".join(str(c) for c in w.encode("utf-8"))
        txt.append("Definition %s : string := %s." % (ids[w], lit))
    changed = common.write_if_changed(VOCAB_OUT, "\n".join(txt) + "\n")
    return {"words": len(words), "changed": changed}


# ---------------------------------------------------------------------------- schema order oracle (XSD -> ranks)
# "children (in schema order)": the library's own c_child_order cannot be the judge of itself.  The XML Schema
# files shipped in src/saml2/data/schemas are read here (nothing of the library is used) and every content model
# is flattened into RANKS of the child element names such that in every schema-valid element the ranks of the
# children never decrease (C12/Xsd.v): sequence = increasing blocks, choice = alternatives start together,
# anything repeatable = one rank for all names inside, a name met at two ranks = the ranks between are merged.
# Classes for which no schema declares the element / type (dri, mdrpi, pefim, shibmd, ws-*) get no ranks.
SCHEMA_OUT = os.path.join(common.GEN, "C12Schema.v")
XSD_NS = "http://www.w3.org/2001/XMLSchema"


def _x(n):
    return "{%s}%s" % (XSD_NS, n)


class Unrankable(Exception):
    pass


class Schemas:
    def __init__(self, directory):
        import glob

        self.elements, self.types, self.groups, self.local = {}, {}, {}, {}
        self.rep = set()      # (round 7) child names met as REPEATABLE particles since the caller last cleared it
        self.files = 0
        for p in sorted(glob.glob(os.path.join(directory, "*.xsd"))):
            root = ET.parse(p).getroot()
            if root.tag != _x("schema"):
                continue
            nsmap = {}
            for _ev, v in ET.iterparse(p, events=("start-ns",)):
                nsmap.setdefault(v[0], v[1])
            tns = root.get("targetNamespace")
            sch = (tns, root.get("elementFormDefault") == "qualified", nsmap, os.path.basename(p))
            self.files += 1
            for ch in root:
                tbl = {_x("element"): self.elements, _x("complexType"): self.types, _x("group"): self.groups}.get(ch.tag)
                if tbl is not None and ch.get("name"):
                    tbl.setdefault((tns, ch.get("name")), []).append((ch, sch))
            top = {id(ch) for ch in root}
            for el in root.iter(_x("element")):          # local element declarations (not the top-level ones)
                if el.get("name") and id(el) not in top:
                    self.local.setdefault(self.local_name(el, sch), []).append((el, sch))

    @staticmethod
    def local_name(el, sch):
        form = el.get("form")
        qual = sch[1] if form is None else form == "qualified"
        return (sch[0] if qual else None, el.get("name"))

    @staticmethod
    def qn(s, sch):
        if ":" in s:
            p, l = s.split(":", 1)
            return (sch[2].get(p), l)
        return (sch[2].get(""), s)

    # -- flattening
    def type_model(self, ct, sch, out, r, depth=0):
        if depth > 20:
            raise Unrankable("type derivation too deep")
        for ch in ct:
            if ch.tag == _x("complexContent"):
                for d in ch:
                    if d.tag == _x("extension"):
                        base = self.qn(d.get("base"), sch)
                        if base[0] != XSD_NS:
                            bs = self.types.get(base)
                            if not bs:
                                raise Unrankable("base type %r not found" % (base,))
                            r = self.type_model(bs[0][0], bs[0][1], out, r, depth + 1)
                        r = self.particles(d, sch, out, r, False, depth)
                    elif d.tag == _x("restriction"):
                        r = self.particles(d, sch, out, r, False, depth)
            elif ch.tag in (_x("sequence"), _x("choice"), _x("group"), _x("all")):
                r = self.particle(ch, sch, out, r, False, depth)
        return r

    def particles(self, node, sch, out, r, collapse, depth):
        for ch in node:
            if ch.tag in (_x("sequence"), _x("choice"), _x("group"), _x("all"), _x("element")):
                r2 = self.particle(ch, sch, out, r, collapse, depth)
                if not collapse:
                    r = r2
        return r

    def particle(self, p, sch, out, r, collapse, depth):
        if depth > 20:
            raise Unrankable("group nesting too deep")
        many = collapse or p.get("maxOccurs", "1") != "1"
        if p.tag == _x("element"):
            out.append((self.qn(p.get("ref"), sch) if p.get("ref") else self.local_name(p, sch), r))
            if many:
                self.rep.add(out[-1][0])
            return r if collapse else r + 1
        if p.tag == _x("group"):
            g = self.groups.get(self.qn(p.get("ref"), sch))
            if not g:
                raise Unrankable("group %r not found" % p.get("ref"))
            e = r
            for ch in g[0][0]:
                if ch.tag in (_x("sequence"), _x("choice"), _x("all")):
                    e = max(e, self.particle(ch, g[0][1], out, r, many, depth + 1))
            return r if collapse else (r + 1 if many else e)
        if many or p.tag == _x("all"):
            self.particles(p, sch, out, r, True, depth)
            return r if collapse else r + 1
        if p.tag == _x("sequence"):
            return self.particles(p, sch, out, r, False, depth)
        e = r                                         # choice, taken once: the alternatives start together
        for ch in p:
            if ch.tag in (_x("sequence"), _x("choice"), _x("group"), _x("element")):
                e = max(e, self.particle(ch, sch, out, r, False, depth))
        return e

    def models(self, tag):
        """The content models declared for the element / type name tag: a list of {child name: rank}."""
        cands = []
        decls = self.elements.get(tag) or self.local.get(tag) or []
        for el, sch in decls:
            t = el.get("type")
            if t:
                tq = self.qn(t, sch)
                if tq[0] == XSD_NS:
                    cands.append(None)
                else:
                    cands += list(self.types.get(tq, []))
            else:
                ct = el.find(_x("complexType"))
                cands.append((ct, sch) if ct is not None else None)
        cands += list(self.types.get(tag, []))
        res = []
        for c in cands:
            out = []
            if c is not None:
                self.type_model(c[0], c[1], out, 0)
            res.append(merge_ranks(out))
        return res


def merge_ranks(pairs):
    """[(name, rank)] -> {name: rank}; a name met at two ranks merges every rank between them (sound: accepts more)."""
    pairs = list(pairs)
    while True:
        lo, hi = {}, {}
        for q, r in pairs:
            lo[q] = min(lo.get(q, r), r)
            hi[q] = max(hi.get(q, r), r)
        spans = [(lo[q], hi[q]) for q in lo if lo[q] != hi[q]]
        if not spans:
            return dict(pairs)
        a, b = spans[0]
        pairs = [(q, a if a <= r <= b else r) for q, r in pairs]


_XSD = None
_XSD_REP = {}     # (round 7) class index -> child names the schema files declare repeatable (maxOccurs != 1, own or of a group)


def xsd_ranks():
    """{class index: [(child tag, rank)]} for every class with children whose element / type a schema declares,
    plus counters.  Only child names the class registers get a rank (others would never be looked up)."""
    global _XSD
    if _XSD is None:
        S = Schemas(os.path.join(env.SRC, "saml2", "data", "schemas"))
        if not S.files:
            raise RuntimeError("no XML Schema files under %s/saml2/data/schemas: no oracle for schema order" % env.SRC)
        ranks, info = {}, {"schema_files": S.files, "classes_with_children": 0, "with_content_model": 0,
                           "with_two_or_more_ranked_children": 0, "no_schema": 0, "unrankable": [], "ambiguous": []}
        for i, r in enumerate(tab().classes):
            if not r.children:
                continue
            info["classes_with_children"] += 1
            try:
                S.rep = set()
                ms = S.models(r.tag)
            except Unrankable as e:
                info["unrankable"].append("%s: %s" % (r.name, e))
                continue
            if not ms:
                info["no_schema"] += 1
                continue
            if any(m != ms[0] for m in ms):
                info["ambiguous"].append(r.name)       # two schemas declare the name differently: no oracle
                continue
            m = [(t, ms[0][t]) for t, _m, _k, _l in r.children if t in ms[0]]
            if m:
                ranks[i] = m
                _XSD_REP[i] = set(S.rep)
                info["with_content_model"] += 1
                if len(m) >= 2:
                    info["with_two_or_more_ranked_children"] += 1
        _XSD = (ranks, info)
    return _XSD


def write_schema():
    ranks, info = xsd_ranks()
    txt = ["(* GENERATED by harness/c12.py from src/saml2/data/schemas/*.xsd: rank of every child element name in the",
           "   content model of the class's element / type (see C12/Xsd.v) - do not edit. *)",
           "From Coq Require Import String List NArith.", "From Verif Require Import Base.Str Base.Xml.",
           "From VerifGen Require Import ClassTables C12Vocab.", "Import ListNotations.", "Open Scope string_scope.", "",
           "Definition live_xsd : list (N * list (qname * nat)) := ["]
    names = tab().classes
    txt.append(";\n".join("  (* %s *) (%d%%N, [%s])" % (names[i].name, i, "; ".join("(%s, %d)" % (cq_q(list(t)), r) for t, r in m))
                          for i, m in sorted(ranks.items())))
    txt.append("].")
    info = dict(info, changed=common.write_if_changed(SCHEMA_OUT, "\n".join(txt) + "\n"))
    return info


_CQS = {}


def cq_s(s):
    """Coq term for the Python str s."""
    r = _CQS.get(s)
    if r is None:
        _words, ids, rx = vocab()
        parts, pos = [], 0
        for m in rx.finditer(s):
            if m.start() > pos:
                parts.append(cq_lit(s[pos:m.start()]))
            parts.append(ids[m.group(0)])
            pos = m.end()
        if pos < len(s):
            parts.append(cq_lit(s[pos:]))
        if not parts:
            r = '""'
        elif len(parts) == 1:
            r = parts[0]
        else:
            r = "(" + " ++ ".join(parts) + ")%string"
        _CQS[s] = r
    return r


def tab():
    return classtables.load()


_NSIDS = None


def ns_ids():
    global _NSIDS
    if _NSIDS is None:
        _NSIDS = classtables.ns_ids(tab())
    return _NSIDS


# ---------------------------------------------------------------------------- random material
FOREIGN_NS = ["urn:x-verif:foreign", "http://example.org/ext?a=1&b=2", "urn:x-verif:é中", "urn:a",
              "http://www.w3.org/XML/1998/namespace"]
FOREIGN_LOCAL = ["ext", "Foo", "a-b", "x.y", "_u", "élément", "Issuer", "Assertion", "AttributeValue", "Signature",
                 "EncryptedKey", "lang"]
PLAIN_ATTR = ["data-x", "foo", "ID2", "xx"]
WORDS = ["a", "abc", "urn:x", "https://idp.example.org/sso?x=1&y=2", "2024-01-01T00:00:00Z", "true", "0", "42", "John Doe"]
MARKUP = ["<", ">", "&", "\"", "'", "]]>", "&amp;", "<!--", "-->", "<?x?>", "&#13;", "<a>", "</a>", "{", "}"]
WS = [" ", "  ", "\t", "\n", "\n   ", " \n\t "]
NONASCII = ["é", "üß", "中文", " ", " ", "�", "퟿", "", "\u0085"]
NONBMP = ["\U0001f600", "\U00010000", "\U0010ffff", "\U0001d11e"]


def rand_text(rng, hostile=True, cr=False):
    n = rng.choice([1, 1, 2, 2, 3, 4])
    parts = []
    for _ in range(n):
        k = rng.random()
        if not hostile or k < 0.35:
            parts.append(rng.choice(WORDS))
        elif k < 0.55:
            parts.append(rng.choice(MARKUP))
        elif k < 0.72:
            parts.append(rng.choice(WS))
        elif k < 0.86:
            parts.append(rng.choice(NONASCII))
        else:
            parts.append(rng.choice(NONBMP))
    s = "".join(parts)
    if cr and rng.random() < 0.5:
        i = rng.randrange(len(s) + 1)
        s = s[:i] + rng.choice(["\r", "\r\n", "\r\r"]) + s[i:]
    return s


P_EMPTY = 0.08


def rand_value(rng, hostile=True):
    """An attribute value: the empty string with probability P_EMPTY (present-but-empty is not absent)."""
    return "" if rng.random() < P_EMPTY else rand_text(rng, hostile)


def text_classes(s):
    out = set()
    if s is None:
        return out
    if s == "":
        out.add("empty")
    if any(c in s for c in "<>&\"'"):
        out.add("markup")
    if any(c in s for c in " \t\n"):
        out.add("ws")
    if "\r" in s:
        out.add("cr")
    if any(ord(c) > 0xFFFF for c in s):
        out.add("nonbmp")
    if any(0x7F < ord(c) <= 0xFFFF for c in s):
        out.add("bmp")
    return out


def foreign_name(rng, rec=None, element=True):
    """An expanded name (ns|None, local) the class does not know."""
    for _ in range(20):
        if not element and rng.random() < 0.3:
            q = (None, rng.choice(PLAIN_ATTR))
        elif rng.random() < 0.1:
            q = (None, rng.choice(FOREIGN_LOCAL[:5]))
        else:
            ns = rng.choice(FOREIGN_NS)
            q = (ns, rng.choice(FOREIGN_LOCAL))
            if ns.endswith("namespace"):
                q = (ns, "lang") if not element else (FOREIGN_NS[0], q[1])
        if rec is None:
            return q
        known = [t for t, _m, _k, _l in rec.children] if element else [n for n, _m, _t, _r in rec.attributes]
        if q not in known and not (not element and rec.kind == "attrvalue" and q[0] in (XSI, XS)):
            return q
    return (FOREIGN_NS[0], "ext")


def rand_attr_dict(rng, rec, n, hostile):
    out, seen = [], set()
    for _ in range(n):
        q = foreign_name(rng, rec, element=False)
        if q in seen:
            continue
        seen.add(q)
        out.append([list(q), rand_value(rng, hostile)])
    return out


def rand_ee(rng, depth, hostile, rec=None, cr=False):
    q = foreign_name(rng, rec, element=True)
    kids = []
    if depth > 0 and rng.random() < 0.4:
        kids = [rand_ee(rng, depth - 1, hostile, None, cr) for _ in range(rng.randint(1, 2))]
    text = rand_text(rng, hostile, cr) if rng.random() < 0.6 else None
    if rng.random() < 0.04:
        text = ""
    return {"ns": q[0], "tag": q[1], "a": rand_attr_dict(rng, None, rng.choice([0, 0, 1, 2]), hostile), "k": kids, "x": text}


# ---------------------------------------------------------------------------- look-alike names (round 3)
# A foreign name is foreign because its EXPANDED name (namespace, local name) is not one the class registers -
# however close it comes.  foreign_name() above only draws from pools that are far away from the schema names
# (vendor namespaces, made-up local names); the neighbourhood of the names a class DOES know was never visited:
# the same local name in another namespace (in particular the namespace of the element that carries it:
# prefix:Attr on prefix:Element), unqualified where the schema name is qualified, a namespace that differs in one
# character or in case, the local name in another case or with a suffix, and an unknown local name in the class's
# own namespace.  alike_names() enumerates that neighbourhood for one class: (known name) x NS_VARIANTS x
# LOCAL_VARIANTS minus the names the class knows.
NS_VARIANTS = ["none", "own", "live", "foreign", "near", "xml"]
LOCAL_VARIANTS = ["exact", "lower", "upper", "swap1", "suffix", "other"]
AV_MANAGED = [(XSI, "type"), (XSI, "nil")]      # the two attributes AttributeValueBase reads itself


def _local_variant(rng, local, v):
    if v == "exact":
        return local
    if v == "lower":
        return local.lower()
    if v == "upper":
        return local.upper()
    if v == "swap1":
        return local[:1].swapcase() + local[1:]
    if v == "suffix":
        return local + rng.choice(["x", "_", "2", ".a", "-b"])
    return rng.choice(["note", "Extra", "x-1"])


def _ns_variant(rng, own, v, avoid=()):
    if v == "none":
        return None
    if v == "own":
        return own
    if v == "live":                    # a namespace some OTHER class of the library lives in
        return rng.choice([n for n in sorted(ns_ids()) if n != own and n != XML_NS and n not in avoid])
    if v == "foreign":
        return rng.choice(FOREIGN_NS[:4])
    if v == "xml":
        return XML_NS
    if not own:
        return None
    return rng.choice([n for n in (own + "x", own + "/", own[:-1], own.upper(), own.lower() if own != own.lower() else own + "#")
                       if n and n != own])


def alike_names(rng, rec, element, own=None, known=None):
    """[(expanded name, 'ns-variant/local-variant')], shuffled: the neighbourhood of the child tags (element=True) or
    attribute names of rec.  own: the namespace of the element that carries the name (default: the class's)."""
    own = rec.tag[0] if own is None else own
    if known is None:
        known = [tuple(t) for t, _m, _k, _l in rec.children] if element else [tuple(n) for n, _m, _t, _r in rec.attributes]
    av = rec.kind == "attrvalue" and not element
    base = list(known) + (AV_MANAGED if av else [])
    if not base:
        base = [(own, "Value")]          # a class without schema names of that sort: only own-namespace strangers
    avoid = (XSI, XS) if rec.kind == "attrvalue" else ()
    out, seen = [], set(known) | set(AV_MANAGED if av else [])
    for ns0, local in base:
        for nv in NS_VARIANTS:
            if nv == "xml" and element:
                continue
            for lv in LOCAL_VARIANTS:
                ns = _ns_variant(rng, own, nv, avoid)
                if nv == "near" and ns0 not in (None, own) and rng.random() < 0.5:
                    ns = ns0 + "x"        # next to the namespace the schema name is in (xsi:type, xml:lang)
                q = (ns, _local_variant(rng, local, lv))
                if q in seen or (ns is None and nv != "none") or (not element and ns in avoid):
                    continue
                seen.add(q)
                out.append((q, "%s/%s" % (nv, lv)))
    rng.shuffle(out)
    out.sort(key=lambda x: not x[1].endswith("/exact"))    # stable: the closest neighbours first
    return out


def pick_alike(rng, rec, element, n, own=None):
    """n names of the neighbourhood: at least a third of them with the EXACT local name of a schema name."""
    names = alike_names(rng, rec, element, own)
    exact = [x for x in names if x[1].endswith("/exact")]
    rest = [x for x in names if not x[1].endswith("/exact")]
    k = min(len(exact), max(1, (n + 2) // 3))
    got = exact[:k] + rest[:max(0, n - k)]
    rng.shuffle(got)
    return got


def alike_ee(rng, rec, q):
    """A foreign element with a look-alike name; inside it the class's OWN names stay foreign too."""
    e = {"ns": q[0], "tag": q[1], "a": [], "k": [], "x": rand_text(rng, False) if rng.random() < 0.6 else None}
    if rng.random() < 0.4:
        for n, _m, _t, _r in rng.sample(rec.attributes, min(len(rec.attributes), 2)):
            e["a"].append([list(n), rand_text(rng, False)])
    if rng.random() < 0.3 and rec.children:
        t = rng.choice(rec.children)[0]
        e["k"].append({"ns": t[0], "tag": t[1], "a": [], "k": [], "x": None})
    return e


def gen_alike_spec(rng, idx, depth, kinds):
    """An instance whose extension attributes / elements are look-alikes of its schema names (values differ from
    the values of the schema attributes, so an overwrite shows), the same one level down."""
    rec = tab().classes[idx]
    if rec.kind == "attrvalue":
        spec = gen_av_spec(rng, idx, "rand", False)
        spec["xa"], spec["xa_first"] = [], True
    else:
        spec = gen_spec(rng, idx, 0, "rand", [99])
        dflt = {m for m, _v in rec.parse_defaults}
        spec["a"] = [[m, "v-" + m] for n, m, _t, req in rec.attributes if req or m in dflt or rng.random() < 0.6]
        spec["xa"], spec["e"], spec["k"] = [], [], []
        if spec["x"] == "":
            spec["x"] = None         # text "" is read back as None: keep the instance one the property speaks about
        if depth > 0:
            for _tag, member, k, lst in rec.children:
                if k is not None and rng.random() < 0.35 and len(spec["k"]) < 1:
                    spec["k"].append([member, [gen_alike_spec(rng, k, depth - 1, kinds)]])
        for q, kind in pick_alike(rng, rec, True, rng.choice([1, 1, 2])):
            spec["e"].append(alike_ee(rng, rec, q))
            kinds.append("elem " + kind)
    for q, kind in pick_alike(rng, rec, False, rng.choice([2, 3, 4])):
        spec["xa"].append([list(q), "x-" + rand_text(rng, False)])
        kinds.append("attr " + kind)
    return spec


def gen_alike_doc(rng, idx, depth, kinds, tag=None):
    """A document for the class in which look-alikes of the schema names stand NEXT to the schema names."""
    rec = tab().classes[idx]
    node = {"g": list(tag or rec.tag), "a": [], "x": "", "k": []}
    attrs = [[list(n), "v-" + m] for n, m, _t, req in rec.attributes if rng.random() < (0.85 if req else 0.6)]
    if rec.kind == "attrvalue":
        node = gen_av_doc(rng, idx, node, attrs, False, ext=False)
        attrs = node["a"]
    for q, kind in pick_alike(rng, rec, False, rng.choice([2, 3, 4]), own=node["g"][0]):
        if list(q) not in [a[0] for a in attrs]:
            attrs.append([list(q), "x-" + rand_text(rng, False)])
            kinds.append("attr " + kind)
    rng.shuffle(attrs)
    node["a"] = attrs
    if rec.kind == "attrvalue":
        return node
    kids = []
    if depth > 0:
        for t, _m, k, lst in rec.children:
            if k is not None and rng.random() < 0.35 and len(kids) < 1:
                kids.append(gen_alike_doc(rng, k, depth - 1, kinds, tag=t))
    for q, kind in pick_alike(rng, rec, True, rng.choice([1, 1, 2]), own=node["g"][0]):
        kids.append(tree_of_ee(alike_ee(rng, rec, q)))
        kinds.append("elem " + kind)
    rng.shuffle(kids)
    node["k"] = kids
    if not rec.children and rng.random() < 0.5:
        node["x"] = rand_text(rng, False)
    return node


# ---------------------------------------------------------------------------- instance specifications
def gen_spec(rng, idx, depth, mode, budget):
    """mode: 'min' (required attributes only), 'rand', 'hostile' (foreign content, hostile characters), 'cr'."""
    t = tab()
    rec = t.classes[idx]
    hostile = mode in ("hostile", "cr", "empty")
    spec = {"c": idx, "a": [], "k": [], "e": [], "xa": [], "x": None, "how": rng.choice(["ctor", "setattr"])}
    budget[0] -= 1
    if rec.kind == "attrvalue":
        return gen_av_spec(rng, idx, mode, hostile)
    for _n, member, _t, req in rec.attributes:
        p = 1.0 if (req or mode == "empty") else (0.0 if mode == "min" else 0.5)
        if rng.random() < p:
            spec["a"].append([member, "" if mode == "empty" else rand_value(rng, hostile)])
    if depth > 0 and mode != "min":
        for _tag, member, k, lst in rec.children:
            if k is None or budget[0] <= 0 or rng.random() > 0.45:
                continue
            n = rng.randint(1, 3) if lst else 1
            vals = []
            for _ in range(n):
                if budget[0] <= 0 and vals:
                    break
                vals.append(gen_spec(rng, k, depth - 1, mode, budget))
            spec["k"].append([member, vals])
    simple = rec.value_type is not None or not rec.children
    if rng.random() < (0.7 if simple else 0.15) and mode != "min":
        spec["x"] = rand_text(rng, hostile, cr=(mode == "cr"))
        if rng.random() < P_EMPTY:
            spec["x"] = ""
    if hostile:
        if rng.random() < 0.5:
            spec["e"] = [rand_ee(rng, 2, True, rec, cr=(mode == "cr")) for _ in range(rng.randint(1, 2))]
        if rng.random() < 0.5:
            spec["xa"] = rand_attr_dict(rng, rec, rng.randint(1, 2), True)
    return spec


def gen_full_spec(rng, idx):
    """EVERY child member present at once (list members: 1-2 values; every value minimal): all pairs of children of
    the class meet in one element, so a misplaced member of the order table shows whatever its neighbours are."""
    rec = tab().classes[idx]
    spec = gen_spec(rng, idx, 0, "rand", [99])
    spec["k"] = []
    for _tag, member, k, lst in rec.children:
        if k is None:
            continue
        n = rng.choice([1, 1, 2]) if lst else 1
        spec["k"].append([member, [gen_spec(rng, k, 0, "min", [99]) for _ in range(n)]])
    if rng.random() < 0.3:
        spec["e"] = [rand_ee(rng, 0, False, rec)]
    return spec


def gen_full_doc(rng, idx):
    """A document with every known child of the class present (list members once or twice; bare elements), in
    arbitrary order, foreign children in between."""
    rec = tab().classes[idx]
    node = gen_doc(rng, idx, 0, [99], hostile=False)
    kids = list(node["k"])
    for tag, _m, k, lst in rec.children:
        for _ in range(rng.choice([1, 1, 2]) if lst else 1):
            # bare elements: the order of the children is the point here, their content is exercised elsewhere
            kids.append({"g": list(tag), "a": [], "x": "", "k": []})
    rng.shuffle(kids)
    node["k"] = kids
    return node


AV_TYPES = [None, "xs:string", "xs:integer", "xs:boolean", "xs:anyType", "xs:base64Binary", "xsd:string", "my:type",
            "string", "integer", "plain"]


def gen_av_spec(rng, idx, mode, hostile):
    rec = tab().classes[idx]
    spec = {"c": idx, "av": True, "typ": None, "x": None, "e": [], "xa": [], "how": "av"}
    k = rng.random()
    if mode == "min" or k < 0.15:
        return spec  # nil
    if k < 0.3:
        spec["e"] = [rand_ee(rng, 1, hostile, rec) for _ in range(rng.randint(1, 2))]
    else:
        typ = rng.choice(AV_TYPES)
        spec["typ"] = typ
        base = (typ or "").split(":")[-1]
        if base == "integer":
            spec["x"] = rng.choice(["0", "7", "-12", "+5", "007", " 42 ", "1_000", "123456789012345678901234567890"])
        elif base == "boolean":
            spec["x"] = rng.choice(["true", "false", "TRUE", "False"])
        else:
            spec["x"] = rand_text(rng, hostile, cr=(mode == "cr"))
            if spec["x"] == "":
                spec["x"] = "x"
    if hostile and rng.random() < 0.5:
        spec["xa"] = rand_attr_dict(rng, rec, rng.randint(1, 2), True)
    return spec


def build_ee(e):
    import saml2

    return saml2.ExtensionElement(e["tag"], namespace=e["ns"], attributes={clark(q): v for q, v in e["a"]},
                                  children=[build_ee(k) for k in e["k"]], text=e["x"])


def build(spec):
    """The live instance described by spec."""
    rec = tab().classes[spec["c"]]
    cls = rec.cls
    if spec.get("av"):
        ext = [build_ee(e) for e in spec["e"]]
        inst = cls(extension_elements=ext or None)
        if spec.get("xa_first"):     # foreign attributes set before the type: the dict order a parse produces
            for q, v in spec["xa"]:
                inst.extension_attributes[clark(q)] = v
        if spec["typ"] is not None:
            inst.set_type(spec["typ"])
        if spec["x"] is not None:
            inst.set_text(spec["x"])
        for q, v in spec["xa"]:
            inst.extension_attributes[clark(q)] = v
        return inst
    kw = {}
    for m, v in spec["a"]:
        kw[m] = v
    lists = {m: lst for _t, m, _k, lst in rec.children}
    for m, vals in spec["k"]:
        built = [build(v) for v in vals]
        kw[m] = built if lists[m] else built[0]
    if spec["x"] is not None:
        kw["text"] = spec["x"]
    if spec["e"]:
        kw["extension_elements"] = [build_ee(e) for e in spec["e"]]
    if spec["xa"]:
        kw["extension_attributes"] = {clark(q): v for q, v in spec["xa"]}
    if spec["how"] == "ctor":
        try:
            return cls(**kw)
        except TypeError:
            pass
    inst = cls()
    for m, v in kw.items():
        setattr(inst, m, v)
    return inst


# ---------------------------------------------------------------------------- recipes (round 5)
# HOW an AttributeValue instance comes to be.  Until round 5 every AttributeValue instance of the correspondence
# was built in one way (cls(extension_elements=..); set_type; set_text) and "is this an instance the property
# speaks about" was judged by the fixpoint of the PARSING side; the constructor's own keywords (text=,
# extension_attributes=), the Python TYPE of the value (None / str / bytes / int / bool / float) and its boundary
# values ("" vs None vs 0 vs False), and the order of the public calls were never varied.  A recipe is the
# constructor call followed by public calls; C12/Build.v restates what it builds, Corr.RTB demands the round trip
# of the result without guard.
#   value:  ["absent"] | ["none"] | ["str", s] | ["bytes", s] | ["int", n] | ["bool", b] | ["float", repr]
#   recipe: {"text": value, "ext": [ee] | None | "empty", "arg": [[name, v]] | None,
#            "ops": [["text", value, "call"|"attr"] | ["type", t] | ["clear"] | ["xa", name, v]]}
def py_value(v):
    k = v[0]
    if k in ("absent", "none"):
        return None
    if k == "str":
        return v[1]
    if k == "bytes":
        return v[1].encode("utf-8")
    if k == "int":
        return int(v[1])
    if k == "bool":
        return bool(v[1])
    if k == "float":
        return float(v[1])
    raise ValueError(k)


def build_recipe(idx, rc):
    cls = tab().classes[idx].cls
    kw = {}
    if rc["text"][0] != "absent":
        kw["text"] = py_value(rc["text"])
    if rc["ext"] == "empty":
        kw["extension_elements"] = []
    elif rc["ext"]:
        kw["extension_elements"] = [build_ee(e) for e in rc["ext"]]
    if rc["arg"] is not None:
        kw["extension_attributes"] = {clark(q): v for q, v in rc["arg"]}
    inst = cls(**kw)
    for op in rc["ops"]:
        if op[0] == "text":
            if op[2] == "attr":
                inst.text = py_value(op[1])
            else:
                inst.set_text(py_value(op[1]))
        elif op[0] == "type":
            inst.set_type(op[1])
        elif op[0] == "clear":
            inst.clear_type()
        else:
            inst.extension_attributes[clark(op[1])] = op[2]
    return inst


def cq_value(v):
    k = v[0]
    if k in ("absent", "none"):
        return "VNone"
    if k == "str":
        return "(VStr %s)" % cq_s(v[1])
    if k == "bytes":
        return "(VBytes %s)" % cq_s(v[1])
    if k == "int":
        n = int(v[1])
        return "(VInt %s %s)" % (cq_bool(n < 0), cq_s(str(abs(n))))
    if k == "bool":
        return "(VBool %s)" % cq_bool(v[1])
    f = float(v[1])
    return "(VFloat %s %s)" % (cq_bool(f == 0.0), cq_s(str(f)))   # str(float): trusted, the model carries it as given


def cq_recipe(rc):
    ops = []
    for op in rc["ops"]:
        if op[0] == "text":
            ops.append("OSetText %s" % cq_value(op[1]))
        elif op[0] == "type":
            ops.append("OSetType %s" % cq_s(op[1]))
        elif op[0] == "clear":
            ops.append("OClearType")
        else:
            ops.append("OXAttr %s %s" % (cq_q(op[1]), cq_s(op[2])))
    ext = rc["ext"] if isinstance(rc["ext"], list) else []
    return "(Recipe %s [%s] %s [%s])" % (cq_value(rc["text"]), "; ".join(cq_ee(e) for e in ext),
                                         cq_attrs(rc["arg"] or []), "; ".join(ops))


# ---------------------------------------------------------------------------- abstraction
class AbstractionError(Exception):
    pass


class LibraryFailure(Exception):
    """to_string() raised on an instance the library built or parsed itself, or wrote something no XML reader
    accepts: the instance did not survive serialisation (a failing case, not a harness error)."""


def to_string(o, what):
    try:
        return o.to_string()
    except RecursionError:
        raise
    except Exception as e:  # noqa: BLE001
        raise LibraryFailure("to_string() of %s raised %s: %s" % (what, type(e).__name__, e))


def clark(q):
    ns, local = q
    return local if ns is None else "{%s}%s" % (ns, local)


def unclark(name):
    if not isinstance(name, str):
        raise AbstractionError("name %r" % (name,))
    if name.startswith("{"):
        i = name.index("}")
        return [name[1:i], name[i + 1:]]
    return [None, name]


def _s(v, what):
    if not isinstance(v, str):
        raise AbstractionError("%s is %r" % (what, v))
    return v


def abs_ee(e):
    import saml2

    if not isinstance(e, saml2.ExtensionElement):
        raise AbstractionError("extension element %r" % (e,))
    if e.namespace is not None:
        _s(e.namespace, "namespace")
    return {"ns": e.namespace, "tag": _s(e.tag, "tag"), "a": [[unclark(k), _s(v, "attr")] for k, v in e.attributes.items()],
            "k": [abs_ee(c) for c in e.children], "x": None if e.text is None else _s(e.text, "text")}


def abs_obj(o):
    t = tab()
    idx = t.index.get(type(o))
    if idx is None:
        raise AbstractionError("instance of %r is outside the table" % (type(o),))
    rec = t.classes[idx]
    out = {"c": idx, "a": [], "k": [], "e": [abs_ee(e) for e in o.extension_elements],
           "xa": [[unclark(k), _s(v, "xattr")] for k, v in o.extension_attributes.items()],
           "x": None if o.text is None else _s(o.text, "text")}
    for _n, member, _t, _r in rec.attributes:
        v = getattr(o, member)
        if v is not None:
            out["a"].append([member, _s(v, member)])
    for _tag, member, _k, lst in rec.children:
        v = getattr(o, member)
        if v is None or v == []:
            continue
        vals = v if isinstance(v, list) else [v]
        out["k"].append([member, [abs_obj(x) for x in vals]])
    return out


def abs_tree(el):
    if not isinstance(el.tag, str):
        raise AbstractionError("node %r" % (el,))
    return {"g": unclark(el.tag), "a": [[unclark(k), v] for k, v in el.attrib.items()], "x": el.text or "",
            "k": [abs_tree(c) for c in el if isinstance(c.tag, str)]}


def read(xml_bytes):
    """The independent reader."""
    return abs_tree(ET.fromstring(xml_bytes))


def lib_parse(idx, xml_bytes):
    """The library's parser for class idx: <element>_from_string when the module offers one for this class."""
    import saml2

    rec = tab().classes[idx]
    cls = rec.cls
    mod = sys.modules[cls.__module__]
    f = getattr(mod, "ELEMENT_FROM_STRING", {}).get(cls.c_tag)
    try:
        o = None
        if f is not None:
            o = f(xml_bytes)
            if o is not None and type(o) is not cls:
                o = None
                f = None
        if f is None:
            o = saml2.create_class_from_xml_string(cls, xml_bytes)
    except RecursionError:
        return ("raise", "RecursionError", None)
    except Exception as e:  # noqa: BLE001  (the kind of exception is part of the observation only as "raises")
        return ("raise", type(e).__name__, None)
    if o is None:
        return ("none", None, None)
    # Round 8 (seed C12-e: an lru_cache keyed on the document bytes handed the FIRST parse's mutable object to every later
    # parse): what a parse yields is a function of the document alone - not of earlier parses of the same bytes nor of
    # what was done to their results.  Every parse the harness makes is therefore a little history: parse, record, use
    # the result the way callers do (assign text / an extension attribute / a foreign child, compare with ==, which
    # runs clear_text()), parse the same bytes again (bytes and str spelling): the second result must be a distinct
    # object with exactly the recorded members.  The caller gets the fresh one.
    try:
        snap = abs_obj(o)
        _scribble(o)
        o2 = (f or (lambda b: saml2.create_class_from_xml_string(cls, b)))(xml_bytes)
        if o2 is None or o2 is o or abs_obj(o2) != snap:
            return ("raise", "ParseDependsOnHistory", None)
        if isinstance(xml_bytes, bytes):
            try:
                as_str = xml_bytes.decode("utf-8")
            except UnicodeDecodeError:
                as_str = None
            if as_str is not None and not as_str.lstrip().startswith("<?xml"):
                _scribble(o2)
                o3 = (f or (lambda b: saml2.create_class_from_xml_string(cls, b)))(as_str)
                if o3 is None or o3 is o2 or o3 is o or abs_obj(o3) != snap:
                    return ("raise", "ParseDependsOnHistory", None)
                o2 = o3
    except RecursionError:
        return ("raise", "RecursionError", None)
    return ("ok", None, o2)


def _scribble(o):
    """Use a parsed instance the way callers do; nothing here may be visible in a later parse of the same document."""
    try:
        o == o.__class__()           # SamlBase.__eq__ runs clear_text() on both sides
    except Exception:  # noqa: BLE001
        pass
    try:
        o.text = "scribbled by an earlier caller"
        o.extension_attributes["scribbled"] = "1"
        import saml2
        o.extension_elements.append(saml2.ExtensionElement("scribble", namespace="urn:scribble"))
    except Exception:  # noqa: BLE001
        pass


def pres(r):
    k, e, o = r
    if k == "ok":
        return {"k": "ok", "o": abs_obj(o)}
    if k == "none":
        return {"k": "none"}
    return {"k": "raise", "e": e}


def chain(idx, r1):
    """to_string / parse / to_string after a successful parse r1."""
    out = {"t2": None, "r2": {"k": "none"}, "same23": False, "s2": None}
    if r1[0] != "ok":
        return out
    s2 = to_string(r1[2], "a parsed instance")
    out["s2"] = s2
    out["t2"] = read(s2)
    r2 = lib_parse(idx, s2)
    out["r2"] = pres(r2)
    if r2[0] == "ok":
        out["same23"] = to_string(r2[2], "a re-parsed instance") == s2
    return out


# ---------------------------------------------------------------------------- documents (independent renderer)
def gen_doc(rng, idx, depth, budget, hostile=True, cr=False):
    t = tab()
    rec = t.classes[idx]
    budget[0] -= 1
    node = {"g": list(rec.tag), "a": [], "x": "", "k": []}
    attrs = []
    for n, _m, _t, req in rec.attributes:
        if rng.random() < (0.8 if req else 0.45):
            attrs.append([list(n), rand_value(rng, hostile)])
    if rec.kind == "attrvalue":
        return gen_av_doc(rng, idx, node, attrs, hostile)
    if rng.random() < 0.45:
        attrs += rand_attr_dict(rng, rec, rng.randint(1, 2), hostile)
    rng.shuffle(attrs)
    node["a"] = attrs
    kids = []
    if depth > 0:
        for tag, _m, k, lst in rec.children:
            if budget[0] <= 0 or rng.random() > 0.4:
                continue
            n = rng.randint(1, 3) if lst else rng.choice([1, 1, 1, 2])
            for _ in range(n):
                if k is None:
                    kids.append({"g": list(tag), "a": [], "x": "", "k": []})
                else:
                    sub = gen_doc(rng, k, depth - 1, budget, hostile, cr)
                    sub["g"] = list(tag)   # the tag under which the parent registers the child
                    kids.append(sub)
    if rng.random() < 0.5:
        for _ in range(rng.randint(1, 2)):
            kids.append(tree_of_ee(rand_ee(rng, 1, hostile, rec, cr)))
    rng.shuffle(kids)
    node["k"] = kids
    simple = rec.value_type is not None or not rec.children
    r = rng.random()
    if r < (0.7 if simple else 0.1):
        node["x"] = rand_text(rng, hostile, cr)
    elif r < 0.5 and kids:
        node["x"] = rng.choice(["\n  ", "\n", " ", "\t"])
    return node


def tree_of_ee(e):
    return {"g": [e["ns"], e["tag"]], "a": e["a"], "x": e["x"] or "", "k": [tree_of_ee(k) for k in e["k"]]}


AV_DOC_TYPES = [None, "", "xs:string", "xsd:string", "string", "xs:integer", "integer", "xs:int", "xs:long", "xs:short",
                "xs:boolean", "boolean", "xs:anyType", "xs:base64Binary", "foo:bar", "foo:integer", "plain", "xs:", ":", ":string", ":foo", "x:y:z"]
AV_DOC_TEXTS = ["", "abc", " abc ", "7", "007", " 42 ", "-0", "+5", "1_000", "1__0", "_1", "12a", "true", "TRUE", "False", "yes",
                "\n  ", "<&>\"'", "\U0001f600"]


def gen_av_doc(rng, idx, node, attrs, hostile, typ="?", text="?", nil="?", ext="?"):
    rec = tab().classes[idx]
    typ = rng.choice(AV_DOC_TYPES) if typ == "?" else typ
    text = rng.choice(AV_DOC_TEXTS) if text == "?" else text
    nil = rng.choice([None, None, "true", "false"]) if nil == "?" else nil
    ext = rng.random() < 0.25 if ext == "?" else ext
    if typ is not None:
        attrs.append([[XSI, "type"], typ])
    if nil is not None:
        attrs.append([[XSI, "nil"], nil])
    if rng.random() < 0.3:
        attrs += rand_attr_dict(rng, rec, 1, hostile)
    rng.shuffle(attrs)
    node["a"] = attrs
    node["x"] = text
    if ext:
        node["k"] = [tree_of_ee(rand_ee(rng, 1, hostile, rec))]
    return node


PREFIXES = ["a", "b", "saml", "samlp", "ns1", "x-y", "p.q", "_z", "ds", "md", "n0", "n1", "n2", "n3", "n4", "n5"]
XML_NS = "http://www.w3.org/XML/1998/namespace"


def esc(s, rng, attr_quote=None, keep_cr=True):
    out = []
    for ch in s:
        if ch == "&":
            out.append(rng.choice(["&amp;", "&#38;", "&#x26;"]))
        elif ch == "<":
            out.append(rng.choice(["&lt;", "&#60;"]))
        elif ch == ">":
            out.append(rng.choice(["&gt;", ">"]) if attr_quote else "&gt;")
        elif ch == "\r":
            out.append(rng.choice(["&#13;", "&#xD;"]))
        elif attr_quote and ch in "\t\n":
            out.append("&#%d;" % ord(ch) if rng.random() < 0.5 else "&#x%X;" % ord(ch))
        elif attr_quote and ch == attr_quote:
            out.append("&quot;" if ch == '"' else "&apos;")
        elif ch in "\"'" and rng.random() < 0.2:
            out.append("&quot;" if ch == '"' else "&apos;")
        elif rng.random() < 0.03 and ch not in " \t\n":
            out.append("&#x%X;" % ord(ch))
        else:
            out.append(ch)
    return "".join(out)


def render_text(s, rng):
    if s == "":
        return rng.choice(["", "", "<!-- c -->", "<?pi d?>"])
    # split into chunks, each written escaped or as CDATA, comments in between
    chunks, i = [], 0
    while i < len(s):
        j = min(len(s), i + rng.randint(1, 6))
        chunks.append(s[i:j])
        i = j
    out = []
    for c in chunks:
        if rng.random() < 0.2 and "]]>" not in c and "\r" not in c:
            out.append("<![CDATA[%s]]>" % c)
        else:
            out.append(esc(c, rng))
        if rng.random() < 0.12:
            out.append(rng.choice(["<!-- note -->", "<!---->", "<?proc inst?>"]))
    return "".join(out)     # ">" is always written as &gt; outside CDATA, so no stray "]]>"


# ---- input forms: how one and the same document reaches the parser (the tree must not depend on it)
FORM_TABLE = [("str", [None, "", "UTF-8", "utf-8"]), ("utf-8", [None, "", "UTF-8"]), ("utf-8-sig", [None, "", "UTF-8"]),
              ("utf-16-le-bom", [None, "", "UTF-16", "utf-16"]), ("utf-16-be-bom", [None, "", "UTF-16", "utf-16"]),
              ("utf-16-le", [None, "", "UTF-16", "UTF-16LE"]), ("utf-16-be", [None, "", "UTF-16", "UTF-16BE"]),
              ("latin-1", ["ISO-8859-1", "iso-8859-1", "latin1"]), ("ascii", ["US-ASCII", "ascii"]),
              ("cp1252", ["windows-1252", "cp1252"])]
FORMS = [[e, d] for e, ds in FORM_TABLE for d in ds]
FALLBACK_FORM = ["utf-16-le-bom", "UTF-16"]      # for a document an 8-bit encoding cannot spell


def rand_form(rng):
    """Uniform over the encodings first (so that no encoding is rare), then over its declarations."""
    e, ds = rng.choice(FORM_TABLE)
    return [e, rng.choice(ds)]


def apply_form(body, form):
    """(payload, form used): body (a document without XML declaration) in the given input form."""
    import codecs

    e, d = form
    decl = "" if d is None else ('<?xml version="1.0"?>' if d == "" else '<?xml version="1.0" encoding="%s"?>' % d)
    text = decl + body
    if e == "str":
        return text, form
    if e == "utf-8-sig":
        return codecs.BOM_UTF8 + text.encode("utf-8"), form
    if e.endswith("-bom"):
        return (codecs.BOM_UTF16_LE if e == "utf-16-le-bom" else codecs.BOM_UTF16_BE) + text.encode(e[:-4]), form
    try:
        return text.encode(e), form
    except UnicodeEncodeError:
        return apply_form(body, FALLBACK_FORM)


def form_name(form):
    return "%s/%s" % (form[0], {None: "no-decl", "": "bare-decl"}.get(form[1], form[1]))


def render_doc(tree, rng, form=None):
    """A document whose infoset is [tree]; nothing here is shared with the library's writer.  form None: UTF-8
    bytes with a random XML declaration (the historical behaviour); else (payload, form used) of apply_form."""
    out = []
    decl = ""
    if rng.random() < 0.5:
        decl = rng.choice(['<?xml version="1.0" encoding="UTF-8"?>', "<?xml version='1.0'?>",
                           '<?xml version="1.0" encoding="utf-8" standalone="yes"?>\n'])
    if rng.random() < 0.2:
        out.append("<!-- before -->\n")
    counter = [0]

    def fresh(scope):
        for _ in range(50):
            p = rng.choice(PREFIXES)
            if p not in scope:
                return p
        counter[0] += 1
        return "q%d" % counter[0]

    def emit(node, scope, default):
        # scope: prefix -> ns ; default: ns|None
        ns, local = node["g"]
        decls = []
        scope = dict(scope)

        def prefix_for(n, allow_default):
            nonlocal default
            if n == XML_NS:
                return "xml"
            if allow_default and default == n and rng.random() < 0.7:
                return None
            cands = [p for p, u in scope.items() if u == n]
            if cands and rng.random() < 0.8:
                return rng.choice(cands)
            if allow_default and rng.random() < 0.35:
                default = n
                decls.append((None, n))
                return None
            p = fresh(scope)
            scope[p] = n
            decls.append((p, n))
            return p

        if ns is None:
            if default is not None:
                default = None
                decls.append((None, ""))
            qn = local
        else:
            p = prefix_for(ns, True)
            qn = local if p is None else "%s:%s" % (p, local)
        parts = []
        for (ans, alocal), v in node["a"]:
            if ans is None:
                an = alocal
            else:
                an = "%s:%s" % (prefix_for(ans, False), alocal)
            q = rng.choice(['"', "'"])
            parts.append("%s%s=%s%s%s%s" % (an, rng.choice(["", "", " "]), rng.choice(["", "", " "]), q, esc(v, rng, q), q))
        for p, u in decls:
            q = rng.choice(['"', "'"])
            d = "%s=%s%s%s" % ("xmlns" if p is None else "xmlns:" + p, q, esc(u, rng, q), q)
            parts.insert(rng.randrange(len(parts) + 1), d)
        head = "<" + qn + "".join(rng.choice([" ", "  ", "\n  "]) + x for x in parts) + rng.choice(["", "", " "])
        if not node["k"] and node["x"] == "" and rng.random() < 0.6:
            out.append(head + "/>")
            return
        out.append(head + ">")
        out.append(render_text(node["x"], rng))
        for k in node["k"]:
            emit(k, scope, default)
            r = rng.random()
            if r < 0.25:
                out.append(rng.choice(["\n", "\n  ", " ", "<!-- tail -->", "\n<?pi?>\n"]))
            elif r < 0.29:
                out.append("stray tail text")   # never read by the library (nor part of the tree model)
        out.append("</" + qn + rng.choice(["", " "]) + ">")

    emit(tree, {}, None)
    if rng.random() < 0.2:
        out.append("\n<!-- after -->")
    if form is None:
        return (decl + "".join(out)).encode("utf-8")
    return apply_form("".join(out), form)


# ---------------------------------------------------------------------------- implementation-only checks
ENTITY_DOCS = [
    ("entity-internal-text", '<!DOCTYPE r [<!ENTITY e "boom">]><r {NS}>&e;</r>'),
    ("entity-internal-attr", '<!DOCTYPE r [<!ENTITY e "boom">]><r {NS} Format="&e;"/>'),
    ("entity-declared-unused", '<!DOCTYPE r [<!ENTITY e "boom">]><r {NS}>x</r>'),
    ("entity-external-system", '<!DOCTYPE r [<!ENTITY e SYSTEM "file:///etc/passwd">]><r {NS}>&e;</r>'),
    ("entity-external-public", '<!DOCTYPE r [<!ENTITY e PUBLIC "-//X//Y" "http://127.0.0.1:9/x">]><r {NS}>&e;</r>'),
    ("entity-parameter", '<!DOCTYPE r [<!ENTITY % p "<!ENTITY e \'boom\'>"> %p;]><r {NS}>&e;</r>'),
    ("entity-unparsed", '<!DOCTYPE r [<!NOTATION n SYSTEM "n"><!ENTITY e SYSTEM "x" NDATA n>]><r {NS}/>'),
    ("entity-billion-laughs", '<!DOCTYPE r [<!ENTITY a "aaaaaaaaaa"><!ENTITY b "&a;&a;&a;&a;&a;&a;&a;&a;">'
                              '<!ENTITY c "&b;&b;&b;&b;&b;&b;&b;&b;"><!ENTITY d "&c;&c;&c;&c;&c;&c;&c;&c;">]><r {NS}>&d;</r>'),
    # round 2: other spellings of the same thing (a refusal must not hang on one byte pattern)
    ("entity-ws-newlines", '<!DOCTYPE\n r\t[\n<!ENTITY\n\te\n"boom"\n>\n]\n><r {NS}>&e;</r>'),
    ("entity-single-quotes", "<!DOCTYPE r [<!ENTITY e 'boom'>]><r {NS} Format='&e;'>&e;</r>"),
    ("entity-nested-foreign", '<!DOCTYPE r [<!ENTITY a "boom"><!ENTITY e "&a;&a;">]><r {NS}><f:x xmlns:f="urn:x-verif:foreign" '
                              'y="&e;">&e;</f:x></r>'),
    ("entity-attlist-default", '<!DOCTYPE r [<!ENTITY e "boom"><!ATTLIST r Format CDATA "&e;">]><r {NS}>x</r>'),
    ("entity-after-comment-in-dtd", '<!DOCTYPE r [<!-- <!ELEMENT r ANY> --><!ENTITY e "boom">]><r {NS}>&e;</r>'),
]
# what may stand between the XML declaration and the DOCTYPE (a refusal must not hang on the head of the document)
ENTITY_PADS = ["", "\n", "<!-- pad -->", "<!--" + " pad" * 300 + " -->\n", "<!--" + " pad" * 2000 + " -->\n<?pi x?>\n",
               " " * 70000 + "\n"]
MALFORMED_DOCS = [
    ("malformed-unclosed", "<r {NS}><x></r>"),
    ("malformed-two-roots", "<r {NS}/><r {NS}/>"),
    ("malformed-dup-attr", '<r {NS} a="1" a="2"/>'),
    ("malformed-undeclared-prefix", "<r {NS}><q:x/></r>"),
    ("malformed-undefined-entity", "<r {NS}>&nosuch;</r>"),
    ("malformed-control-char", "<r {NS}>\x01</r>"),
    ("malformed-empty", ""),
    ("malformed-text-only", "hello"),
]
IMPL_CLASSES = ["saml2.saml.NameID", "saml2.saml.Issuer", "saml2.samlp.Response", "saml2.md.EntityDescriptor",
                "saml2.saml.AttributeValue", "saml2.xmldsig.KeyInfo"]


def impl_doc(idx, template):
    """idx None: the document for saml2.extension_element_from_string (any root will do)."""
    ns, local = tab().classes[idx].tag if idx is not None else (FOREIGN_NS[0], "ext")
    return template.replace("<r ", "<%s " % local).replace("</r>", "</%s>" % local).replace("DOCTYPE r", "DOCTYPE %s" % local) \
        .replace("DOCTYPE\n r", "DOCTYPE\n %s" % local).replace("ATTLIST r ", "ATTLIST %s " % local) \
        .replace("{NS}", 'xmlns="%s"' % ns)


def dtd_less(doc):
    """The control of an entity-declaring document: the same document without DOCTYPE, references spelled out."""
    import re

    return re.sub(r"&[A-Za-z]\w*;", "boom", re.sub(r"<!DOCTYPE.*?\]\s*>", "", doc, flags=re.S))


def entry_parse(case, payload):
    """('ok'|'none'|'raise', exception name) of the entry point the case names on payload."""
    if case.get("entry") == "ee":
        import saml2

        try:
            o = saml2.extension_element_from_string(payload)
        except Exception as e:  # noqa: BLE001
            return ("raise", type(e).__name__)
        return ("ok" if o is not None else "none", None)
    return lib_parse(case["c"], payload)[:2]


def observe_entity(case):
    """An entity-declaring document in an input form: refused?  The control (same form, no DTD) says whether a
    refusal means anything."""
    form = case.get("form") or ["utf-8", None]
    pad = ENTITY_PADS[case.get("pad", 0)]
    r = entry_parse(case, apply_form(pad + case["doc"], form)[0])
    c = entry_parse(case, apply_form(pad + dtd_less(case["doc"]), form)[0])
    return {"ok": r[0] == "raise", "detail": r[1] if r[0] == "raise" else r[0], "control": c[0],
            "form": form_name(form)}


def observe_impl(case):
    idx = case["c"]
    what = case["what"]
    if what.startswith("entity-") and "form" in case:
        return observe_entity(case)
    if what.startswith("entity-") or what.startswith("malformed-"):
        r = lib_parse(idx, case["doc"].encode("utf-8"))
        return {"ok": r[0] == "raise", "detail": r[1] if r[0] == "raise" else r[0]}
    if what == "dtd-only":
        r = lib_parse(idx, case["doc"].encode("utf-8"))
        return {"ok": True, "detail": "accepted" if r[0] == "ok" else r[0]}    # recorded, no requirement
    if what == "deep":
        n = case["n"]
        rec = tab().classes[idx]
        ns, local = rec.tag
        doc = '<%s xmlns="%s">' % (local, ns) + "<e xmlns='urn:deep'>" * n + "</e>" * n + "</%s>" % local
        r = lib_parse(idx, doc.encode("utf-8"))
        if r[0] == "raise":
            return {"ok": True, "detail": "refused:" + r[1]}
        if r[0] != "ok" or len(r[2].extension_elements) != 1:
            return {"ok": False, "detail": "lost"}
        d, e = 0, r[2].extension_elements[0]
        while True:
            d += 1
            if not e.children:
                break
            e = e.children[0]
        return {"ok": d == n, "detail": "read:%d" % d}
    if what == "av-root-xs":
        # finding class 4: an AttributeValue that is the document root and uses the XMLSchema namespace in a name
        rec = tab().classes[idx]
        av = rec.cls(text="x")
        av.extension_attributes["{%s}foo" % XS] = "1"
        s = av.to_string()
        try:
            ET.fromstring(s)
            return {"ok": True, "detail": "well-formed"}
        except ET.ParseError:
            return {"ok": False, "detail": "not well-formed"}
    if what == "many":
        return observe_many(case)
    if what == "av-unmodelled":
        r = lib_parse(idx, case["doc"].encode("utf-8"))
        if r[0] != "ok":
            return {"ok": r[0] == "raise", "detail": r[0]}
        s2 = r[2].to_string()
        r2 = lib_parse(idx, s2)
        if r2[0] != "ok":
            return {"ok": False, "detail": "second parse " + r2[0]}
        same = abs_obj(r2[2]) == abs_obj(r[2]) and r2[2].to_string() == s2
        return {"ok": same, "detail": "stable" if same else "unstable", "text": r[2].text}
    raise ValueError(what)


# ---------------------------------------------------------------------------- repeatable children (round 7)
# WHETHER a child member holds a list was, until round 7, read off the very table under test (the brackets of the
# c_children entry): generator, model and spec all followed a table whose entry had lost its brackets, and a
# singleton member legitimately keeps the last occurrence only.  Multiplicity now has oracles that do not look at
# the brackets: the XML Schema files (maxOccurs of the particle or of an enclosing group), c_cardinality (no "max"
# or max > 1) and what the constructor stores for an absent argument (a list).  For every child member ANY of the
# four sources calls repeatable, n = 1, 2, 3 (and above a small cap) marked occurrences are put in - as an instance
# built with a list, and as an independently written document - and must all come back, as a list, in document
# order, nothing surfacing as extension, the next serialisation byte-identical.
MARK_NS = "urn:verif:c12:mark"
MARK = "{%s}i" % MARK_NS
# finding class 11 (C12-F11, open): members the schema files declare repeatable and the generated class holds as ONE object,
# consistently (table, c_cardinality, constructor).  Listed by name: any OTHER member only the schema calls repeatable is
# reported as a violation.
XSD_ONLY_KNOWN = {(c, m) for c in ("saml2.xmldsig.X509DataType_", "saml2.xmldsig.X509Data")
                  for m in ("x509_issuer_serial", "x509_ski", "x509_subject_name", "x509_certificate", "x509_crl")}


def repeatable_members():
    """[(class index, child tag, member, child class index, [oracles that say repeatable])]"""
    t = tab()
    xsd_ranks()
    out = []
    for i, r in enumerate(t.classes):
        if r.kind != "plain":
            continue
        card = {m: (a, b) for m, a, b in r.cardinality}
        try:
            fresh = r.cls()
        except Exception:  # noqa: BLE001
            fresh = None
        for tag, m, k, lst in r.children:
            if k is None:
                continue
            why = []
            if lst:
                why.append("c_children")
            if m in card and (card[m][1] is None or card[m][1] > 1):
                why.append("c_cardinality")
            if fresh is not None and isinstance(getattr(fresh, m, None), list):
                why.append("constructor")
            if i in _XSD_REP and tuple(tag) in _XSD_REP[i]:
                why.append("xsd")
            if why:
                out.append((i, tag, m, k, why))
    return out


def generate_many(ctx, cases, rng):
    for i, tag, m, k, why in repeatable_members():
        r = tab().classes[i]
        agreed = "c_children" in why and len(why) >= 2
        if r.core or not agreed or ctx.thorough:
            ns = [1, 2, 3] + ([33] if ctx.thorough or not agreed or rng.random() < 0.1 else [])
        else:
            ns = [rng.choice([2, 3])]
        for n in ns:
            cases.append({"kind": "impl", "c": i, "what": "many", "member": m, "tag": list(tag), "k": k, "n": n, "why": why,
                          "rseed": rng.getrandbits(32)})


def observe_many(case):
    import random
    from xml.sax.saxutils import quoteattr

    idx, m, n = case["c"], case["member"], case["n"]
    rec, krec = tab().classes[idx], tab().classes[case["k"]]
    want = [str(j) for j in range(n)]
    bad = []
    av = krec.kind == "attrvalue"        # an AttributeValue child carries its mark as text (its foreign attributes: recipes, round 5)

    def marks(o, label):
        v = getattr(o, m, None)
        if not isinstance(v, list):
            # the SHAPE is demanded where the library itself declares a list (brackets, c_cardinality, constructor); where
            # only the schema files call the child repeatable a single object may hold a single occurrence
            if case["why"] != ["xsd"]:
                bad.append("%s: member %s is %s, not a list" % (label, m, type(v).__name__))
            v = [] if v is None else [v]
        got = [x.text if av else getattr(x, "extension_attributes", {}).get(MARK) for x in v]
        if got != want:
            bad.append("%s: %d occurrence(s) put in, member %s holds %r" % (label, n, m, got))
        if o.extension_elements:
            bad.append("%s: %d extension element(s)" % (label, len(o.extension_elements)))

    def parse(b, label):
        r = lib_parse(idx, b)
        if r[0] != "ok":
            bad.append("%s: parse %s %s" % (label, r[0], r[1] or ""))
            return None
        marks(r[2], label)
        return r[2]

    # (1) an instance built with a list of n marked children
    kids = [krec.cls(text=str(j)) if av else krec.cls(extension_attributes={MARK: str(j)}) for j in range(n)]
    try:
        inst = rec.cls(**{m: kids})
    except TypeError:
        inst = rec.cls()
        setattr(inst, m, kids)
    s1 = to_string(inst, "a built instance")
    tags = [clark(c["g"]) for c in read(s1)["k"]]
    if tags != [clark(case["tag"])] * n:
        bad.append("instance: to_string() wrote the children %r" % (tags[:6],))
    o1 = parse(s1, "instance")
    if o1 is not None:       # byte identity is judged by the rt cases (a child may gain a schema default); here: nothing is lost again
        parse(to_string(o1, "a parsed instance"), "instance, second serialisation")
    # (2) an independently written document with n marked children (seeded prefix / default-namespace spelling)
    prng = random.Random(case["rseed"])
    (pns, plocal), (cns, clocal) = rec.tag, case["tag"]
    pfx = prng.choice(["", "a", "ns0", "x"])
    cp = prng.choice(["k", "ns1", "c_"]) if (cns != pns or prng.random() < 0.4) else pfx
    decl = ' xmlns%s=%s' % (":" + pfx if pfx else "", quoteattr(pns)) + \
           ('' if cp == pfx else ' xmlns:%s=%s' % (cp, quoteattr(cns))) + ' xmlns:vm=%s' % quoteattr(MARK_NS)
    pq = (pfx + ":" if pfx else "") + plocal
    cq = (cp + ":" if cp else "") + clocal
    sep = prng.choice(["", "\n  ", " "])
    doc = "<%s%s>%s%s</%s>" % (pq, decl, "".join(
        '%s<%s vm:i="%d"%s' % (sep, cq, j, ">%d</%s>" % (j, cq) if av else prng.choice(["/>", "></%s>" % cq]))
        for j in range(n)), sep.rstrip(" "), pq)
    o2 = parse(doc.encode("utf-8"), "document")
    if o2 is not None:
        s2 = to_string(o2, "a parsed instance")
        parse(s2, "document, re-parsed")
    return {"ok": not bad, "detail": "all-kept" if not bad else "; ".join(bad)[:600], "doc": doc if n <= 3 else doc[:300]}


# ---------------------------------------------------------------------------- generate / observe
def generate(ctx):
    if _TABLE_ERROR is not None:
        return lite_cases(ctx.rng, 6 if ctx.thorough else 3)
    rng = ctx.rng
    t = tab()
    cases = []
    core = [i for i, r in enumerate(t.classes) if r.core]
    extra = [i for i, r in enumerate(t.classes) if not r.core]
    modes_core = ["min", "rand", "hostile"] + (["rand", "hostile"] * 5 if ctx.thorough else [])
    for i in core:
        for mode in modes_core:
            spec = gen_spec(rng, i, 4, mode, [14])
            cases.append({"kind": "rt", "c": i, "mode": mode, "spec": spec})
    for i in extra:
        for mode in (["rand", "hostile"] * 2 if ctx.thorough else [rng.choice(["rand", "hostile"])]):
            cases.append({"kind": "rt", "c": i, "mode": mode, "spec": gen_spec(rng, i, 4, mode, [10])})
    # every schema attribute present with the EMPTY string (present-but-empty must not become absent)
    for i, r in enumerate(t.classes):
        if r.attributes and r.kind == "plain" and (r.core or ctx.thorough or rng.random() < 0.3):
            cases.append({"kind": "rt", "c": i, "mode": "empty", "spec": gen_spec(rng, i, 1, "empty", [4])})
            tree = {"g": list(r.tag), "a": [[list(n), ""] for n, _m, _t, _r in r.attributes], "x": "", "k": []}
            cases.append({"kind": "doc", "c": i, "tree": tree, "rseed": rng.getrandbits(32), "root": "own"})
    # carriage returns in character data (finding class 2)
    for i in rng.sample(core, 200 if ctx.thorough else 12):
        cases.append({"kind": "rt", "c": i, "mode": "cr", "spec": gen_spec(rng, i, 2, "cr", [8])})
    # documents
    for i in core:
        for _ in range(8 if ctx.thorough else 2):
            tree = gen_doc(rng, i, 4, [14])
            cases.append({"kind": "doc", "c": i, "tree": tree, "rseed": rng.getrandbits(32), "root": "own"})
    for i in (extra + extra if ctx.thorough else rng.sample(extra, 120)):
        cases.append({"kind": "doc", "c": i, "tree": gen_doc(rng, i, 3, [10]), "rseed": rng.getrandbits(32), "root": "own"})
    for i in rng.sample(core, 40 if ctx.thorough else 8):
        cases.append({"kind": "doc", "c": i, "tree": gen_doc(rng, i, 2, [8], True, cr=True), "rseed": rng.getrandbits(32),
                      "root": "own"})
    # root element that is not the class's element
    for i in rng.sample(core, 300 if ctx.thorough else 40):
        tree = gen_doc(rng, i, 1, [5])
        k = rng.random()
        if k < 0.4:
            tree["g"] = [rng.choice(FOREIGN_NS[:4]), tree["g"][1]]
        elif k < 0.7:
            tree["g"] = [tree["g"][0], tree["g"][1] + "x"]
        else:
            tree["g"] = [None, tree["g"][1]]
        cases.append({"kind": "doc", "c": i, "tree": tree, "rseed": rng.getrandbits(32), "root": "other"})
    # AttributeValue: the typing table, complete
    av = [i for i, r in enumerate(t.classes) if r.kind == "attrvalue"]
    for i in av:
        rec = t.classes[i]
        for typ in AV_DOC_TYPES:
            for text in AV_DOC_TEXTS:
                for nil, ext in ((None, False), ("true", False), (None, True)):
                    if not ctx.thorough and (nil, ext) != (None, False) and rng.random() > 0.2:
                        continue
                    node = gen_av_doc(rng, i, {"g": list(rec.tag), "a": [], "x": "", "k": []}, [], False, typ, text, nil, ext)
                    cases.append({"kind": "doc", "c": i, "tree": node, "rseed": rng.getrandbits(32), "root": "own", "av": True})
        for _ in range(1000 if ctx.thorough else 40):
            spec = gen_av_spec(rng, i, rng.choice(["rand", "hostile"]), True)
            cases.append({"kind": "rt", "c": i, "mode": "av", "spec": spec})
        # inside an Attribute
    # wide document
    wide_c = t.by_name["saml2.saml.AttributeStatement"]
    wrec = t.classes[wide_c]
    attr_tag = [q for q, m, _k, _l in wrec.children if m == "attribute"][0]
    n = 3000 if ctx.thorough else 400
    wide = {"g": list(wrec.tag), "a": [], "x": "", "k": [
        {"g": list(attr_tag), "a": [[[None, "Name"], "n%d" % j]], "x": "", "k": []} if j % 3 else
        {"g": [FOREIGN_NS[0], "ext"], "a": [], "x": "e%d" % j, "k": []} for j in range(n)]}
    cases.append({"kind": "doc", "c": wide_c, "tree": wide, "rseed": 1, "root": "own", "wide": True})
    # implementation-only
    for name in IMPL_CLASSES:
        i = t.by_name[name]
        for what, tpl in ENTITY_DOCS + MALFORMED_DOCS:
            cases.append({"kind": "impl", "c": i, "what": what, "doc": impl_doc(i, tpl)})
        cases.append({"kind": "impl", "c": i, "what": "dtd-only", "doc": impl_doc(i, '<!DOCTYPE r [<!ELEMENT r ANY>]><r {NS}>x</r>')})
        cases.append({"kind": "impl", "c": i, "what": "deep", "n": 150})
        cases.append({"kind": "impl", "c": i, "what": "deep", "n": 5000})
    for i in av:
        cases.append({"kind": "impl", "c": i, "what": "av-root-xs"})
    for i in av:
        rec = t.classes[i]
        for typ, texts in (("xs:float", ["1.5", "1e3", "nan", " 2 ", "abc", "1_0.5"]), ("xs:double", ["0.1", "-0", "inf"]),
                           ("xs:date", ["2024-02-29", "2023-02-29", "2024-1-5", "24-01-05", "2024-01-05x"])):
            for x in texts:
                doc = '<v xmlns="%s" xmlns:xsi="%s" xmlns:xs="%s" xsi:type="%s">%s</v>' % (rec.tag[0], XSI, XS, typ, x)
                doc = doc.replace("<v ", "<%s " % rec.tag[1]).replace("</v>", "</%s>" % rec.tag[1])
                cases.append({"kind": "impl", "c": i, "what": "av-unmodelled", "doc": doc})
    generate_round2(ctx, cases)
    return spread(cases, "seq")


def spread(cases, kind):
    """The cases of one kind distributed evenly over the list (their terms are several times larger than the others':
    at the end of the list they would all land in one shard of the Coq evaluation, which then runs alone)."""
    big = [c for c in cases if c["kind"] == kind]
    rest = [c for c in cases if c["kind"] != kind]
    if not big or not rest:
        return cases
    every = max(1, len(rest) // len(big))
    out = []
    for n, c in enumerate(rest):
        out.append(c)
        if n % every == every - 1 and big:
            out.append(big.pop(0))
    return out + big


def pick_pad(rng, form):
    if rng.random() < 0.5:
        return 0
    # UTF-16 without BOM and without declaration is only recognisable when the document starts with "<"
    ok = [j for j, p in enumerate(ENTITY_PADS) if p[:1] in ("", "<") or not (form[0] in ("utf-16-le", "utf-16-be") and form[1] is None)]
    return rng.choice(ok)


def generate_round2(ctx, cases):
    """Dimensions added after seeded changes C12-3 / C12-4 were missed.  Uses its own PRNG (seeded from ctx.rng after
    everything else was drawn), so the cases above are what they were before."""
    import random

    rng = random.Random(ctx.rng.getrandbits(64))
    t = tab()
    ranked = xsd_ranks()[0]
    # (a) every child member of a class present at once: instance + independently rendered document
    for i, r in enumerate(t.classes):
        if r.kind != "plain" or sum(1 for _t, _m, k, _l in r.children if k is not None) < 2:
            continue
        if not (r.core or i in ranked or ctx.thorough or rng.random() < 0.25):
            continue
        for _ in range(3 if ctx.thorough else 1):
            cases.append({"kind": "rt", "c": i, "mode": "full", "spec": gen_full_spec(rng, i)})
            cases.append({"kind": "doc", "c": i, "tree": gen_full_doc(rng, i), "rseed": rng.getrandbits(32), "root": "own",
                          "form": rand_form(rng), "full": True})
    # (b) the input form of the documents above: half of them keep the historical form (UTF-8 bytes)
    for c in cases:
        if c["kind"] == "doc" and "form" not in c and not c.get("wide") and rng.random() < 0.5:
            c["form"] = rand_form(rng)
    # (c) entity-declaring documents x input form x padding x entry point
    def entity(i, what, tpl, form, entry="cls"):
        cases.append({"kind": "impl", "c": i, "what": what, "doc": impl_doc(None if entry == "ee" else i, tpl),
                      "form": form, "pad": pick_pad(rng, form), "entry": entry})

    listed = [t.by_name[n] for n in IMPL_CLASSES]
    for what, tpl in ENTITY_DOCS:
        for form in FORMS:                                      # complete for one class and (sampled) for ExtensionElement
            entity(listed[0], what, tpl, form)
            if ctx.thorough or rng.random() < 0.35:
                entity(listed[0], what, tpl, form, "ee")
        for i in listed[1:]:
            for form in (FORMS if ctx.thorough else [rand_form(rng) for _ in range(4)]):
                entity(i, what, tpl, form)
    for i, r in enumerate(t.classes):                           # every <module>.<element>_from_string once
        if r.core or ctx.thorough:
            for _ in range(4 if ctx.thorough else 1):
                what, tpl = rng.choice(ENTITY_DOCS)
                entity(i, what, tpl, rand_form(rng))
    generate_round3(ctx, cases, random.Random(rng.getrandbits(64)))
    generate_round5(ctx, cases, random.Random(rng.getrandbits(64)))
    generate_live(ctx, cases, random.Random(rng.getrandbits(64)))
    generate_seq(ctx, cases, random.Random(rng.getrandbits(64)))
    generate_many(ctx, cases, random.Random(rng.getrandbits(64)))


def generate_round3(ctx, cases, rng):
    """Dimension added after seeded change C12-6 was missed: foreign names in the NEIGHBOURHOOD of the schema names
    (alike_names).  Own PRNG, drawn after everything else: the earlier cases are what they were."""
    t = tab()
    for i, r in enumerate(t.classes):
        if not (r.attributes or r.children or r.kind == "attrvalue"):
            continue
        reps = (3 if ctx.thorough else 1) * (3 if r.kind == "attrvalue" else 1)
        for _ in range(reps):
            if (r.core and (r.attributes or r.kind == "attrvalue" or rng.random() < 0.5)) or ctx.thorough or rng.random() < 0.06:
                kinds = []
                spec = gen_alike_spec(rng, i, 1 if ctx.thorough else 0, kinds)
                cases.append({"kind": "rt", "c": i, "mode": "alike", "spec": spec, "alike": kinds})
            if r.core or ctx.thorough or rng.random() < 0.12:
                kinds = []
                tree = gen_alike_doc(rng, i, 1, kinds)
                case = {"kind": "doc", "c": i, "tree": tree, "rseed": rng.getrandbits(32), "root": "own", "alike": kinds}
                if rng.random() < 0.5:
                    case["form"] = rand_form(rng)
                cases.append(case)


# ---------------------------------------------------------------------------- live names (round 5)
# Foreign children / attributes whose expanded name is REGISTERED BY ANOTHER LIVE CLASS: a child or attribute of a
# relative (a class that shares a base class with this one - the generated classes copy their tables from the
# base class, so a relative's name is what a shared or wrongly copied table brings along), the tag of a class of the
# same namespace, the tag of a class of another live namespace.  alike_names() (round 3) only walks the
# neighbourhood of the class's OWN names; foreign_name() only draws from made-up pools.
_REL = None


def relatives():
    """[set of class indexes] per class: the classes that share a base class other than the common roots."""
    global _REL
    if _REL is None:
        t = tab()
        roots = set()
        for r in t.classes:
            for b in r.cls.__mro__:
                if b.__name__ in ("SamlBase", "ExtensionContainer", "AttributeValueBase", "object") and b not in t.index:
                    roots.add(b)
        bases = [set(r.cls.__mro__) - roots for r in t.classes]
        by_base = {}
        for i, bs in enumerate(bases):
            for b in bs:
                by_base.setdefault(b, set()).add(i)
        _REL = [set().union(*[by_base[b] for b in bs]) - {i} for i, bs in enumerate(bases)]
    return _REL


def live_names(rng, i, element):
    """[(expanded name, kind, class index of the element's content | None)], shuffled; relatives first."""
    t = tab()
    rec = t.classes[i]
    known = {tuple(q) for q, _m, _k, _l in rec.children} if element else {tuple(q) for q, _m, _t, _r in rec.attributes}
    out, seen = [], set(known)
    if rec.kind == "attrvalue" and not element:
        seen |= set(AV_MANAGED)

    def add(q, kind, k):
        q = tuple(q)
        if q not in seen and not (rec.kind == "attrvalue" and q[0] in (XSI, XS)):
            seen.add(q)
            out.append((q, kind, k))

    rel = sorted(relatives()[i])
    rng.shuffle(rel)
    for j in rel:
        r2 = t.classes[j]
        if element:
            for q, _m, k, _l in r2.children:
                add(q, "relative", k)
        else:
            for q, _m, _t, _r in r2.attributes:
                add(q, "relative", None)
    n_rel = len(out)
    others = list(range(len(t.classes)))
    rng.shuffle(others)
    same = other = 0
    for j in others:
        r2 = t.classes[j]
        if not r2.core:
            continue
        if element:
            if r2.tag[0] == rec.tag[0] and same < 3:
                n = len(out)
                add(r2.tag, "same-ns", j)
                same += len(out) - n
            elif r2.tag[0] != rec.tag[0] and other < 2:
                n = len(out)
                add(r2.tag, "other-ns", j)
                other += len(out) - n
        else:
            for q, _m, _t, _r in r2.attributes[:2]:
                if same + other < 4:
                    n = len(out)
                    add(q, "same-ns" if r2.tag[0] == rec.tag[0] else "other-ns", None)
                    same += len(out) - n
        if same >= 3 and other >= 2:
            break
    head, tail = out[:n_rel], out[n_rel:]
    rng.shuffle(head)
    rng.shuffle(tail)
    return head + tail


def ee_of_doc(node):
    return {"ns": node["g"][0], "tag": node["g"][1], "a": node["a"], "k": [ee_of_doc(k) for k in node["k"]],
            "x": node["x"] or None}


def live_tree(rng, q, k):
    """A child element named q with the content an element of class k would have (the stray member such a child is
    stored in must be able to take it); bare when the name has no class."""
    if k is None:
        return {"g": list(q), "a": [], "x": rng.choice(["", "kept"]), "k": []}
    node = gen_doc(rng, k, 1, [4], hostile=False)
    node["g"] = list(q)
    return node


def pick_live(rng, i, element, n):
    names = live_names(rng, i, element)
    rel = [x for x in names if x[1] == "relative"]
    rest = [x for x in names if x[1] != "relative"]
    k = min(len(rel), max(1, (n + 1) // 2))
    got = rel[:k] + rest[:max(0, n - k)]
    rng.shuffle(got)
    return got


def gen_live_spec(rng, i, kinds):
    rec = tab().classes[i]
    if rec.kind == "attrvalue":
        spec = gen_av_spec(rng, i, "rand", False)
        spec["xa"], spec["xa_first"] = [], True
        if not spec["x"]:
            spec["e"] = spec["e"] or [rand_ee(rng, 0, False, rec)]
    else:
        spec = gen_spec(rng, i, 0, "rand", [99])
        dflt = {m for m, _v in rec.parse_defaults}
        spec["a"] = [[m, "v-" + m] for _n, m, _t, req in rec.attributes if req or m in dflt or rng.random() < 0.5]
        spec["xa"], spec["e"], spec["k"] = [], [], []
        if spec["x"] == "":
            spec["x"] = None
    if not (rec.kind == "attrvalue" and spec["x"]):
        for q, kind, k in pick_live(rng, i, True, rng.choice([1, 2, 2])):
            spec["e"].append(ee_of_doc(live_tree(rng, q, k)))
            kinds.append("elem " + kind)
    for q, kind, _k in pick_live(rng, i, False, rng.choice([1, 2])):
        spec["xa"].append([list(q), "x-" + rand_text(rng, False)])
        kinds.append("attr " + kind)
    return spec


def gen_live_doc(rng, i, kinds):
    rec = tab().classes[i]
    node = gen_doc(rng, i, 1, [6], hostile=False)
    kids = list(node["k"])
    if not (rec.kind == "attrvalue" and node["x"].strip()):
        for q, kind, k in pick_live(rng, i, True, rng.choice([1, 2, 2])):
            kids.insert(rng.randrange(len(kids) + 1), live_tree(rng, q, k))
            kinds.append("elem " + kind)
    node["k"] = kids
    have = [a[0] for a in node["a"]]
    for q, kind, _k in pick_live(rng, i, False, rng.choice([1, 2])):
        if list(q) not in have:
            node["a"].insert(rng.randrange(len(node["a"]) + 1), [list(q), "x-" + rand_text(rng, False)])
            kinds.append("attr " + kind)
    return node


R5_VALUES = [["absent"], ["none"], ["str", ""], ["str", " "], ["str", "abc"], ["str", " a b "], ["str", "\n"], ["str", "0"],
             ["str", "007"], ["str", "true"], ["str", "<&>\"'"], ["str", "\u00e9"], ["str", "\U0001f600"], ["bytes", ""],
             ["bytes", "by"], ["bytes", "\u00e9"], ["int", "0"], ["int", "7"], ["int", "-12"], ["int", "1" + "0" * 30],
             ["bool", False], ["bool", True], ["float", "0.0"], ["float", "-0.0"], ["float", "1.5"], ["float", "1e+22"],
             ["float", "nan"]]
R5_ARGS = [None, [[[XSI, "type"], "xs:string"]], [[[XSI, "type"], "xs:integer"]], [[[None, "foo"], "bar"]],
           [[[XSI, "nil"], "true"]], [[[XSI, "type"], "xsd:string"], [[FOREIGN_NS[0], "lang"], ""]]]
R5_TYPES = ["xs:string", "xs:integer", "xs:boolean", "xs:anyType", "xs:base64Binary", "xsd:string", "xsd:integer", "my:type",
            "string", "integer", "boolean", "plain", "", "xs:float", "xs:", "anyType", "xsd:anyType"]
R5_TYPED_TEXTS = {"integer": ["7", " 42 ", "abc", ""], "boolean": ["TRUE", "yes", ""], "float": ["1.5"]}


def r5_text(rng):
    """Hostile text whose outer characters are not NON-ASCII white space (str.strip() is restated for ASCII only)."""
    for _ in range(20):
        x = rand_text(rng, hostile=True)
        if x.strip() == x.strip(" \t\n\r\x0b\x0c"):
            return x
    return "abc"


def generate_round5(ctx, cases, rng):
    """Dimension added after seeded change C12-8 was missed: HOW an AttributeValue instance is built (recipes, see
    build_recipe).  Own PRNG, drawn after everything else: the earlier cases are what they were.
      (a) the constructor alone, complete: text value (None / str / bytes / int / bool / float, boundary values of
          each) x extension_attributes argument, without extension elements; x extension elements (none given,
          an empty list, one element) with a seeded argument;
      (b) a fresh instance, then set_text(v) / .text = v for every value, both spellings;
      (c) a fresh instance, set_type(t), set_text(v): every type spelling x texts that fit / do not fit the type;
      (d) seeded recipes: any constructor call followed by one of the call patterns
          [xa* type? text xa*] / [text text] / [type] / [xa] / [clear_type text] / [text clear_type text]."""
    t = tab()

    def ee1():
        return rand_ee(rng, 1, False, t.classes[i])

    def xa1():
        q = foreign_name(rng, t.classes[i], element=False)
        return ["xa", list(q), rand_value(rng, False)]

    def ctor(v, ext, arg):
        return {"text": v, "ext": ext, "arg": arg, "ops": []}

    def add(rc, why):
        cases.append({"kind": "rtb", "c": i, "recipe": rc, "why": why})

    for i, r in enumerate(t.classes):
        if r.kind != "attrvalue":
            continue
        for v in R5_VALUES:                                             # (a)
            for arg in R5_ARGS:
                add(ctor(v, None, arg), "ctor")
            add(ctor(v, "empty", rng.choice(R5_ARGS)), "ctor")
            for _ in range(2):
                add(ctor(v, [ee1()], rng.choice(R5_ARGS)), "ctor+ext")
        for v in R5_VALUES[1:]:                                         # (b)
            for how in ("call", "attr"):
                rc = ctor(["absent"], None, None)
                rc["ops"] = [["text", v, how]]
                add(rc, "fresh;text")
        for typ in R5_TYPES:                                            # (c)
            base = typ.split(":")[-1]
            for x in R5_TYPED_TEXTS.get(base, ["abc", ""]) + [None]:
                rc = ctor(["absent"], None, None)
                rc["ops"] = [["type", typ]] + ([["text", ["str", x], rng.choice(["call", "attr"])]] if x is not None else [])
                add(rc, "fresh;type;text")
            # every Python type of the value under every type spelling (one of the four was drawn at random until the
            # thorough tier met set_type("xs:anyType"); set_text(None) - finding C12-F10 - which the quick tier's draw missed;
            # the draw is kept first so that the seeded recipes below are what they were)
            nonstr = [["int", "7"], ["bool", True], ["none"], ["float", "1.5"]]
            first = rng.choice(nonstr)
            for v in [first] + [x for x in nonstr if x != first]:
                rc = ctor(["absent"], None, None)
                rc["ops"] = [["type", typ], ["text", v, "call"]]
                add(rc, "fresh;type;text")
            if base == "anyType":       # ... and None next to extension elements / through the attribute spelling
                for ext, how in ((None, "attr"), ([ee1()], "call")):
                    rc = ctor(["absent"], ext, None)
                    rc["ops"] = [["type", typ], ["text", ["none"], how]]
                    add(rc, "fresh;type;text")
        for _ in range(600 if ctx.thorough else 140):                   # (d)
            rc = ctor(rng.choice(R5_VALUES), rng.choice([None, None, "empty", [ee1()]]), rng.choice(R5_ARGS))
            pat = rng.choice(["xts", "xts", "tsx", "sx", "ss", "t", "x", "s", "cs", "c", "scs"])
            ops = []
            for ch in pat:
                if ch == "x":
                    ops += [xa1() for _ in range(rng.randint(1, 2))]
                elif ch == "t":
                    ops.append(["type", rng.choice(R5_TYPES)])
                elif ch == "c":
                    ops.append(["clear"])
                else:
                    v = rng.choice(R5_VALUES[1:]) if rng.random() < 0.6 else ["str", r5_text(rng)]
                    ops.append(["text", v, rng.choice(["call", "attr"])])
            rc["ops"] = ops
            add(rc, "seeded:" + pat)


def generate_live(ctx, cases, rng):
    """Dimension added after seeded change C12-7 (detected only by the fail-closed table translator, without a failing
    input): foreign children / attributes that carry a name REGISTERED BY ANOTHER LIVE CLASS (live_names): every core
    class that has relatives with names of their own (one instance + one independently rendered document), a quarter
    of the other core classes with children or a content model, a few of the extras.  Which children a class knows
    is judged by the schema files (Corr.kept / Xsd.xsd_kept_b), not by the table."""
    t = tab()
    ranked = xsd_ranks()[0]
    for i, r in enumerate(t.classes):
        has_rel = any(x[1] == "relative" for x in live_names(rng, i, True) + live_names(rng, i, False))
        if r.core and has_rel:
            reps = 3 if ctx.thorough else 1
        elif ctx.thorough or (r.core and (r.children or i in ranked) and rng.random() < 0.25) or rng.random() < 0.02:
            reps = 1
        else:
            continue
        for _ in range(reps):
            kinds = []
            cases.append({"kind": "rt", "c": i, "mode": "live", "spec": gen_live_spec(rng, i, kinds), "alike": kinds})
            kinds = []
            case = {"kind": "doc", "c": i, "tree": gen_live_doc(rng, i, kinds), "rseed": rng.getrandbits(32), "root": "own",
                    "alike": kinds, "live": True}
            if rng.random() < 0.3:
                case["form"] = rand_form(rng)
            cases.append(case)


# ---------------------------------------------------------------------------- histories (round 5, second pass)
# Every case above serialises an instance ONCE, through to_string() without arguments, in a process whose prefix
# registry (xml.etree.ElementTree._namespace_map, process-global) nobody ever touched.  The other serialisation entry
# points of SamlBase - to_string(nspair) / register_prefix(nspair) (the nsprefix feature of the request builders),
# to_string_force_namespace(nspair), get_xml_string_with_self_contained_assertion_within_encrypted_assertion() (the
# step before encryption) - and what they leave behind were never exercised: that serialising leaves the INSTANCE as it
# was (the built ElementTree is edited in place by the prefix rewriting), that the same instance serialised again, later
# and next to other instances, is the same document, and that the REGISTRY stays usable whatever prefixes were asked
# for (the same prefix for another namespace later on; a prefix of the form ElementTree hands out itself).
# A history: 1-3 long-lived instances (foreign elements with namespace-qualified attributes at every depth, all drawing
# on one small pool of foreign namespaces so that instances COMBINE namespaces), 2-8 calls.  The registry is reset to
# what it was before and after every case (cases stay independent; observe() runs in long-lived worker processes).
#   case: {"kind": "seq", "specs": [spec], "pre": [bool], "steps": [[j, op, [[prefix, uri]]]]}
#   op:   plain | str | ns | reg | force | self
SEQ_NS = FOREIGN_NS[:4]
SEQ_PFX = ["p", "q", "saml", "samlp", "ns0", "ns1", "ns2", "ns3", "ns10", "ns01", "xs", "xsd", "xsi", "x-y", "_z", "é",
           "encas0", "NS1", "ns", "ns1a", "n1", "dc"]
ET_BUILTIN_NS = {"http://www.w3.org/XML/1998/namespace": "xml", "http://www.w3.org/1999/xhtml": "html",
                 "http://www.w3.org/1999/02/22-rdf-syntax-ns#": "rdf", "http://schemas.xmlsoap.org/wsdl/": "wsdl",
                 "http://www.w3.org/2001/XMLSchema": "xs", "http://www.w3.org/2001/XMLSchema-instance": "xsi",
                 "http://purl.org/dc/elements/1.1/": "dc"}
_PRISTINE = None


def seq_ee(rng, depth=1):
    """A foreign element whose attributes are (mostly) namespace-qualified; names from the small pools."""
    e = {"ns": rng.choice(SEQ_NS), "tag": rng.choice(FOREIGN_LOCAL[:6]), "a": [], "k": [], "x": rng.choice([None, "t", "a b"])}
    seen = set()
    for _ in range(rng.choice([1, 1, 2, 3])):
        q = (rng.choice(SEQ_NS), rng.choice(["level", "kind", "a", "lang"])) if rng.random() < 0.8 else (None, rng.choice(PLAIN_ATTR))
        if q not in seen:
            seen.add(q)
            e["a"].append([list(q), rng.choice(["1", "v", ""])])
    if depth > 0 and rng.random() < 0.4:
        e["k"] = [seq_ee(rng, depth - 1)]
    return e


def seq_sprinkle(rng, spec, p=0.5):
    """Foreign content with qualified names at every depth of an instance specification."""
    rec = tab().classes[spec["c"]]
    if spec.get("av"):
        if spec["x"] is None and spec["typ"] is None and rng.random() < p:
            spec["e"] = spec["e"] + [seq_ee(rng)]
        if rng.random() < p:
            spec["xa"] = [[[rng.choice(SEQ_NS), rng.choice(["level", "kind"])], "x"]]
            spec["xa_first"] = True
        return
    if rng.random() < p:
        spec["e"] = list(spec["e"]) + [seq_ee(rng) for _ in range(rng.choice([1, 1, 2]))]
    if rng.random() < p * 0.6:
        have = {tuple(q) for q, _v in spec["xa"]} | {tuple(n) for n, _m, _t, _r in rec.attributes}
        q = (rng.choice(SEQ_NS), rng.choice(["level", "kind"]))
        if q not in have:
            spec["xa"] = list(spec["xa"]) + [[list(q), "x"]]
    for _m, vals in spec["k"]:
        for v in vals:
            seq_sprinkle(rng, v, p * 0.8)


def spec_namespaces(spec, out):
    """The namespaces the instance's tree uses (attribute members that are set included)."""
    rec = tab().classes[spec["c"]]
    out.add(rec.tag[0])
    given = {a[0] for a in spec.get("a", [])}
    for n, m, _t, _r in rec.attributes:
        if n[0] and m in given:
            out.add(n[0])

    def ee(e):
        if e["ns"]:
            out.add(e["ns"])
        for q, _v in e["a"]:
            if q[0]:
                out.add(q[0])
        for k in e["k"]:
            ee(k)

    for e in spec["e"]:
        ee(e)
    for q, _v in spec["xa"]:
        if q[0]:
            out.add(q[0])
    if spec.get("av") and (spec.get("typ") or spec.get("x") is not None):
        out.add(XSI)
    for _m, vals in spec.get("k", []):
        for v in vals:
            spec_namespaces(v, out)
    return out


def seq_pairs(rng, uris, n, earlier):
    """n (prefix, uri) pairs with pairwise distinct prefixes (a dict); half of the time a prefix some earlier call of
    the history asked for comes back - for whatever namespace is drawn now."""
    pairs, used = [], set()
    for _ in range(n):
        p = rng.choice(earlier) if earlier and rng.random() < 0.5 else rng.choice(SEQ_PFX)
        if p in used:
            continue
        used.add(p)
        pairs.append([p, rng.choice(uris)])
    return pairs


def gen_seq_steps(rng, specs, pre, n_steps):
    used = set()
    for sp in specs:
        spec_namespaces(sp, used)
    used.discard(XML_NS)                 # binding the xml namespace to another prefix is not legal XML
    uris = sorted(used) + ["urn:x-verif:unused"]
    steps, earlier = [], []
    for _ in range(n_steps):
        j = rng.randrange(len(specs))
        ops = ["plain", "plain", "plain", "str", "ns", "ns", "ns", "reg", "force", "force", "force"] + (["self", "self"] if pre[j] else [])
        op = rng.choice(ops)
        np = []
        if op in ("ns", "reg"):
            np = seq_pairs(rng, uris, rng.choice([1, 1, 2, 3]), earlier)
        elif op == "force":
            own = set()
            spec_namespaces(specs[j], own)
            own.discard(XML_NS)
            if rng.random() < 0.6:       # the usual call: every namespace of the instance gets a prefix
                ps = rng.sample(SEQ_PFX, len(own)) if len(own) <= len(SEQ_PFX) else []
                np = [[p, u] for p, u in zip(ps, sorted(own))]
                rng.shuffle(np)
            if not np:
                np = seq_pairs(rng, sorted(own) + ["urn:x-verif:unused"], rng.choice([1, 2, 3]), earlier)
        earlier += [p for p, _u in np]
        steps.append([j, op, np])
    return steps


def seq_spec(rng, i, depth=1, budget=4):
    spec = gen_spec(rng, i, depth, "rand", [budget])
    seq_sprinkle(rng, spec, 0.6)
    return spec


def seq_response(rng):
    """samlp.Response carrying one Assertion, to be moved into an EncryptedAssertion (sigver.pre_encrypt_assertion)
    before the history starts: the instance the self-contained serialisation is for."""
    t = tab()
    ri, ai = t.by_name["saml2.samlp.Response"], t.by_name["saml2.saml.Assertion"]
    spec = gen_spec(rng, ri, 0, "rand", [4])
    a = gen_spec(rng, ai, 2, "rand", [6])
    seq_sprinkle(rng, a, 0.7)
    spec["k"] = [["assertion", [a]]]
    seq_sprinkle(rng, spec, 0.3)
    return spec


# the small, COMPLETE family: one instance that combines three foreign namespaces (element in X with an attribute in Z,
# element in Y), every history of length <= 2 over this alphabet (and every such history followed by plain)
SEQ_X, SEQ_Y, SEQ_Z = SEQ_NS[0], SEQ_NS[1], SEQ_NS[3]
SEQ_ALPHABET = [("plain", []), ("ns", [["p", SEQ_X]]), ("ns", [["p", SEQ_Y]]), ("ns", [["ns1", SEQ_Z]]), ("ns", [["ns0", SEQ_X], ["q", SEQ_Y]]),
                ("reg", [["q", SEQ_Z], ["q2", SEQ_X]]), ("force", [["a", SEQ_X], ["b", SEQ_Y], ["c", SEQ_Z]]),
                ("force", [["p", SEQ_Z]])]


def seq_small_spec():
    t = tab()
    i = t.by_name["saml2.samlp.Extensions"]
    return {"c": i, "a": [], "k": [], "xa": [], "x": None, "how": "ctor", "e": [
        {"ns": SEQ_X, "tag": "First", "a": [[[SEQ_Z, "level"], "3"], [[None, "plain"], "x"]], "k": [
            {"ns": SEQ_X, "tag": "Inner", "a": [[[SEQ_Z, "kind"], "k"]], "k": [], "x": "i"}], "x": "one"},
        {"ns": SEQ_Y, "tag": "Second", "a": [[[None, "k"], "v"]], "k": [], "x": "two"}]}


def generate_seq(ctx, cases, rng):
    """Dimension added after seeded changes C12-0 (missed) and C12-9 (detected without a failing input): HISTORIES of
    serialisation calls on long-lived instances in one process (see above).  Own PRNG, drawn after everything else."""
    t = tab()
    core = [i for i, r in enumerate(t.classes) if r.core and r.kind == "plain"]
    with_kids = [i for i in core if t.classes[i].children]
    av_holders = [t.by_name[n] for n in ("saml2.saml.Attribute", "saml2.saml.AttributeStatement", "saml2.saml.Assertion",
                                         "saml2.samlp.Extensions", "saml2.samlp.LogoutRequest", "saml2.samlp.AuthnRequest",
                                         "saml2.md.EntityDescriptor", "saml2.samlp.Response")]
    small = seq_small_spec()
    for a in SEQ_ALPHABET:                                             # complete, length <= 2 (+ plain)
        for b in [None] + SEQ_ALPHABET:
            for tail in (False, True):
                steps = [[0, a[0], a[1]]] + ([[0, b[0], b[1]]] if b else []) + ([[0, "plain", []]] if tail else [])
                if steps[-1][1] == "reg":
                    continue
                cases.append({"kind": "seq", "c": small["c"], "specs": [copy.deepcopy(small)], "pre": [False], "steps": steps,
                              "why": "small"})
    for n in range(900 if ctx.thorough else 160):                      # seeded
        k = rng.choice([1, 1, 2, 2, 3])
        specs, pre = [], []
        for x in range(k):
            r = rng.random()
            if r < 0.15:
                specs.append(seq_response(rng))
                pre.append(True)
                continue
            i = rng.choice(av_holders) if r < 0.45 else (rng.choice(with_kids) if r < 0.8 else rng.choice(core))
            specs.append(seq_spec(rng, i))
            pre.append(False)
        steps = gen_seq_steps(rng, specs, pre, rng.randint(2, 8))
        cases.append({"kind": "seq", "c": specs[0]["c"], "specs": specs, "pre": pre, "steps": steps, "why": "seeded"})


def _registry():
    return [[u, p] for u, p in ET._namespace_map.items()]


def observe_seq(case):
    global _PRISTINE
    from saml2 import saml, sigver

    if _PRISTINE is None:
        _PRISTINE = dict(ET._namespace_map)
    saved = dict(ET._namespace_map)
    ET._namespace_map.clear()
    ET._namespace_map.update(_PRISTINE)
    try:
        try:
            insts = [build(sp) for sp in case["specs"]]
        except (ValueError, KeyError) as e:
            return {"skip": "build:%s" % type(e).__name__}
        for inst, pre in zip(insts, case["pre"]):
            if pre:
                sigver.pre_encrypt_assertion(inst)
        out = {"gm0": _registry(), "o_in": [abs_obj(i) for i in insts], "steps": []}
        assertion_tag = "{%s}%s" % (saml.NAMESPACE, "Assertion")
        bids = {}
        for j, op, np in case["steps"]:
            inst, d = insts[j], {p: u for p, u in np}
            s = err = None
            try:
                if op == "plain":
                    s = inst.to_string()
                elif op == "str":
                    s = str(inst).encode("utf-8")
                elif op == "ns":
                    s = inst.to_string(d)
                elif op == "reg":
                    inst.register_prefix(d)
                elif op == "force":
                    s = inst.to_string_force_namespace(d)
                elif op == "self":
                    s = inst.get_xml_string_with_self_contained_assertion_within_encrypted_assertion(assertion_tag).encode("utf-8")
                else:
                    raise ValueError(op)
            except RecursionError:
                raise
            except Exception as e:  # noqa: BLE001   (a serialisation call that raises: the step has no document)
                err = "%s: %s" % (type(e).__name__, e)
            st = {"gm": _registry(), "err": err, "out": None, "r": {"k": "none"}, "bid": 0}
            try:
                st["after"] = abs_obj(inst)
            except AbstractionError as e:       # the call left something in the instance no instance can hold
                st["after"] = None
                st["err"] = "instance after the call: %s" % e
            if s is not None:
                st["bid"] = bids.setdefault(s, len(bids) + 1)
                try:
                    st["out"] = read(s)
                except ET.ParseError as e:
                    st["err"] = "not well-formed: %s" % e
                else:
                    st["r"] = pres(lib_parse(case["specs"][j]["c"], s))
            out["steps"].append(st)
        return out
    finally:
        ET._namespace_map.clear()
        ET._namespace_map.update(saved)


def cq_pairs(pairs):
    return "[" + "; ".join("(%s, %s)" % (cq_s(a), cq_s(b)) for a, b in pairs) + "]"


def cq_seq(case, obs):
    sh = Share()
    objs = [sh.use(cq_sobj(o)) for o in obs["o_in"]]
    steps = []
    for (j, op, np), st in zip(case["steps"], obs["steps"]):
        opt = {"plain": "SPlain", "str": "SPlain", "self": "SSelf"}.get(op) or "(%s %s)" % (
            {"ns": "SNs", "reg": "SReg", "force": "SForce"}[op], cq_pairs(np))
        # an instance that can no longer be abstracted has certainly changed: any other object will do
        after = sh.use(cq_sobj(st["after"])) if st["after"] is not None else "(SO 0%N [] [] [] [] (Some \"changed beyond abstraction\"))"
        outt = "None" if st["out"] is None else "(Some %s)" % sh.use(cq_tree(st["out"]))
        steps.append("SStep %d %s %s %s %s %s %d" % (j, opt, sh.use(cq_pairs(st["gm"])), after, outt, cq_pres(st["r"], sh), st["bid"]))
    return sh.wrap("(SEQ %s [%s] [%s])" % (sh.use(cq_pairs(obs["gm0"])), "; ".join(objs), "; ".join(steps)))


def observe(case):
    try:
        return _observe(case)
    except AbstractionError as e:
        return {"error": "abstraction: %s" % e}
    except LibraryFailure as e:
        return {"error": str(e)}
    except ET.ParseError as e:
        # what to_string() wrote is not well-formed XML (the independent reader refuses it): the instance did not
        # survive serialisation -> (IMPL false), a spec failure with this case as replay input
        return {"error": "library output not well-formed: %s" % e}


def _observe(case):
    if case["kind"] == "lite":
        return observe_lite(case)
    idx = case["c"]
    if case["kind"] == "impl":
        return observe_impl(case)
    if case["kind"] == "seq":
        return observe_seq(case)
    if case["kind"] == "rtb":
        try:
            inst = build_recipe(idx, case["recipe"])
        except ValueError:                        # AttributeValueBase.set_text refuses the value: part of the model
            return {"braise": True}
        if inst.text is not None and not isinstance(inst.text, str):
            return {"nonstr": repr(inst.text)}            # xs:anyType keeps the value as it is: to_string() would raise
        o_in = abs_obj(inst)
        s1 = to_string(inst, "an instance built along a recipe")
        t1 = read(s1)
        r1 = lib_parse(idx, s1)
        ch = chain(idx, r1)
        return {"o_in": o_in, "t1": t1, "r1": pres(r1), "t2": ch["t2"], "same12": ch["s2"] == s1, "r2": ch["r2"],
                "same23": ch["same23"]}
    if case["kind"] == "rt":
        try:
            inst = build(case["spec"])
        except (ValueError, KeyError) as e:       # AttributeValueBase.set_text refuses the value
            return {"skip": "build:%s" % type(e).__name__}
        o_in = abs_obj(inst)
        s1 = to_string(inst, "a built instance")
        t1 = read(s1)
        r1 = lib_parse(idx, s1)
        ch = chain(idx, r1)
        return {"o_in": o_in, "t1": t1, "r1": pres(r1), "t2": ch["t2"], "same12": ch["s2"] == s1, "r2": ch["r2"],
                "same23": ch["same23"]}
    # doc
    import random

    used = None
    doc = render_doc(case["tree"], random.Random(case["rseed"]), case.get("form"))
    if case.get("form") is not None:
        doc, used = doc
    try:
        back = read(doc)
    except (ET.ParseError, ValueError, LookupError) as e:
        back = "not well-formed: %s" % e
    if back != case["tree"]:
        return {"error": "renderer self-check failed", "doc": repr(doc)[:400], "back": str(back)[:300]}
    r = lib_parse(idx, doc)
    ch = chain(idx, r)
    return {"r": pres(r), "t2": ch["t2"], "r2": ch["r2"], "same23": ch["same23"], "doc_len": len(doc),
            "form": "utf-8/historical" if used is None else form_name(used)}


# ---------------------------------------------------------------------------- Coq terms
def cq_q(q):
    ns, local = q
    if ns is None:
        n = "None"
    elif ns in ns_ids():
        n = "(Some %s)" % ns_ids()[ns]
    else:
        n = "(Some %s)" % cq_s(ns)
    return "(QN %s %s)" % (n, cq_s(local))


def cq_attrs(a):
    return "[" + "; ".join("(%s, %s)" % (cq_q(q), cq_s(v)) for q, v in a) + "]"


def cq_tree(t):
    return "(Node %s %s %s [%s])" % (cq_q(t["g"]), cq_attrs(t["a"]), cq_s(t["x"]), "; ".join(cq_tree(k) for k in t["k"]))


def cq_ostr(s):
    return "None" if s is None else "(Some %s)" % cq_s(s)


def cq_ee(e):
    ns = cq_ostr(e["ns"]) if e["ns"] is None or e["ns"] not in ns_ids() else "(Some %s)" % ns_ids()[e["ns"]]
    return "(EE %s %s %s [%s] %s)" % (ns, cq_s(e["tag"]), cq_attrs(e["a"]), "; ".join(cq_ee(k) for k in e["k"]), cq_ostr(e["x"]))


def cq_sobj(o):
    return "(SO %d%%N [%s] [%s] [%s] %s %s)" % (
        o["c"], "; ".join("(%s, %s)" % (cq_s(m), cq_s(v)) for m, v in o["a"]),
        "; ".join("(%s, [%s])" % (cq_s(m), "; ".join(cq_sobj(x) for x in vals)) for m, vals in o["k"]),
        "; ".join(cq_ee(e) for e in o["e"]), cq_attrs(o["xa"]), cq_ostr(o["x"]))


class Share:
    """let-bind repeated sub-terms of a case (the same object/tree observed several times)."""

    def __init__(self):
        self.names, self.defs = {}, []

    def use(self, term):
        if len(term) < 40:
            return term
        if term not in self.names:
            self.names[term] = "v%d" % len(self.defs)
            self.defs.append((self.names[term], term))
        return self.names[term]

    def wrap(self, body):
        for n, t in reversed(self.defs):
            body = "(let %s := %s in %s)" % (n, t, body)
        return body


def cq_pres(p, sh):
    if p["k"] == "ok":
        return "(POk %s)" % sh.use(cq_sobj(p["o"]))
    return "PNone" if p["k"] == "none" else "PRaise"


def cq_bool(b):
    return "true" if b else "false"


def coq_case(case, obs):
    if case["kind"] == "lite":      # (a replay of a table-free case on a tree whose table translates: the ordinary runner)
        return "(%s %s)" % ("LIMPL" if _LITE else "IMPL", cq_bool(obs.get("ok") is True))
    if "error" in obs:
        return "(IMPL false)"
    if "skip" in obs:
        return "(IMPL true)"
    if case["kind"] == "impl":
        if case["what"] == "av-root-xs":
            return "(IMPLF 4 %s)" % cq_bool(obs["ok"])
        if case["what"] == "many" and case["why"] == ["xsd"] and (tab().classes[case["c"]].name, case["member"]) in XSD_ONLY_KNOWN:
            return "(IMPLF 11 %s)" % cq_bool(obs["ok"])
        return "(IMPL %s)" % cq_bool(obs["ok"])
    if case["kind"] == "seq":
        return cq_seq(case, obs)
    if case["kind"] == "rtb" and obs.get("braise"):
        return "(BRAISE %d%%N %s)" % (case["c"], cq_recipe(case["recipe"]))
    if case["kind"] == "rtb" and "nonstr" in obs:
        return "(BNONSTR %d%%N %s)" % (case["c"], cq_recipe(case["recipe"]))
    sh = Share()
    t2 = "None" if obs["t2"] is None else "(Some %s)" % sh.use(cq_tree(obs["t2"]))
    if case["kind"] == "rtb":
        body = "RTB %d%%N %s %s %s %s %s %s %s %s" % (
            case["c"], cq_recipe(case["recipe"]), sh.use(cq_sobj(obs["o_in"])), sh.use(cq_tree(obs["t1"])),
            cq_pres(obs["r1"], sh), t2, cq_bool(obs["same12"]), cq_pres(obs["r2"], sh), cq_bool(obs["same23"]))
    elif case["kind"] == "rt":
        body = "RT %d%%N %s %s %s %s %s %s %s" % (
            case["c"], sh.use(cq_sobj(obs["o_in"])), sh.use(cq_tree(obs["t1"])), cq_pres(obs["r1"], sh), t2,
            cq_bool(obs["same12"]), cq_pres(obs["r2"], sh), cq_bool(obs["same23"]))
    else:
        body = "DOC %d%%N %s %s %s %s %s" % (case["c"], sh.use(cq_tree(case["tree"])), cq_pres(obs["r"], sh), t2,
                                            cq_pres(obs["r2"], sh), cq_bool(obs["same23"]))
    return sh.wrap("(" + body + ")")


def explain_term(term):
    if _LITE:
        return term
    return "C12.Corr.explain_live %s" % term


# ---------------------------------------------------------------------------- evidence helpers
def _tree_feats(t, rec_idx=None):
    f = set()

    def walk(n, d):
        f.update(text_classes(n["x"]))
        for _q, v in n["a"]:
            f.update("attr-" + c for c in text_classes(v))
        for k in n["k"]:
            walk(k, d + 1)
        f.add("depth%d" % min(d, 4)) if not n["k"] else None

    walk(t, 0)
    return f


def _obj_feats(o):
    f = set()

    def walk(n, d):
        f.update(text_classes(n["x"]))
        if n["e"]:
            f.add("ext-elem")
        if n["xa"]:
            f.add("ext-attr")
        for _m, v in n["a"]:
            f.update("attr-" + c for c in text_classes(v))
        leaf = True
        for _m, vals in n["k"]:
            for x in vals:
                leaf = False
                walk(x, d + 1)
        if leaf:
            f.add("depth%d" % min(d, 4))

    walk(o, 0)
    return f


def _outcome(case, obs):
    if "error" in obs:
        return "harness-error"
    if "skip" in obs:
        return "skip"
    if case["kind"] == "seq":
        bad = [st for st in obs["steps"] if st["err"]]
        return "all-steps-written" if not bad else "step-failed:" + bad[0]["err"].split(":")[0]
    if case["kind"] == "rtb":
        if obs.get("braise"):
            return "build-raises"
        if "nonstr" in obs:
            return "text-not-a-str"
        r = obs["r1"]
        return r["k"] if r["k"] != "ok" else ("same" if r["o"] == obs["o_in"] and obs["same12"] else "changed")
    if case["kind"] == "impl":
        if case["what"] == "many":
            return "all-kept" if obs["ok"] else "LOST"
        return obs["detail"] if case["what"] in ("deep", "dtd-only", "av-unmodelled", "av-root-xs") else ("refused" if obs["ok"] else "ACCEPTED")
    r = obs["r1"] if case["kind"] == "rt" else obs["r"]
    if r["k"] != "ok":
        return r["k"]
    if case["kind"] == "rt":
        return "same" if r["o"] == obs["o_in"] else "changed"
    return "parsed"


def nontrivial(case, obs):
    if case["kind"] == "lite":
        return ("lite", case["cls"], tuple(case["name"]), case["how"], obs.get("ok"))
    name = tab().classes[case["c"]].name
    out = _outcome(case, obs)
    if case["kind"] == "impl":
        if "form" in case:
            return ("impl", "extension_element" if case.get("entry") == "ee" else name, case["what"], out, obs.get("form"),
                    case.get("pad"), obs.get("control"))
        if case["what"] == "many":
            return ("impl", name, "many", case["member"], case["n"], out)
        return ("impl", name, case["what"], out)
    if "error" in obs or "skip" in obs:
        return None
    if case["kind"] == "seq":
        return ("seq", tuple(tab().classes[sp["c"]].name for sp in case["specs"]), out, seq_features(case))
    if case["kind"] == "rtb":
        rc = case["recipe"]
        return ("rtb", name, out, rc["text"][0], "ext" if rc["ext"] and rc["ext"] != "empty" else str(rc["ext"]),
                tuple(a[0][1] for a in rc["arg"] or ()), tuple((op[0], op[1][0] if op[0] == "text" else "") for op in rc["ops"]))
    if case["kind"] == "rt":
        feats = sorted(_obj_feats(obs["o_in"]))
        if case["mode"] == "min" and not feats:
            return None
        return ("rt", name, out, tuple(feats) + tuple(sorted(set(case.get("alike", ())))))
    feats = sorted(_tree_feats(case["tree"]))
    return ("doc", name, case.get("root"), out, tuple(feats) + tuple(sorted(set(case.get("alike", ())))))


def seq_features(case):
    """What a history exercises: (ops in order, same prefix asked for two namespaces, a prefix of ElementTree's own
    form asked for, a document written after a prefix-forcing call on the same instance, several instances)."""
    import re

    asked, clash, reserved, after_force, forced = {}, False, False, False, set()
    for j, op, np in case["steps"]:
        if op in ("force", "self"):
            forced.add(j)
        elif op != "reg" and j in forced:
            after_force = True
        for p, u in np:
            if op in ("ns", "reg"):
                clash = clash or asked.setdefault(p, u) != u
            reserved = reserved or re.match(r"ns\d+$", p) is not None
    return (tuple(op for _j, op, _np in case["steps"]), clash, reserved, after_force, len(case["specs"]))


def _av_unmodelled(tree):
    """Does the document contain a typed value the model declares 'unmodelled' (float/double/date, or integer /
    boolean text outside ASCII)?  Such cases are compared only up to 'unmodelled' by Corr.agree_pres."""
    n = 0
    for q, v in tree["a"]:
        if q == [XSI, "type"]:
            base = v.split(":", 1)[-1] if ":" in v else v
            if base in ("float", "double", "date") or (base in ("integer", "short", "int", "long", "boolean")
                                                        and not tree["x"].isascii()):
                n += 1
    return n + sum(_av_unmodelled(k) for k in tree["k"])


def histogram(cases, observed):
    if _TABLE_ERROR is not None:
        return {"table_error": _TABLE_ERROR, "table_free_battery": {
            "cases": len(cases), "failing": sum(1 for o in observed if o.get("ok") is not True),
            "relative_names": sum(1 for c in cases if c.get("relative"))}}
    t = tab()
    keep = [j for j, c in enumerate(cases) if c["kind"] != "lite"]      # (a replayed table-free case)
    cases, observed = [cases[j] for j in keep], [observed[j] for j in keep]
    h = {"by_kind": {}, "by_module": {}, "outcome": {}, "features": {}, "classes_covered": 0, "impl": {},
         "entity_forms": {}, "doc_forms": {}, "alike_names": {}, "recipes": {}, "live_names": {}}
    seen = set()
    for c, o in zip(cases, observed):
        kind = c["kind"] + (":" + c["mode"] if c["kind"] == "rt" else (":" + c.get("root", "") if c["kind"] == "doc" else ""))
        if c["kind"] == "seq":
            kind = "seq:" + c["why"]
            if "skip" not in o and "error" not in o:
                ops, clash, reserved, after_force, n = seq_features(c)
                hh = h.setdefault("histories", {})
                for k in ["op:" + x for x in ops] + ["same-prefix-for-two-namespaces"] * clash + ["reserved-prefix-asked"] * reserved \
                        + ["document-after-forced-prefixes"] * after_force + ["instances:%d" % n, "steps:%d" % len(ops)] \
                        + ["self-contained-instance"] * any(c["pre"]):
                    hh[k] = hh.get(k, 0) + 1
        if c["kind"] == "rtb":
            kind = "rtb:" + c["why"]
            key = "%s -> %s" % (c["why"], _outcome(c, o))
            h["recipes"][key] = h["recipes"].get(key, 0) + 1
        if c["kind"] == "doc" and "alike" in c:
            kind = "doc:live" if c.get("live") else "doc:alike"
        for a in c.get("alike", ()):        # look-alike names: 'attr|elem namespace-variant/local-variant'; live: 'attr|elem kind'
            hk = "live_names" if (c.get("live") or c.get("mode") == "live") else "alike_names"
            h[hk][a] = h[hk].get(a, 0) + 1
        h["by_kind"][kind] = h["by_kind"].get(kind, 0) + 1
        mod = t.classes[c["c"]].name.rsplit(".", 1)[0]
        h["by_module"][mod] = h["by_module"].get(mod, 0) + 1
        seen.add(c["c"])
        out = c["kind"] + ":" + str(_outcome(c, o))
        if c["kind"] == "impl":
            key = c["what"] + ":" + str(_outcome(c, o))
            h["impl"][key] = h["impl"].get(key, 0) + 1
            if "form" in c:
                key = "%s control=%s" % (o.get("form"), o.get("control"))
                h["entity_forms"][key] = h["entity_forms"].get(key, 0) + 1
            continue
        if c["kind"] == "doc" and "form" in o:
            h["doc_forms"][o["form"]] = h["doc_forms"].get(o["form"], 0) + 1
        h["outcome"][out] = h["outcome"].get(out, 0) + 1
        if "error" in o or "skip" in o or o.get("braise") or "nonstr" in o:
            continue
        if c["kind"] == "seq":
            continue
        feats = _obj_feats(o["o_in"]) if c["kind"] in ("rt", "rtb") else _tree_feats(c["tree"])
        for f in feats:
            h["features"][f] = h["features"].get(f, 0) + 1
    h["documents_with_value_conversion_not_restated_by_model"] = sum(
        1 for c in cases if c["kind"] == "doc" and _av_unmodelled(c["tree"]))
    h["classes_covered"] = len(seen)
    h["classes_in_table"] = len(t.classes)
    return h
