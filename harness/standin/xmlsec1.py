#!/venv/bin/python
"""xmlsec1 stand-in (DESIGN.md section 3.4).

Implements the part of the xmlsec1 1.2.x command-line contract that pysaml2
uses: --version, --list-transforms, --sign, --verify, --encrypt, --decrypt.
It is a *model* of xmlsec1 and belongs to the trusted base of every check that
goes through signatures or encryption.

Semantics kept from xmlsec1 (apps/xmlsec.c):
  * --id-attr:NAME [ns:]Elem   registers attribute NAME of every element whose
    local name is Elem (namespace compared when given) as an ID; a duplicate
    value is a hard error;
  * --node-id X   start node = element registered under X (error when none);
    the dsig/enc node processed is the first ds:Signature / xenc:EncryptedData
    in document order at or below the start node (xmlSecFindNode);
  * --verify with --enabled-key-data raw-x509-cert uses only the certificate
    from --pubkey-cert-pem; without that restriction a key found in the
    Signature's KeyInfo is preferred (CVE-2021-21239 behaviour);
  * --enabled-reference-uris empty,same-doc;
  * the child order of ds:Signature / SignedInfo / Reference / Transforms is enforced as in
    xmldsig.c (xmlSecDSigCtxProcessSignatureNode, ...SignedInfoNode, xmlSecDSigReferenceCtxProcessNode):
    an extra, missing or re-ordered child is an "unexpected node" error.

Canonicalisation is ElementTree C14N 2.0 with rewrite_prefixes=True: signer and
verifier are both this program, so only consistency matters.

A side log (list LOG, or file named by XMLSEC_STANDIN_LOG) records what was
digested and which key material was used.
"""
import base64
import copy
import hashlib
import io
import json
import os
import sys
import xml.etree.ElementTree as ET

from cryptography import x509
from cryptography.hazmat.primitives import hashes, padding as sympad, serialization
from cryptography.hazmat.primitives.asymmetric import padding, rsa
from cryptography.hazmat.primitives.ciphers import Cipher, algorithms, modes

DS = "http://www.w3.org/2000/09/xmldsig#"
XENC = "http://www.w3.org/2001/04/xmlenc#"

LOG = []  # in-process side log (list of dicts)

SIG_ALGS = {
    "http://www.w3.org/2000/09/xmldsig#rsa-sha1": hashes.SHA1,
    "http://www.w3.org/2001/04/xmldsig-more#rsa-sha224": hashes.SHA224,
    "http://www.w3.org/2001/04/xmldsig-more#rsa-sha256": hashes.SHA256,
    "http://www.w3.org/2001/04/xmldsig-more#rsa-sha384": hashes.SHA384,
    "http://www.w3.org/2001/04/xmldsig-more#rsa-sha512": hashes.SHA512,
    "http://www.w3.org/2001/04/xmldsig-more#rsa-md5": hashes.MD5,
}
DIG_ALGS = {
    "http://www.w3.org/2000/09/xmldsig#sha1": "sha1",
    "http://www.w3.org/2001/04/xmldsig-more#sha224": "sha224",
    "http://www.w3.org/2001/04/xmlenc#sha256": "sha256",
    "http://www.w3.org/2001/04/xmldsig-more#sha384": "sha384",
    "http://www.w3.org/2001/04/xmlenc#sha512": "sha512",
    "http://www.w3.org/2001/04/xmldsig-more#md5": "md5",
}
C14N_ALGS = {
    "http://www.w3.org/2001/10/xml-exc-c14n#": False,
    "http://www.w3.org/2001/10/xml-exc-c14n#WithComments": True,
    "http://www.w3.org/TR/2001/REC-xml-c14n-20010315": False,
    "http://www.w3.org/TR/2001/REC-xml-c14n-20010315#WithComments": True,
    "http://www.w3.org/2006/12/xml-c14n11": False,
}
ENVELOPED = "http://www.w3.org/2000/09/xmldsig#enveloped-signature"

TRANSFORMS_LINE = ",".join(
    '"%s"' % n
    for n in [
        "base64", "enveloped-signature", "c14n", "exc-c14n",
        "hmac-sha1", "hmac-sha224", "hmac-sha256", "hmac-sha384", "hmac-sha512",
        "rsa-sha1", "rsa-sha224", "rsa-sha256", "rsa-sha384", "rsa-sha512",
        "aes128-cbc", "tripledes-cbc", "rsa-oaep-mgf1p", "rsa-1_5",
    ]
)


class XErr(Exception):
    pass


def _log(entry):
    LOG.append(entry)
    path = os.environ.get("XMLSEC_STANDIN_LOG")
    if path:
        with open(path, "a") as f:
            f.write(json.dumps(entry) + "\n")


def _local(tag):
    return tag.rsplit("}", 1)[-1] if isinstance(tag, str) else ""


def _ns(tag):
    return tag[1:].split("}", 1)[0] if isinstance(tag, str) and tag.startswith("{") else ""


def _parse(data):
    # comments kept (needed for #WithComments and to be faithful about text)
    parser = ET.XMLParser(target=ET.TreeBuilder(insert_comments=True))
    try:
        root = ET.fromstring(data, parser=parser)
    except ET.ParseError as e:
        raise XErr("parse error: %s" % e)
    return root


def _iter_doc(root):
    """Elements in document order."""
    return [e for e in root.iter() if isinstance(e.tag, str)]


def _parent_map(root):
    return {c: p for p in root.iter() for c in p}


def _path(root, node, pmap):
    parts = []
    cur = node
    while cur is not None:
        par = pmap.get(cur)
        if par is None:
            parts.append(_local(cur.tag))
        else:
            same = [c for c in par if c.tag == cur.tag]
            parts.append("%s[%d]" % (_local(cur.tag), same.index(cur)))
        cur = par
    return "/" + "/".join(reversed(parts))


def _register_ids(root, id_attrs):
    """id_attrs: list of (attrname, elemspec).  Returns dict id -> element."""
    ids = {}
    for attr, spec in id_attrs:
        if ":" in spec and not spec.startswith("{"):
            ns, name = spec.rsplit(":", 1)
        else:
            ns, name = None, spec
        for el in _iter_doc(root):
            if _local(el.tag) != name:
                continue
            if ns is not None and _ns(el.tag) and _ns(el.tag) != ns:
                continue
            val = el.get(attr)
            if val is None:
                continue
            if val in ids and ids[val] is not el:
                raise XErr("duplicate ID attribute %r" % val)
            ids[val] = el
    return ids


def _find_first(start, ns, name):
    for el in start.iter():
        if isinstance(el.tag, str) and el.tag == "{%s}%s" % (ns, name):
            return el
    return None


def _child_names(el):
    return ["%s:%s" % ("ds" if _ns(c.tag) == DS else _ns(c.tag), _local(c.tag)) for c in el if isinstance(c.tag, str)]


def _strict_signature(sig):
    """xmlsec1 walks the children of ds:Signature, ds:SignedInfo, ds:Reference and ds:Transforms in the order
    the schema gives and fails on anything else (xmldsig.c); ElementTree's find() alone would tolerate extra or
    re-ordered children (e.g. a second SignedInfo)."""
    els = [c for c in sig if isinstance(c.tag, str)]
    n = _child_names(sig)
    if len(n) < 2 or n[0] != "ds:SignedInfo" or n[1] != "ds:SignatureValue":
        return False
    rest = n[2:]
    if rest and rest[0] == "ds:KeyInfo":
        rest = rest[1:]
    if any(x != "ds:Object" for x in rest):
        return False
    si = els[0]
    sn = _child_names(si)
    if len(sn) < 3 or sn[0] != "ds:CanonicalizationMethod" or sn[1] != "ds:SignatureMethod":
        return False
    if any(x != "ds:Reference" for x in sn[2:]):
        return False
    for ref in [c for c in si if isinstance(c.tag, str)][2:]:
        rn = _child_names(ref)
        if rn == ["ds:Transforms", "ds:DigestMethod", "ds:DigestValue"]:
            tr = [c for c in ref if isinstance(c.tag, str)][0]
            if any(x != "ds:Transform" for x in _child_names(tr)):
                return False
        elif rn != ["ds:DigestMethod", "ds:DigestValue"]:
            return False
    return True


def _c14n(el, with_comments=False):
    xml = ET.tostring(el, encoding="unicode")
    out = io.StringIO()
    ET.canonicalize(xml, out=out, with_comments=with_comments, rewrite_prefixes=True)
    return out.getvalue().encode("utf-8")


def _copy_without(node, victim):
    """Deep copy of node with element `victim` (identity) removed."""
    if node is victim:
        return None
    new = ET.Element(node.tag, dict(node.attrib)) if isinstance(node.tag, str) else copy.copy(node)
    if not isinstance(node.tag, str):
        return new
    new.text = node.text
    new.tail = node.tail
    prev = None
    for ch in node:
        c = _copy_without(ch, victim)
        if c is None:
            # keep tail text of removed node attached
            if ch.tail:
                if prev is None:
                    new.text = (new.text or "") + ch.tail
                else:
                    prev.tail = (prev.tail or "") + ch.tail
            continue
        new.append(c)
        prev = c
    return new


def _is_descendant(anc, node):
    return any(e is node for e in anc.iter())


_PRIVKEY_CACHE = {}  # PEM bytes -> key object (load_pem_private_key validates the RSA key: ~0.1 s per call)


def _load_privkey(path):
    with open(path, "rb") as f:
        data = f.read()
    key = _PRIVKEY_CACHE.get(data)
    if key is None:
        key = _PRIVKEY_CACHE[data] = serialization.load_pem_private_key(data, password=None)
    return key


def _load_cert_pubkey(path):
    with open(path, "rb") as f:
        data = f.read()
    if b"BEGIN CERTIFICATE" in data:
        return x509.load_pem_x509_certificate(data).public_key(), hashlib.sha1(
            x509.load_pem_x509_certificate(data).public_bytes(serialization.Encoding.DER)
        ).hexdigest()
    try:
        cert = x509.load_der_x509_certificate(data)
        return cert.public_key(), hashlib.sha1(data).hexdigest()
    except Exception:
        pk = serialization.load_pem_public_key(data)
        return pk, "pubkey"


def _keyinfo_key(sig):
    """Key found inside ds:KeyInfo of the signature (X509Certificate / RSAKeyValue)."""
    ki = sig.find("{%s}KeyInfo" % DS)
    if ki is None:
        return None
    x = ki.find(".//{%s}X509Certificate" % DS)
    if x is not None and (x.text or "").strip():
        try:
            der = base64.b64decode("".join((x.text or "").split()))
            return x509.load_der_x509_certificate(der).public_key(), "keyinfo-x509:" + hashlib.sha1(der).hexdigest()
        except Exception:
            return None
    rk = ki.find(".//{%s}RSAKeyValue" % DS)
    if rk is not None:
        try:
            n = int.from_bytes(base64.b64decode(rk.findtext("{%s}Modulus" % DS).strip()), "big")
            e = int.from_bytes(base64.b64decode(rk.findtext("{%s}Exponent" % DS).strip()), "big")
            return rsa.RSAPublicNumbers(e, n).public_key(), "keyinfo-rsa"
        except Exception:
            return None
    return None


def _reference_octets(root, ids, sig, ref, enabled_uris):
    uri = ref.get("URI")
    if uri is None or uri == "":
        if "empty" not in enabled_uris:
            raise XErr("reference uri type not enabled")
        target = root
    elif uri.startswith("#"):
        if "same-doc" not in enabled_uris:
            raise XErr("reference uri type not enabled")
        frag = uri[1:]
        if frag.startswith("xpointer(id('") and frag.endswith("'))"):
            frag = frag[len("xpointer(id('"):-3]
        target = ids.get(frag)
        if target is None:
            raise XErr("reference target %r not found" % uri)
    else:
        raise XErr("external reference uri %r not enabled" % uri)
    node = target
    with_comments = False
    transforms = ref.find("{%s}Transforms" % DS)
    enveloped = False
    if transforms is not None:
        for t in transforms.findall("{%s}Transform" % DS):
            alg = t.get("Algorithm")
            if alg == ENVELOPED:
                enveloped = True
            elif alg in C14N_ALGS:
                with_comments = C14N_ALGS[alg]
            else:
                raise XErr("unsupported transform %r" % alg)
    if enveloped and _is_descendant(node, sig):
        node = _copy_without(node, sig)
        node.tail = None
    return target, _c14n(node, with_comments)


def _digest(alg, data):
    name = DIG_ALGS.get(alg)
    if name is None:
        raise XErr("unsupported digest %r" % alg)
    return hashlib.new(name, data).digest()


def _signed_info_octets(sig):
    si = sig.find("{%s}SignedInfo" % DS)
    if si is None:
        raise XErr("no SignedInfo")
    cm = si.find("{%s}CanonicalizationMethod" % DS)
    alg = cm.get("Algorithm") if cm is not None else None
    if alg not in C14N_ALGS:
        raise XErr("unsupported c14n %r" % alg)
    c = copy.deepcopy(si)
    c.tail = None
    return si, _c14n(c, C14N_ALGS[alg])


def _select_start(root, ids, node_id):
    if node_id is None:
        return root
    if node_id not in ids:
        raise XErr("node with id %r not found" % node_id)
    return ids[node_id]


def _serialize(root):
    return ET.tostring(root, encoding="utf-8", xml_declaration=True)


def do_sign(opts, data):
    root = _parse(data)
    ids = _register_ids(root, opts["id_attrs"])
    start = _select_start(root, ids, opts.get("node_id"))
    sig = _find_first(start, DS, "Signature")
    if sig is None:
        raise XErr("signature template not found")
    if not _strict_signature(sig):
        raise XErr("unexpected node in ds:Signature")
    key = _load_privkey(opts["privkey"])
    pmap = _parent_map(root)
    si = sig.find("{%s}SignedInfo" % DS)
    for ref in si.findall("{%s}Reference" % DS):
        target, octets = _reference_octets(root, ids, sig, ref, ["empty", "same-doc"])
        dm = ref.find("{%s}DigestMethod" % DS)
        dv = ref.find("{%s}DigestValue" % DS)
        dv.text = base64.b64encode(_digest(dm.get("Algorithm"), octets)).decode()
        _log({"op": "sign", "digested_path": _path(root, target, pmap), "digested_id": target.get("ID"),
              "octets_sha1": hashlib.sha1(octets).hexdigest()})
    si, si_octets = _signed_info_octets(sig)
    sm = si.find("{%s}SignatureMethod" % DS).get("Algorithm")
    if sm not in SIG_ALGS:
        raise XErr("unsupported signature method %r" % sm)
    sv = sig.find("{%s}SignatureValue" % DS)
    sv.text = base64.b64encode(key.sign(si_octets, padding.PKCS1v15(), SIG_ALGS[sm]())).decode()
    return _serialize(root), b"", b""


def do_verify(opts, data):
    root = _parse(data)
    ids = _register_ids(root, opts["id_attrs"])
    start = _select_start(root, ids, opts.get("node_id"))
    sig = _find_first(start, DS, "Signature")
    if sig is None:
        raise XErr("signature node not found")
    if not _strict_signature(sig):
        raise XErr("unexpected node in ds:Signature")
    pmap = _parent_map(root)
    enabled_uris = opts.get("enabled_reference_uris") or ["empty", "same-doc", "local", "remote"]
    restrict = opts.get("enabled_key_data")
    key = None
    keysrc = None
    if not (restrict and "raw-x509-cert" in restrict):
        # unrestricted key data: a key inside KeyInfo wins (xmlsec1 behaviour)
        found = _keyinfo_key(sig)
        if found is not None:
            key, keysrc = found
    if key is None and opts.get("pubkey_cert"):
        key, fp = _load_cert_pubkey(opts["pubkey_cert"])
        keysrc = "file:" + fp
    if key is None:
        raise XErr("key not found")
    ok = True
    si = sig.find("{%s}SignedInfo" % DS)
    if si is None:
        raise XErr("no SignedInfo")
    refs = si.findall("{%s}Reference" % DS)
    if not refs:
        raise XErr("no Reference")
    digested = []
    for ref in refs:
        target, octets = _reference_octets(root, ids, sig, ref, enabled_uris)
        dm = ref.find("{%s}DigestMethod" % DS)
        dv = ref.find("{%s}DigestValue" % DS)
        if dm is None or dv is None:
            raise XErr("bad Reference")
        want = _digest(dm.get("Algorithm"), octets)
        try:
            got = base64.b64decode("".join((dv.text or "").split()), validate=True)
        except Exception:
            got = None
        digested.append({"path": _path(root, target, pmap), "id": target.get("ID"),
                         "octets_sha1": hashlib.sha1(octets).hexdigest()})
        if got != want:
            ok = False
    si, si_octets = _signed_info_octets(sig)
    sme = si.find("{%s}SignatureMethod" % DS)
    sm = sme.get("Algorithm") if sme is not None else None
    if sm not in SIG_ALGS:
        raise XErr("unsupported signature method %r" % sm)
    sv = sig.find("{%s}SignatureValue" % DS)
    try:
        sigbytes = base64.b64decode("".join(((sv.text if sv is not None else "") or "").split()), validate=True)
        key.verify(sigbytes, si_octets, padding.PKCS1v15(), SIG_ALGS[sm]())
    except Exception:
        ok = False
    _log({"op": "verify", "ok": ok, "key": keysrc, "cert_file": opts.get("pubkey_cert"),
          "signature_path": _path(root, sig, pmap), "digested": digested,
          "node_id": opts.get("node_id")})
    if ok:
        return b"", b"", b"OK\nSignedInfo References (ok/all): %d/%d\nManifests References (ok/all): 0/0\n" % (len(refs), len(refs))
    return None, b"", b"FAIL\n"


ENC_ALGS = {
    "http://www.w3.org/2001/04/xmlenc#tripledes-cbc": ("3des", 24, 8),
    "http://www.w3.org/2001/04/xmlenc#aes128-cbc": ("aes", 16, 16),
    "http://www.w3.org/2001/04/xmlenc#aes192-cbc": ("aes", 24, 16),
    "http://www.w3.org/2001/04/xmlenc#aes256-cbc": ("aes", 32, 16),
}
KEY_ALGS = {
    "http://www.w3.org/2001/04/xmlenc#rsa-oaep-mgf1p": "oaep",
    "http://www.w3.org/2001/04/xmlenc#rsa-1_5": "pkcs1",
}


def _sym(kind, key, iv):
    try:
        from cryptography.hazmat.decrepit.ciphers.algorithms import TripleDES
    except Exception:  # pragma: no cover
        TripleDES = algorithms.TripleDES
    alg = algorithms.AES(key) if kind == "aes" else TripleDES(key)
    return Cipher(alg, modes.CBC(iv))


def _rsa_pad(kind):
    if kind == "oaep":
        return padding.OAEP(mgf=padding.MGF1(hashes.SHA1()), algorithm=hashes.SHA1(), label=None)
    return padding.PKCS1v15()


def _xpath_find(root, xpath):
    """Supports the paths pysaml2 uses: /*[local-name()="A"]/*[local-name()="B"]..."""
    import re

    names = re.findall(r"local-name\(\)\s*=\s*[\"']([^\"']+)[\"']", xpath)
    if not names:
        raise XErr("unsupported xpath %r" % xpath)
    cur = [root] if _local(root.tag) == names[0] else []
    for n in names[1:]:
        nxt = []
        for c in cur:
            nxt.extend([ch for ch in c if isinstance(ch.tag, str) and _local(ch.tag) == n])
        cur = nxt
    if not cur:
        raise XErr("xpath selected nothing: %r" % xpath)
    return cur[0]


def do_encrypt(opts, template_data):
    tmpl = _parse(template_data)
    if tmpl.tag != "{%s}EncryptedData" % XENC:
        tmpl = _find_first(tmpl, XENC, "EncryptedData")
        if tmpl is None:
            raise XErr("no EncryptedData template")
    with open(opts["xml_data"], "rb") as f:
        doc = _parse(f.read())
    pmap = _parent_map(doc)
    target = _xpath_find(doc, opts["node_xpath"]) if opts.get("node_xpath") else doc
    em = tmpl.find("{%s}EncryptionMethod" % XENC).get("Algorithm")
    if em not in ENC_ALGS:
        raise XErr("unsupported encryption method %r" % em)
    kind, klen, blk = ENC_ALGS[em]
    ek = tmpl.find("{%s}KeyInfo/{%s}EncryptedKey" % (DS, XENC))
    if ek is None:
        raise XErr("no EncryptedKey template")
    km = ek.find("{%s}EncryptionMethod" % XENC).get("Algorithm")
    if km not in KEY_ALGS:
        raise XErr("unsupported key transport %r" % km)
    pub, fp = _load_cert_pubkey(opts["pubkey_cert"])
    skey = os.urandom(klen)
    iv = os.urandom(blk)
    t = copy.deepcopy(target)
    t.tail = None
    plain = ET.tostring(t, encoding="utf-8")
    padder = sympad.PKCS7(blk * 8).padder()
    enc = _sym(kind, skey, iv).encryptor()
    ct = iv + enc.update(padder.update(plain) + padder.finalize()) + enc.finalize()
    tmpl.find("{%s}CipherData/{%s}CipherValue" % (XENC, XENC)).text = base64.b64encode(ct).decode()
    ek.find("{%s}CipherData/{%s}CipherValue" % (XENC, XENC)).text = base64.b64encode(
        pub.encrypt(skey, _rsa_pad(KEY_ALGS[km]))
    ).decode()
    _log({"op": "encrypt", "cert_file": opts["pubkey_cert"], "cert_fp": fp,
          "target_path": _path(doc, target, pmap)})
    # replace the target node by the filled template
    par = pmap.get(target)
    tmpl.tail = target.tail
    if par is None:
        doc = tmpl
    else:
        idx = list(par).index(target)
        par.remove(target)
        par.insert(idx, tmpl)
    return _serialize(doc), b"", b""


def do_decrypt(opts, data):
    root = _parse(data)
    pmap = _parent_map(root)
    ed = _find_first(root, XENC, "EncryptedData")
    if ed is None:
        raise XErr("no EncryptedData")
    em = ed.find("{%s}EncryptionMethod" % XENC)
    if em is None or em.get("Algorithm") not in ENC_ALGS:
        raise XErr("unsupported encryption method")
    kind, klen, blk = ENC_ALGS[em.get("Algorithm")]
    ek = ed.find("{%s}KeyInfo/{%s}EncryptedKey" % (DS, XENC))
    if ek is None:
        # EncryptedKey as sibling referenced by RetrievalMethod: look anywhere
        ek = _find_first(root, XENC, "EncryptedKey")
    if ek is None:
        raise XErr("no EncryptedKey")
    km = ek.find("{%s}EncryptionMethod" % XENC)
    if km is None or km.get("Algorithm") not in KEY_ALGS:
        raise XErr("unsupported key transport")
    priv = _load_privkey(opts["privkey"])
    try:
        ekct = base64.b64decode("".join((ek.findtext("{%s}CipherData/{%s}CipherValue" % (XENC, XENC)) or "").split()))
        skey = priv.decrypt(ekct, _rsa_pad(KEY_ALGS[km.get("Algorithm")]))
        if len(skey) != klen:
            raise XErr("bad session key size")
        ct = base64.b64decode("".join((ed.findtext("{%s}CipherData/{%s}CipherValue" % (XENC, XENC)) or "").split()))
        iv, body = ct[:blk], ct[blk:]
        if len(iv) != blk or not body or len(body) % blk:
            raise XErr("bad ciphertext size")
        dec = _sym(kind, skey, iv).decryptor()
        padded = dec.update(body) + dec.finalize()
        unp = sympad.PKCS7(blk * 8).unpadder()
        plain = unp.update(padded) + unp.finalize()
        new = _parse(plain)
    except XErr:
        raise
    except Exception as e:
        raise XErr("decrypt failed: %s" % type(e).__name__)
    _log({"op": "decrypt", "key_file": opts["privkey"], "path": _path(root, ed, pmap)})
    par = pmap.get(ed)
    new.tail = ed.tail
    if par is None:
        root = new
    else:
        idx = list(par).index(ed)
        par.remove(ed)
        par.insert(idx, new)
    return _serialize(root), b"", b""


def parse_args(argv):
    opts = {"id_attrs": [], "files": []}
    i = 0
    cmd = None
    while i < len(argv):
        a = argv[i]
        if a in ("--sign", "--verify", "--encrypt", "--decrypt", "--version", "--list-transforms"):
            cmd = a[2:]
            i += 1
        elif a.startswith("--id-attr:"):
            opts["id_attrs"].append((a[len("--id-attr:"):], argv[i + 1]))
            i += 2
        elif a == "--node-id":
            opts["node_id"] = argv[i + 1]
            i += 2
        elif a == "--node-xpath":
            opts["node_xpath"] = argv[i + 1]
            i += 2
        elif a == "--privkey-pem":
            opts["privkey"] = argv[i + 1].split(",")[0]
            i += 2
        elif a in ("--pubkey-cert-pem", "--pubkey-cert-der", "--pubkey-pem"):
            opts["pubkey_cert"] = argv[i + 1]
            i += 2
        elif a == "--enabled-reference-uris":
            opts["enabled_reference_uris"] = argv[i + 1].split(",")
            i += 2
        elif a == "--enabled-key-data":
            opts["enabled_key_data"] = argv[i + 1].split(",")
            i += 2
        elif a == "--session-key":
            opts["session_key"] = argv[i + 1]
            i += 2
        elif a == "--xml-data":
            opts["xml_data"] = argv[i + 1]
            i += 2
        elif a == "--output":
            opts["output"] = argv[i + 1]
            i += 2
        elif a in ("--lax-key-search", "--store-signatures", "--print-debug"):
            i += 1
        elif a.startswith("--"):
            raise XErr("unknown option %r" % a)
        else:
            opts["files"].append(a)
            i += 1
    return cmd, opts


def main(argv):
    """argv without the program name.  Returns (returncode, stdout, stderr)."""
    try:
        cmd, opts = parse_args(argv)
        if cmd == "version":
            return 0, b"xmlsec1 1.2.37 (openssl)\n", b""
        if cmd == "list-transforms":
            return 0, b"Registered transforms klasses:\n" + TRANSFORMS_LINE.encode() + b"\n", b""
        if cmd is None or not opts["files"]:
            raise XErr("usage")
        with open(opts["files"][-1], "rb") as f:
            data = f.read()
        fn = {"sign": do_sign, "verify": do_verify, "encrypt": do_encrypt, "decrypt": do_decrypt}[cmd]
        out, stdout, stderr = fn(opts, data)
        if out is None:
            return 1, stdout, stderr
        if opts.get("output"):
            with open(opts["output"], "wb") as f:
                f.write(out)
        else:
            stdout = out
        return 0, stdout, stderr
    except XErr as e:
        _log({"op": "error", "msg": str(e)})
        return 1, b"", ("Error: %s\n" % e).encode()


class FakePopen:
    """In-process replacement for subprocess.Popen used by saml2.sigver/algsupport."""

    def __init__(self, com_list, stderr=None, stdout=None, **kw):
        self.returncode, self._out, self._err = main(list(com_list[1:]))

    def communicate(self, *a, **kw):
        return self._out, self._err


if __name__ == "__main__":
    rc, out, err = main(sys.argv[1:])
    sys.stdout.buffer.write(out)
    sys.stderr.buffer.write(err)
    sys.exit(rc)
