"""Key pairs / certificates used by the harness (generated once, committed).

Identities: idp (signing), idp2 (rotated signing key of the idp), idpenc
(encryption-only key of the idp), other (another federation member), sp (the
receiver's own key), attacker (unknown to every metadata), spenc2 (second SP
encryption key for rotation).
"""
import datetime
import os

HERE = os.path.dirname(os.path.abspath(__file__))
FIXDIR = os.path.join(os.path.dirname(HERE), "fixtures")
NAMES = ["idp", "idp2", "idpenc", "other", "sp", "attacker", "spenc2"]


def key_path(name):
    return os.path.join(FIXDIR, name + ".key")


def cert_path(name):
    return os.path.join(FIXDIR, name + ".pem")


def cert_b64(name):
    """base64 body of the certificate (what goes into ds:X509Certificate)."""
    with open(cert_path(name)) as f:
        lines = [l.strip() for l in f if "CERTIFICATE" not in l]
    return "".join(lines)


def generate():
    from cryptography import x509
    from cryptography.hazmat.primitives import hashes, serialization
    from cryptography.hazmat.primitives.asymmetric import rsa
    from cryptography.x509.oid import NameOID

    os.makedirs(FIXDIR, exist_ok=True)
    for n in NAMES:
        if os.path.exists(key_path(n)) and os.path.exists(cert_path(n)):
            continue
        key = rsa.generate_private_key(public_exponent=65537, key_size=2048)
        subj = x509.Name([x509.NameAttribute(NameOID.COMMON_NAME, "verif-" + n)])
        cert = (
            x509.CertificateBuilder()
            .subject_name(subj)
            .issuer_name(subj)
            .public_key(key.public_key())
            .serial_number(x509.random_serial_number())
            .not_valid_before(datetime.datetime(2020, 1, 1))
            .not_valid_after(datetime.datetime(2120, 1, 1))
            .sign(key, hashes.SHA256())
        )
        with open(key_path(n), "wb") as f:
            f.write(
                key.private_bytes(
                    serialization.Encoding.PEM,
                    serialization.PrivateFormat.TraditionalOpenSSL,
                    serialization.NoEncryption(),
                )
            )
        with open(cert_path(n), "wb") as f:
            f.write(cert.public_bytes(serialization.Encoding.PEM))


if __name__ == "__main__":
    generate()
    print("fixtures in", FIXDIR)
