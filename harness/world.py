"""Standard little federation for the harness: one IdP, one SP, one other member.

Metadata documents are rendered by string templates (independent of the
pysaml2 element classes); configurations are plain dicts handed to the real
saml2.config classes.
"""
from xml.sax.saxutils import escape, quoteattr

from harness import env, fixtures

BINDING_HTTP_REDIRECT = "urn:oasis:names:tc:SAML:2.0:bindings:HTTP-Redirect"
BINDING_HTTP_POST = "urn:oasis:names:tc:SAML:2.0:bindings:HTTP-POST"
BINDING_SOAP = "urn:oasis:names:tc:SAML:2.0:bindings:SOAP"
BINDING_PAOS = "urn:oasis:names:tc:SAML:2.0:bindings:PAOS"
BINDING_HTTP_ARTIFACT = "urn:oasis:names:tc:SAML:2.0:bindings:HTTP-Artifact"
BINDING_URI = "urn:oasis:names:tc:SAML:2.0:bindings:URI"
BINDING_DISCO = "urn:oasis:names:tc:SAML:profiles:SSO:idp-discovery-protocol"

IDP_ID = "https://idp.example.org/idp.xml"
SP_ID = "https://sp.example.org/sp.xml"
OTHER_ID = "https://other.example.org/idp.xml"

SP_ACS_POST = "https://sp.example.org/acs/post"
SP_ACS_REDIRECT = "https://sp.example.org/acs/redirect"
SP_SLO_REDIRECT = "https://sp.example.org/slo/redirect"
SP_SLO_POST = "https://sp.example.org/slo/post"
SP_SLO_SOAP = "https://sp.example.org/slo/soap"
IDP_SSO_REDIRECT = "https://idp.example.org/sso/redirect"
IDP_SSO_POST = "https://idp.example.org/sso/post"
IDP_SLO_SOAP = "https://idp.example.org/slo/soap"
IDP_SLO_REDIRECT = "https://idp.example.org/slo/redirect"
IDP_SLO_POST = "https://idp.example.org/slo/post"

MD_NS = 'xmlns:md="urn:oasis:names:tc:SAML:2.0:metadata" xmlns:ds="http://www.w3.org/2000/09/xmldsig#"'
PROTO = "urn:oasis:names:tc:SAML:2.0:protocol"


def key_descriptor(certname, use=None):
    u = ' use="%s"' % use if use else ""
    return (
        "<md:KeyDescriptor%s><ds:KeyInfo><ds:X509Data><ds:X509Certificate>%s"
        "</ds:X509Certificate></ds:X509Data></ds:KeyInfo></md:KeyDescriptor>" % (u, fixtures.cert_b64(certname))
    )


def endpoint(tag, binding, location, index=None, extra=""):
    idx = ' index="%s"' % index if index is not None else ""
    return "<md:%s Binding=%s Location=%s%s%s/>" % (tag, quoteattr(binding), quoteattr(location), idx, extra)


def idp_descriptor(entity_id, keys, sso=None, slo=None, extra="", want_authn_requests_signed=None, proto=PROTO):
    """keys: list of (certname, use)."""
    sso = sso if sso is not None else [(BINDING_HTTP_REDIRECT, IDP_SSO_REDIRECT), (BINDING_HTTP_POST, IDP_SSO_POST)]
    slo = slo if slo is not None else [
        (BINDING_SOAP, IDP_SLO_SOAP), (BINDING_HTTP_REDIRECT, IDP_SLO_REDIRECT), (BINDING_HTTP_POST, IDP_SLO_POST)]
    w = "" if want_authn_requests_signed is None else ' WantAuthnRequestsSigned="%s"' % (
        "true" if want_authn_requests_signed else "false")
    return (
        "<md:EntityDescriptor %s entityID=%s><md:IDPSSODescriptor protocolSupportEnumeration=%s%s>%s%s%s%s"
        "</md:IDPSSODescriptor></md:EntityDescriptor>"
        % (
            MD_NS, quoteattr(entity_id), quoteattr(proto), w, extra,
            "".join(key_descriptor(c, u) for c, u in keys),
            "".join(endpoint("SingleLogoutService", b, l) for b, l in slo),
            "".join(endpoint("SingleSignOnService", b, l) for b, l in sso),
        )
    )


def sp_descriptor(entity_id, keys, acs=None, slo=None, extra="", authn_requests_signed=None,
                  want_assertions_signed=None, acs_extra=""):
    acs = acs if acs is not None else [(BINDING_HTTP_POST, SP_ACS_POST, 1), (BINDING_HTTP_REDIRECT, SP_ACS_REDIRECT, 2)]
    slo = slo if slo is not None else [
        (BINDING_HTTP_REDIRECT, SP_SLO_REDIRECT), (BINDING_HTTP_POST, SP_SLO_POST), (BINDING_SOAP, SP_SLO_SOAP)]
    a = ""
    if authn_requests_signed is not None:
        a += ' AuthnRequestsSigned="%s"' % ("true" if authn_requests_signed else "false")
    if want_assertions_signed is not None:
        a += ' WantAssertionsSigned="%s"' % ("true" if want_assertions_signed else "false")
    return (
        "<md:EntityDescriptor %s entityID=%s><md:SPSSODescriptor protocolSupportEnumeration=%s%s>%s%s%s%s%s"
        "</md:SPSSODescriptor></md:EntityDescriptor>"
        % (
            MD_NS, quoteattr(entity_id), quoteattr(PROTO), a, extra,
            "".join(key_descriptor(c, u) for c, u in keys),
            "".join(endpoint("SingleLogoutService", b, l) for b, l in slo),
            "".join(endpoint("AssertionConsumerService", b, l, i) for b, l, i in acs),
            acs_extra,
        )
    )


def entities(*descs):
    return "<md:EntitiesDescriptor %s>%s</md:EntitiesDescriptor>" % (MD_NS, "".join(descs))


def default_idp_md():
    return idp_descriptor(IDP_ID, [("idp", "signing"), ("idp2", "signing"), ("idpenc", "encryption")])


def default_other_md():
    return idp_descriptor(
        OTHER_ID, [("other", None)],
        sso=[(BINDING_HTTP_REDIRECT, "https://other.example.org/sso/redirect")],
        slo=[(BINDING_SOAP, "https://other.example.org/slo/soap")])


def default_sp_md():
    return sp_descriptor(SP_ID, [("sp", None)])


def sp_config(metadata_xml=None, **over):
    """Dict for saml2.config.SPConfig.  `over` entries whose key starts with
    'sp_' go into the service/sp section (prefix stripped)."""
    if metadata_xml is None:
        metadata_xml = [default_idp_md(), default_other_md()]
    sp_section = {
        "endpoints": {
            "assertion_consumer_service": [(SP_ACS_POST, BINDING_HTTP_POST), (SP_ACS_REDIRECT, BINDING_HTTP_REDIRECT)],
            "single_logout_service": [
                (SP_SLO_REDIRECT, BINDING_HTTP_REDIRECT), (SP_SLO_POST, BINDING_HTTP_POST), (SP_SLO_SOAP, BINDING_SOAP)],
        },
        "idp": [IDP_ID],
    }
    conf = {
        "entityid": SP_ID,
        "service": {"sp": sp_section},
        "key_file": fixtures.key_path("sp"),
        "cert_file": fixtures.cert_path("sp"),
        "xmlsec_binary": env.STANDIN_PATH,
        "metadata": {"inline": list(metadata_xml)},
        "delete_tmpfiles": True,
        "encryption_keypairs": [{"key_file": fixtures.key_path("sp"), "cert_file": fixtures.cert_path("sp")}],
    }
    for k, v in over.items():
        if k.startswith("sp_"):
            sp_section[k[3:]] = v
        else:
            conf[k] = v
    return conf


def idp_config(metadata_xml=None, **over):
    if metadata_xml is None:
        metadata_xml = [default_sp_md()]
    idp_section = {
        "endpoints": {
            "single_sign_on_service": [(IDP_SSO_REDIRECT, BINDING_HTTP_REDIRECT), (IDP_SSO_POST, BINDING_HTTP_POST)],
            "single_logout_service": [
                (IDP_SLO_SOAP, BINDING_SOAP), (IDP_SLO_REDIRECT, BINDING_HTTP_REDIRECT), (IDP_SLO_POST, BINDING_HTTP_POST)],
        },
        "policy": {"default": {"lifetime": {"minutes": 15}, "attribute_restrictions": None, "name_form":
                               "urn:oasis:names:tc:SAML:2.0:attrname-format:uri"}},
        "name": "verif idp",
    }
    conf = {
        "entityid": IDP_ID,
        "service": {"idp": idp_section},
        "key_file": fixtures.key_path("idp"),
        "cert_file": fixtures.cert_path("idp"),
        "xmlsec_binary": env.STANDIN_PATH,
        "metadata": {"inline": list(metadata_xml)},
        "delete_tmpfiles": True,
    }
    for k, v in over.items():
        if k.startswith("idp_"):
            idp_section[k[4:]] = v
        else:
            conf[k] = v
    return conf


def make_sp(**over):
    env.install_standin()
    from saml2.client import Saml2Client
    from saml2.config import SPConfig

    c = SPConfig()
    c.load(sp_config(**over))
    return Saml2Client(config=c)


def make_idp(**over):
    env.install_standin()
    from saml2.config import IdPConfig
    from saml2.server import Server

    c = IdPConfig()
    c.load(idp_config(**over))
    return Server(config=c)
