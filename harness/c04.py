"""C04 — assertions addressed to someone else are never accepted.

A case is either ONE Response presented to a provider (the keys rs/dest/recip/conv/binding/cfg, optionally
"cond" = the shape of the <Conditions> element and "confs" = the LIST of SubjectConfirmation elements, or
"asserts" = the LIST of assertions the Response delivers, each plain / encrypted / inside an <Advice>) or a
SEQUENCE of calls on several long-lived provider objects living in one process (the keys sps/steps).
Every sequence is observed in a process forked from one in which no provider object has ever been used
(see _zygote): the observation is a function of the case alone, also when the code under test keeps
state between calls or shares it between objects, so a failing sequence replays."""
import itertools
import json
import os
import traceback

from harness import env, render, spaccept, world
from harness.common import Raw, cq, cq_opt

PID = "C04"
PARALLEL = 12
IMPORTS = "From Verif Require Import C04.Model C04.Spec C04.Corr.\nFrom VerifGen Require Import C04Abbrev."
SHARD = 260           # cases per coqc file (16 files are evaluated side by side)
CASE_TYPE = "C04.Corr.case"
RUNNER = "C04.Corr.run"
FINDING_CLASSES = {1: "C04-F1", 2: "C04-F2"}
RULE = ("(1) single Responses: complete enumeration of audience structures up to 2 restrictions x 2 audiences over an 8-value alphabet "
        "(quick: all shapes with <=1 audience per restriction + seeded sample of the rest), complete product of "
        "Destination(8) x Recipient(9) x conv_info(3) x binding(2) x endpoint configuration(5, incl. SPs with no consumer endpoint for the binding used), plus random look-alike "
        "strings; every case is a Response signed by the IdP key and run through parse_authn_request_response. "
        "non-trivial = distinct (restriction shape class, dest class, recipient class, conv, binding, config) on which "
        "at least one addressing check is exercised with a non-default value.  "
        "(2) call sequences on long-lived provider objects in one process: a pool of 8 provider configurations (own/other "
        "entityID x own/other/swapped/bare/one-binding-only consumer URLs, with and without logout endpoints); for EVERY "
        "ordered pair of distinct configurations and both bindings: one earlier call on the first object (service_urls / "
        "create_authn_request / a good login / Config.endpoint of another service; all four kinds in the thorough tier, "
        "rotating in the quick tier) followed by a Response addressed (Destination, Recipient) to the FIRST object's "
        "endpoint presented to the SECOND, and the same with the first object's entityID as audience; per configuration "
        "the same-object sequences (other binding first, logout endpoints first, conv_info first/absent first, foreign "
        "Recipient first) in both orders; plus seeded random sequences of 3-8 calls over 1-3 objects whose "
        "Destination/Recipient/Audience values are drawn from the endpoints and entityIDs of ALL objects of the case.  "
        "non-trivial for a sequence = distinct (per call: kind, object, binding, classes of Destination/Recipient/"
        "Audience relative to the called object and to the other objects, conv).  "
        "(3) the SHAPE of the message (message_cases / message_sequences): <Conditions> with every combination of "
        "{NotBefore present/absent} x {NotOnOrAfter present/absent} x {no other child, OneTimeUse, ProxyRestriction naming me / "
        "someone else} x 8 core audience structures (complete), no <Conditions> at all, period-less Conditions x the whole "
        "single-audience alphabet; SubjectConfirmation LISTS of length 0-4 over a 21-letter alphabet (bearer x 8 Recipient "
        "classes, bearer without data / with data that does not confirm (NotBefore only) / without window, holder-of-key "
        "with/without KeyInfo/data, sender-vouches with/without data, unknown method): all singles x 3 conv_info, all ordered "
        "pairs over the 9-letter core (thorough: all 441 pairs x 2), seeded samples of the rest and of triples/quadruples; "
        "seeded mixtures of all dimensions at once; the back-channel binding SOAP (Destination x Recipient x conv_info, "
        "audience structures); unsolicited Responses (no InResponseTo, SP allows them) x Destination x Recipient x "
        "conv_info x binding x audience structures; the same shapes inside call sequences on every pool configuration.  "
        "(4) the NUMBER of assertions a Response delivers and the way each travels (response_cases): every list over "
        "{plain, encrypted} up to length 3 (the empty one, those the count test refuses, 1+k / k+1 mixtures; also 4 and 5 "
        "assertions) x at every position {addressed to me, audience of someone else, foreign Recipient} (complete for length "
        "<= 2, length 3: at most one faulty assertion + seeded sample; thorough: complete), the two-assertion shapes x a "
        "14-letter alphabet per assertion (look-alike / case / second-restriction / period-less / no Conditions / Recipient = "
        "entityID / confirmation lists / no confirmation), x binding (POST, Redirect, SOAP) x conv_info x Destination x "
        "unsolicited x endpoint configuration, seeded mixtures in which every assertion has its own Conditions shape and "
        "confirmation list; assertions INSIDE the <Advice> of a plain / encrypted assertion (advice_cases: one or two of "
        "them, in the clear or as EncryptedAssertion inside the Advice, under the first / second / both top-level assertions, "
        "x 10 letters); the observation is PER ASSERTION: is the "
        "identity the caller gets (NameID returned / cached, attributes returned / cached, the assertion handed out) drawn "
        "from it (each delivered assertion carries a NameID and an attribute of its own).  "
        "(5) slot confusion (cross_cases): every string the provider knows about itself, the caller tells it in the "
        "conversation info or the message mentions (own entityID, entity_id of the conversation info incl. one that differs "
        "from the configured entityID, own consumer URL for this / the other binding, own logout URL, remote_addr, the IdP's "
        "entityID and endpoint, request id, relay state) in each of the places Destination / Recipient / Audience and in "
        "Destination + Recipient at once, x 10 kinds of conversation info ({}, entity_id None / '' / own / other / a consumer "
        "URL, with and without remote_addr) x binding, also on bare / one-binding configurations; call sequences "
        "(cross_sequences) in which a call WITH conversation info or a multi-assertion Response precedes calls without, on "
        "every pool configuration, pairs of objects and seeded random sequences")
TRUSTED = ["source-to-Gallina translator harness/py2coq.py + value universe coq/theories/Base/Py.v (for_me is re-translated "
           "from the source text on every run; c04_source_for_me proves it equal to the model)",
           "translator harness/py2coq2.py + coq/theories/Base/Py2.v (source text -> Gallina, fail-closed; not modelled: "
           "aliasing of mutable objects, set order, Unicode case mapping, generators' laziness), used by "
           "harness/c04.py:regenerate_tables for response.py:for_me, response.py:AuthnResponse.verify_recipient, "
           "response.py:AuthnResponse.get_subject, response.py:StatusResponse._verify, response.py:AuthnResponse.condition_ok, "
           "config.py:Config.endpoint, client_base.py:Base.service_urls (coq/gen/C04Src2.v; theorems c04_source2_*); the "
           "translation specs of harness/c04.py:source2_items: external calls (verify_attesting_entity, _bearer_confirmed, "
           "_holder_of_key_confirmed, issue_instant_ok, status_ok, later_than, validate_on_or_after, validate_before, "
           "Conditions.keyswv, Config.getattr, type) as extra arguments constrained only by the Section hypotheses of "
           "C04/Source2.v, SCM_* / XSI_TYPE taken from the live modules, the float literal 2.0 of StatusResponse._verify "
           "replaced by an extra argument (harness/c04.py:_without_float), exception class parents EXC_PARENTS",
           "xmlsec1 stand-in (harness/standin/xmlsec1.py)", "renderer harness/render.py", "abstraction in harness/c04.py",
           "os.fork isolation of the call-sequence observations (harness/c04.py:_zygote/_isolated)"]
ASSUMPTIONS = ["whitespace padding uses ASCII whitespace only (model's strip is the ASCII part of str.strip)",
               "a SubjectConfirmation 'confirms' (d_confirmed) as read by harness/c04.py:confirmed from the rendered shape: bearer / "
               "sender-vouches data unless it has a NotBefore without NotOnOrAfter, holder-of-key data iff it contains ds:KeyInfo; "
               "confirmation data that is expired / not yet valid makes the whole Response fail and is not generated",
               "everything else about the Response is valid (status, times, signature, InResponseTo)",
               "call sequences: the calls of one case are made one after the other in one thread",
               "several assertions: encrypted assertions are encrypted for the SP's own certificate (RSA-OAEP + AES-128-CBC through "
               "the stand-in) and decrypt; assertions are unsigned (the Response is signed by the IdP); advised assertions are "
               "<Assertion> or <EncryptedAssertion> children of the <Advice> of a top-level assertion, without AuthnStatement, each with "
               "exactly one AttributeStatement; 'identity drawn from assertion k' is read off the distinct NameID / attribute name "
               "/ assertion ID every delivered assertion is given (harness/c04.py:_parse_step)"]

ME = world.SP_ID
OTHER = "https://other.example.org/sp.xml"
POST, REDIRECT = world.BINDING_HTTP_POST, world.BINDING_HTTP_REDIRECT
SOAP = "urn:oasis:names:tc:SAML:2.0:bindings:SOAP"
SP_ACS_SOAP = "https://sp.example.org/acs/soap"

CONFIGS = {
    "default": [(world.SP_ACS_POST, POST), (world.SP_ACS_REDIRECT, REDIRECT)],
    "bare": [world.SP_ACS_POST],
    "twopost": [(world.SP_ACS_POST, POST), ("https://sp.example.org/acs/post2", POST), (world.SP_ACS_REDIRECT, REDIRECT)],
    # consumer endpoints for one binding only: on the other binding the SP has NO own endpoint (return_addrs = [])
    "postonly": [(world.SP_ACS_POST, POST)],
    "redironly": [(world.SP_ACS_REDIRECT, REDIRECT)],
}
# configurations used only by the back-channel cases (kept out of the Destination x Recipient product above)
CONFIGS_EXTRA = {
    "soap": [(world.SP_ACS_POST, POST), (SP_ACS_SOAP, SOAP)],
    # the other legal spelling of an endpoint specification: (url, binding, index)
    "indexed": [(world.SP_ACS_POST, POST, 1), ("https://sp.example.org/acs/post2", POST, 2), (world.SP_ACS_REDIRECT, REDIRECT, 3)],
}


def cfg_eps(cfg):
    return CONFIGS[cfg] if cfg in CONFIGS else CONFIGS_EXTRA[cfg]


# ------------------------------------------------------------------ provider objects of the call sequences
EVIL = "https://evil.example.com/acs"
SERVICES = ("assertion_consumer_service", "single_logout_service")


def _slo(host):
    return [["https://%s/slo/redirect" % host, REDIRECT], ["https://%s/slo/post" % host, POST]]


def _prov(eid, acs, slo):
    return {"eid": eid, "acs": [list(e) if isinstance(e, (tuple, list)) else e for e in acs], "slo": slo}


POOL = {
    # the standard SP
    "std": _prov(ME, CONFIGS["default"], [[world.SP_SLO_REDIRECT, REDIRECT], [world.SP_SLO_POST, POST]]),
    # another tenant: other entityID, other URLs
    "tenant": _prov("https://sp2.example.org/sp.xml", [("https://sp2.example.org/acs/post", POST),
                                                      ("https://sp2.example.org/acs/redirect", REDIRECT)], _slo("sp2.example.org")),
    # same entityID, other consumer URLs (second deployment of the same SP)
    "moved": _prov(ME, [("https://sp.example.org/acs/post2", POST), ("https://sp.example.org/acs/redirect2", REDIRECT)],
                   [[world.SP_SLO_REDIRECT, REDIRECT], [world.SP_SLO_POST, POST]]),
    # other entityID behind the same consumer URLs
    "alias": _prov("https://sp3.example.org/sp.xml", CONFIGS["default"], []),
    # same entityID, the two URLs registered for the opposite bindings
    "swapped": _prov(ME, [(world.SP_ACS_REDIRECT, POST), (world.SP_ACS_POST, REDIRECT)], _slo("sp.example.org")),
    # bare endpoint (no binding)
    "bare": _prov("https://sp4.example.org/sp.xml", ["https://sp4.example.org/acs"], []),
    # consumer endpoint for one binding only
    "postonly": _prov("https://sp5.example.org/sp.xml", [("https://sp5.example.org/acs/post", POST)], _slo("sp5.example.org")),
    "redironly": _prov("https://sp6.example.org/sp.xml", [("https://sp6.example.org/acs/redirect", REDIRECT)], _slo("sp6.example.org")),
}


def p_own(prov, binding, service="acs"):
    """Config.endpoint as the harness understands the configuration (independent of the code under test)."""
    eps = prov[service]
    spec = [e[0] for e in eps if not isinstance(e, str) and e[1] == binding]
    return spec or [e for e in eps if isinstance(e, str)]


def p_urls(prov, service="acs"):
    return [e if isinstance(e, str) else e[0] for e in prov[service]]


def s_parse(i, binding, rs, dest, recip, conv):
    return {"op": "parse", "sp": i, "binding": binding, "rs": rs, "dest": dest, "recip": recip, "conv": conv}


def s_good(sps, i, binding, conv=None):
    """A Response correctly addressed to object i (if it has a consumer endpoint for the binding)."""
    own = p_own(sps[i], binding)
    u = own[0] if own else "https://sp.example.org/acs/unregistered"
    return s_parse(i, binding, [[sps[i]["eid"]]], u, u, conv)


def s_call(kind, i, binding, service="single_logout_service"):
    if kind == "endp":
        return {"op": "endp", "sp": i, "service": service, "binding": binding}
    return {"op": kind, "sp": i, "binding": binding}


def mk_seq(sps, steps, tag):
    return {"sps": sps, "steps": steps, "tag": tag}


WARM = ("urls", "authn", "login", "endp")


def pair_cases(ctx):
    """Two objects with different configurations: one earlier call on the first, then a Response addressed to
    the FIRST one presented to the SECOND."""
    out = []
    names = list(POOL)
    n = 0
    for x in names:
        for y in names:
            if x == y:
                continue
            sps = [POOL[x], POOL[y]]
            for binding in (POST, REDIRECT):
                kinds = WARM if ctx.thorough else (WARM[n % len(WARM)],)
                n += 1
                for kind in kinds:
                    if kind == "login":
                        warm = s_good(sps, 0, binding)
                    else:
                        warm = s_call(kind, 0, binding)
                    theirs = p_own(sps[0], binding, "slo" if kind == "endp" else "acs") or p_urls(sps[0])
                    conv = {"entity_id": sps[1]["eid"]}
                    for u in (theirs if ctx.thorough else theirs[:1]):
                        out.append(mk_seq(sps, [warm, s_parse(1, binding, [[sps[1]["eid"]]], u, u, conv)], "pair-addr"))
            # the first object's entityID as audience, at the second; then the second's own Response
            mine = (p_own(sps[1], POST) or ["https://sp.example.org/acs/unregistered"])[0]
            out.append(mk_seq(sps, [s_good(sps, 0, POST), s_parse(1, POST, [[sps[0]["eid"]]], mine, mine, None),
                                    s_good(sps, 1, POST, {"entity_id": sps[1]["eid"]})], "pair-aud"))
    return out


def same_object_cases(ctx):
    """One long-lived object: what an earlier call (other binding, other service, other conv_info, a refused
    Response) must not change for a later one."""
    out = []
    for name, prov in POOL.items():
        sps = [prov]
        conv = {"entity_id": prov["eid"]}
        for b1, b2 in ((POST, REDIRECT), (REDIRECT, POST)):
            for u in (p_own(prov, b1) or p_urls(prov))[:1]:
                attack = s_parse(0, b2, [[prov["eid"]]], u, u, conv)
                out.append(mk_seq(sps, [s_good(sps, 0, b1), attack, s_good(sps, 0, b2, conv)], "same-binding"))
                out.append(mk_seq(sps, [s_call("urls", 0, b1), s_call("authn", 0, b1), attack, s_call("urls", 0, b2)], "same-binding"))
        for b in (POST, REDIRECT):
            for u in p_own(prov, b, "slo")[:1]:
                out.append(mk_seq(sps, [s_call("endp", 0, b), s_parse(0, b, [[prov["eid"]]], u, u, conv),
                                        s_call("urls", 0, b), s_call("endp", 0, b)], "same-service"))
                out.append(mk_seq(sps, [s_call("urls", 0, b), s_call("endp", 0, b),
                                        s_call("endp", 0, b, "assertion_consumer_service"),
                                        s_parse(0, b, [[prov["eid"]]], u, u, conv)], "same-service"))
        g = (p_own(prov, POST) or ["https://sp.example.org/acs/unregistered"])[0]
        lax = s_parse(0, POST, [[prov["eid"]]], g, EVIL, None)          # no conv_info: Recipient not examined
        strict = s_parse(0, POST, [[prov["eid"]]], g, EVIL, conv)       # conv_info: must be refused
        out.append(mk_seq(sps, [lax, strict, lax], "same-conv"))
        out.append(mk_seq(sps, [strict, lax, strict], "same-conv"))
        bad = s_parse(0, POST, [[prov["eid"]]], EVIL, EVIL, conv)
        out.append(mk_seq(sps, [bad, bad, s_good(sps, 0, POST, conv), bad], "same-repeat"))
        other = s_parse(0, POST, [[OTHER]], g, g, conv)
        out.append(mk_seq(sps, [s_good(sps, 0, POST, conv), other, s_parse(0, POST, [[OTHER], [prov["eid"]]], g, g, conv)], "same-aud"))
    return out


def random_sequences(ctx, count):
    rng = ctx.rng
    out = []
    names = list(POOL)
    for _ in range(count):
        k = rng.choice([1, 2, 2, 2, 3])
        chosen = [rng.choice(names) for _ in range(k)] if rng.random() < .25 else rng.sample(names, k)   # twins allowed
        sps = [POOL[c] for c in chosen]
        eids = sorted({p["eid"] for p in sps} | {OTHER})
        urls = sorted({u for p in sps for u in p_urls(p) + p_urls(p, "slo")})
        steps = []
        for _ in range(rng.randint(3, 8)):
            i = rng.randrange(k)
            b = rng.choice([POST, REDIRECT])
            r = rng.random()
            if r < .12:
                steps.append(s_call("urls", i, b))
            elif r < .22:
                steps.append(s_call("authn", i, b))
            elif r < .34:
                steps.append(s_call("endp", i, b, rng.choice(SERVICES)))
            else:
                good = s_good(sps, i, b)
                own = good["dest"]
                addr = [None, "", EVIL, own[:-1], own + "/x"] + urls + urls   # the objects' URLs twice as likely
                dest = own if rng.random() < .5 else rng.choice(addr)
                recip = own if rng.random() < .5 else rng.choice(addr + eids)
                me = sps[i]["eid"]
                o = rng.choice(eids)
                rs = [[me]] if rng.random() < .6 else rng.choice([[[o]], [[o], [me]], [[me], [o]], [[o, me]], [], [[me + "x"]], [[me], [" " + me + " "]]])
                conv = rng.choice([None, {"entity_id": me}, {"entity_id": me, "remote_addr": "192.0.2.7"}, {"remote_addr": "0.0.0.0"}])
                steps.append(s_parse(i, b, rs, dest, recip, conv))
        out.append(mk_seq(sps, steps, "seq-random"))
    return out


# ------------------------------------------------------------------ the whole message: Conditions shape, confirmation list
# "cond": None (= the usual Conditions: NotBefore + NotOnOrAfter + the restrictions of "rs") or
#         {"present": bool, "nb": bool, "nooa": bool, "other": None|"onetime"|"proxy-me"|"proxy-other"|"onetime+proxy"}
#         (present False: the assertion has no <Conditions> element; "rs" must then be []).
# "confs": None (= one bearer confirmation with data whose Recipient is "recip") or a list, in document order, of
#         {"m": "bearer"|"hok"|"sv"|"other", "data": None | {"recip": str|None, "shape": ...}}
#         shape, bearer/sv/other: "ok" (NotOnOrAfter in the future), "nowindow" (neither attribute), "nbonly" (a NotBefore
#         in the past but no NotOnOrAfter: such data does not confirm a bearer);  hok: "ki" (KeyInfo inside) | "noki".
METHODS = {"bearer": render.SCM_BEARER, "hok": "urn:oasis:names:tc:SAML:2.0:cm:holder-of-key",
           "sv": "urn:oasis:names:tc:SAML:2.0:cm:sender-vouches", "other": "urn:example:cm:unknown"}
COQ_METHOD = {"bearer": "Bearer", "hok": "HolderOfKey", "sv": "SenderVouches", "other": "OtherMethod"}
OTHERS = (None, "onetime", "proxy-me", "proxy-other")


def conf(m, recip=None, shape="ok", data=True):
    return {"m": m, "data": {"recip": recip, "shape": shape} if data else None}


def confirmed(c):
    """The harness's own reading of 'this confirmation data confirms the subject for its method' (Web SSO profile 4.1.4.2:
    bearer data carries a NotOnOrAfter; core 3.1: holder-of-key data carries KeyInfo) - independent of the code under test."""
    d = c["data"]
    if d is None:
        return False
    if c["m"] == "hok":
        return d["shape"] == "ki"
    return d["shape"] != "nbonly"


def _conf_xml(c, irt="req-1"):
    d = c["data"]
    data = ""
    if d is not None:
        sh = d["shape"]
        nb = env.iso(spaccept.NOW - 300) if sh == "nbonly" else None
        nooa = None if sh in ("nbonly", "nowindow") else env.iso(spaccept.NOW + 300)
        attrs = "%s%s%s%s" % (render.attr("InResponseTo", irt), render.attr("NotBefore", nb),
                              render.attr("NotOnOrAfter", nooa), render.attr("Recipient", d["recip"]))
        if sh == "ki":
            data = ("<saml:SubjectConfirmationData%s><ds:KeyInfo><ds:KeyName>holder-key</ds:KeyName></ds:KeyInfo>"
                    "</saml:SubjectConfirmationData>" % attrs)
        else:
            data = "<saml:SubjectConfirmationData%s/>" % attrs
    return "<saml:SubjectConfirmation Method=%s>%s</saml:SubjectConfirmation>" % (render.quoteattr(METHODS[c["m"]]), data)


def _conditions(step, me_eid, other_eid):
    cond = step.get("cond")
    if cond is None:
        return "usual"
    if not cond["present"]:
        assert not step["rs"], "no <Conditions>: no restrictions"
        return None
    c = {"audience_restrictions": step["rs"]}
    if cond["nb"]:
        c["not_before"] = env.iso(spaccept.NOW - 300)
    if cond["nooa"]:
        c["not_on_or_after"] = env.iso(spaccept.NOW + 300)
    extra = ""
    o = cond["other"] or ""
    if "onetime" in o:
        extra += "<saml:OneTimeUse/>"
    if "proxy" in o:
        extra += '<saml:ProxyRestriction Count="1"><saml:Audience>%s</saml:Audience></saml:ProxyRestriction>' % (
            render.escape(me_eid if o.endswith("proxy-me") else other_eid))
    if extra:
        c["extra"] = extra
    return c


def conf_alphabet(own, eid, other_binding):
    """Every kind of SubjectConfirmation the acceptance path distinguishes, with Recipients drawn from the classes of the
    property text (own endpoint, entityID, foreign, look-alikes, absent, empty, own endpoint of another binding)."""
    al = [conf("bearer", r) for r in (own, eid, EVIL, own + "/x", own.upper(), None, "", other_binding)]
    al += [conf("bearer", data=False), conf("bearer", EVIL, "nbonly"), conf("bearer", own, "nbonly"),
           conf("bearer", EVIL, "nowindow"), conf("bearer", own, "nowindow"),
           conf("hok", own, "ki"), conf("hok", EVIL, "ki"), conf("hok", EVIL, "noki"), conf("hok", data=False),
           conf("sv", own), conf("sv", EVIL), conf("sv", data=False), conf("other", own)]
    return al


CORE_CONFS = (0, 1, 2, 3, 5, 8, 9, 15, 18)     # indexes into conf_alphabet: the bearer Recipient classes + one of each skip kind

AUD_CORE = [[], [[ME]], [[OTHER]], [[ME], [OTHER]], [[OTHER], [ME]], [[OTHER, ME]], [[ME + "x"]], [[ME.upper()]]]


def cond_shapes():
    return [{"present": True, "nb": nb, "nooa": nooa, "other": o} for nb in (True, False) for nooa in (True, False) for o in OTHERS]


def message_cases(ctx):
    """The dimensions of the message besides the VALUES of audience / Destination / Recipient: which optional parts the
    <Conditions> element has, how many SubjectConfirmation elements there are, of which method, with or without (usable)
    data, in which order - and the back-channel binding."""
    rng = ctx.rng
    cases = []
    good = {POST: world.SP_ACS_POST, REDIRECT: world.SP_ACS_REDIRECT}
    conv = {"entity_id": ME}

    def one(binding, rs, cond, confs, conv_, tag, dest="own", cfg="default"):
        d = good[binding] if dest == "own" else dest
        c = mk_case(rs, d, good.get(binding, SP_ACS_SOAP), conv_, binding, cfg, tag)
        if cond is not None:
            c["cond"] = cond
        if confs is not None:
            c["confs"] = confs
        return c

    # (a) <Conditions>: {NotBefore} x {NotOnOrAfter} x {no other child, OneTimeUse, ProxyRestriction naming me / someone else}
    #     x the core audience structures - complete; both bindings for the shapes without other children
    for cond in cond_shapes():
        for rs in AUD_CORE:
            cases.append(one(POST, rs, cond, None, None, "cond"))
            if cond["other"] is None:
                cases.append(one(REDIRECT, rs, cond, None, conv, "cond"))
    for binding in (POST, REDIRECT):      # no <Conditions> element at all
        for cv in (None, conv):
            cases.append(one(binding, [], {"present": False, "nb": False, "nooa": False, "other": None}, None, cv, "cond"))
    # period-less Conditions x the whole single-audience alphabet (incl. padded, look-alike, empty Audience)
    for a in aud_alphabet():
        for nb, nooa in ((False, False), (True, False), (False, True)):
            cases.append(one(POST, [[a]], {"present": True, "nb": nb, "nooa": nooa, "other": None}, None, None, "cond"))
            cases.append(one(POST, [[ME], [a]], {"present": True, "nb": nb, "nooa": nooa, "other": None}, None, None, "cond"))
    # (b) confirmation lists
    al = conf_alphabet(good[POST], ME, good[REDIRECT])
    convs = [conv, None, {"remote_addr": "0.0.0.0"}]
    cases.append(one(POST, [[ME]], None, [], conv, "confs"))
    cases.append(one(POST, [[ME]], None, [], None, "confs"))
    for c in al:
        for cv in convs:
            cases.append(one(POST, [[ME]], None, [c], cv, "confs"))
    core = [al[i] for i in CORE_CONFS]
    pairs = [[a, b] for a in al for b in al]
    if ctx.thorough:
        for pr in pairs:
            for cv in convs[:2]:
                cases.append(one(POST, [[ME]], None, pr, cv, "confs"))
    else:
        done = set()
        for a in core:
            for b in core:
                cases.append(one(POST, [[ME]], None, [a, b], conv, "confs"))
                done.add(json.dumps([a, b], sort_keys=True))
        rest = [pr for pr in pairs if json.dumps(pr, sort_keys=True) not in done]
        for pr in rng.sample(rest, 90):
            cases.append(one(POST, [[ME]], None, pr, rng.choice(convs[:2]), "confs"))
    for _ in range(500 if ctx.thorough else 50):
        n = rng.choice([3, 3, 4])
        cs = [rng.choice(al) if rng.random() < .5 else rng.choice(core[:2]) for _ in range(n)]
        cases.append(one(rng.choice([POST, REDIRECT]), [[ME]], None, cs, rng.choice(convs), "confs"))
    # (c) everything at once: a fault in one dimension hidden behind unusual shapes in the others
    shapes = cond_shapes()
    for _ in range(600 if ctx.thorough else 70):
        binding = rng.choice([POST, REDIRECT])
        own = good[binding]
        alb = conf_alphabet(own, ME, good[REDIRECT if binding == POST else POST])
        cs = [rng.choice(alb) if rng.random() < .4 else alb[rng.choice([0, 0, 1])] for _ in range(rng.choice([1, 2, 2, 3]))]
        rs = rng.choice(AUD_CORE[1:]) if rng.random() < .5 else [[ME]]
        dest = "own" if rng.random() < .7 else rng.choice([None, "", EVIL, own + "/x", good[REDIRECT if binding == POST else POST]])
        cases.append(one(binding, rs, rng.choice(shapes), cs, rng.choice(convs), "mixed", dest=dest))
    # (e) unsolicited Responses (no InResponseTo; the SP allows them): the same three clauses
    noperiod = {"present": True, "nb": False, "nooa": False, "other": None}
    for binding in (POST, REDIRECT):
        own, ob = good[binding], good[REDIRECT if binding == POST else POST]
        for dest in (None, own, EVIL, own + "/x", ob):
            for recip in (own, ME, EVIL, own[:-1], ob, None):
                for cv in (conv, None):
                    if not ctx.thorough and cv is None and dest not in (own, EVIL):
                        continue
                    c = one(binding, [[ME]], None, [conf("bearer", recip)], cv, "unsol", dest=dest)
                    c["unsol"] = True
                    cases.append(c)
        for rs in AUD_CORE:
            for cond in (None, noperiod):
                c = one(binding, rs, cond, None, conv, "unsol")
                c["unsol"] = True
                cases.append(c)
        c = one(binding, [[ME]], noperiod, [conf("bearer", EVIL), conf("bearer", own)], conv, "unsol")
        c["unsol"] = True
        cases.append(c)
    # (d) the back-channel binding (SOAP): no Destination obligation there, audience and Recipient clauses unchanged
    for dest in (None, SP_ACS_SOAP, EVIL, world.SP_ACS_POST):
        for recip in (SP_ACS_SOAP, EVIL, ME, world.SP_ACS_POST, None):
            for cv in (None, conv):
                cases.append(one(SOAP, [[ME]], None, [conf("bearer", recip)], cv, "soap", dest=dest, cfg="soap"))
    for rs in AUD_CORE:
        cases.append(one(SOAP, rs, {"present": True, "nb": False, "nooa": False, "other": None}, None, conv, "soap", dest=SP_ACS_SOAP, cfg="soap"))
    cases.append(one(SOAP, [[ME]], None, [conf("bearer", EVIL), conf("bearer", SP_ACS_SOAP)], conv, "soap", dest=None, cfg="soap"))
    cases.append(one(SOAP, [[ME]], None, [conf("bearer", SP_ACS_SOAP)], conv, "soap", dest=None, cfg="default"))
    return cases


def message_sequences(ctx):
    """The new dimensions on long-lived objects: an unusual message before / after usual ones, on every configuration of
    the pool, and random sequences whose Responses vary in all dimensions."""
    rng = ctx.rng
    out = []
    noperiod = {"present": True, "nb": False, "nooa": False, "other": None}
    for name, prov in POOL.items():
        sps = [prov]
        conv = {"entity_id": prov["eid"]}
        g = (p_own(prov, POST) or ["https://sp.example.org/acs/unregistered"])[0]
        first = dict(s_parse(0, POST, [[prov["eid"]]], g, g, conv), confs=[conf("bearer", EVIL), conf("bearer", g)])
        last = dict(s_parse(0, POST, [[prov["eid"]]], g, g, conv), confs=[conf("bearer", g), conf("bearer", EVIL)])
        aud = dict(s_parse(0, POST, [[OTHER]], g, g, conv), cond=noperiod)
        out.append(mk_seq(sps, [s_good(sps, 0, POST, conv), first, aud, last, s_good(sps, 0, POST, conv)], "seq-message"))
        out.append(mk_seq(sps, [aud, first, s_good(sps, 0, POST, conv), aud], "seq-message"))
    names = list(POOL)
    shapes = cond_shapes()
    for _ in range(300 if ctx.thorough else 30):
        k = rng.choice([1, 2, 2])
        sps = [POOL[c] for c in rng.sample(names, k)]
        eids = sorted({p["eid"] for p in sps} | {OTHER})
        steps = []
        for _ in range(rng.randint(2, 5)):
            i = rng.randrange(k)
            b = rng.choice([POST, REDIRECT])
            good = s_good(sps, i, b)
            own = good["dest"]
            me = sps[i]["eid"]
            theirs = [u for p in sps for u in p_urls(p)]
            alb = conf_alphabet(own, me, rng.choice(theirs))
            cs = [rng.choice(alb) if rng.random() < .4 else alb[rng.choice([0, 0, 1])] for _ in range(rng.choice([1, 2, 2, 3]))]
            o = rng.choice(eids)
            rs = [[me]] if rng.random() < .6 else rng.choice([[[o]], [[o], [me]], [[me], [o]], [[o, me]], [[me + "x"]]])
            st = s_parse(i, b, rs, own if rng.random() < .7 else rng.choice([None, EVIL] + theirs), own,
                         rng.choice([None, {"entity_id": me}, {"entity_id": me, "remote_addr": "192.0.2.7"}]))
            st["confs"] = cs
            st["cond"] = rng.choice(shapes)
            steps.append(st)
        out.append(mk_seq(sps, steps, "seq-message"))
    return out


# ------------------------------------------------------------------ a Response delivering SEVERAL assertions
# "asserts": the assertions of the Response in document order, each
#     {"enc": bool (travels as EncryptedAssertion), "rs", "recip", optional "cond", "confs"}  (as for a whole step),
#     optional "adv": True = the assertion sits inside the <Advice> of the top-level assertion before it
# The count test of parse_assertion admits exactly one plain OR exactly one encrypted assertion: P, E, PE, EP, PPE, PEE, ...
def part(enc, rs, recip, cond=None, confs=None, adv=False):
    a = {"enc": bool(enc), "rs": rs, "recip": recip}
    if adv:
        a["adv"] = True      # travels inside the <Advice> of the top-level assertion before it ("enc": as an EncryptedAssertion there)
    if cond is not None:
        a["cond"] = cond
    if confs is not None:
        a["confs"] = confs
    return a


def resp_case(asserts, dest, conv, binding, cfg, tag, unsol=False):
    c = mk_case([], dest, None, conv, binding, cfg, tag)
    c["asserts"] = asserts
    if unsol:
        c["unsol"] = True
    return c


def s_resp(i, binding, dest, conv, asserts):
    return dict(s_parse(i, binding, [], dest, None, conv), asserts=asserts)


def travel_shapes(maxlen):
    """all lists over {plain, encrypted} up to the given length, the empty one included"""
    out = [()]
    for n in range(1, maxlen + 1):
        out += list(itertools.product((False, True), repeat=n))
    return out


def count_admits(shape):
    return sum(1 for e in shape if not e) == 1 or sum(1 for e in shape if e) == 1


def part_letters(me, own, other_eid):
    """what one delivered assertion can be, as far as the three clauses go: (name, rs, recip, cond, confs)"""
    noperiod = {"present": True, "nb": False, "nooa": False, "other": None}
    return {
        "good": ([[me]], own, None, None),
        "aud-other": ([[other_eid]], own, None, None),
        "rcp-evil": ([[me]], EVIL, None, None),
        "aud-second": ([[me], [other_eid]], own, None, None),
        "aud-look": ([[me + "x"]], own, None, None),
        "aud-case": ([[me.upper()]], own, None, None),
        "aud-among": ([[other_eid, me]], own, None, None),
        "aud-noperiod-other": ([[other_eid]], own, noperiod, None),
        "nocond": ([], own, {"present": False, "nb": False, "nooa": False, "other": None}, None),
        "rcp-eid": ([[me]], me, None, None),
        "rcp-first-evil": ([[me]], None, None, [conf("bearer", EVIL), conf("bearer", own)]),
        "rcp-last-evil": ([[me]], None, None, [conf("bearer", own), conf("bearer", EVIL)]),
        "rcp-absent": ([[me]], None, None, None),
        "noconf": ([[me]], None, None, []),
    }


def mk_part(enc, letter, adv=False):
    rs, recip, cond, confs = letter
    return part(enc, rs, recip, cond, confs, adv)


def is_adv(p):
    return bool(p.get("adv"))


def is_enc(p):
    return bool(p["enc"]) and not is_adv(p)


CORE_LETTERS = ("good", "aud-other", "rcp-evil")


def response_cases(ctx):
    """The number of assertions a Response delivers and the way each of them travels (in the clear / encrypted), in every
    document order - x what each assertion is (addressed to me, to someone else, look-alikes, Recipient classes)."""
    rng = ctx.rng
    cases = []
    good = {POST: world.SP_ACS_POST, REDIRECT: world.SP_ACS_REDIRECT}
    conv = {"entity_id": ME}
    L = part_letters(ME, good[POST], OTHER)
    names = list(L)
    # (a) every travel shape up to length 3 x the core letters at every position: complete
    for shape in travel_shapes(3):
        if not count_admits(shape):
            # refused by the count test whatever the assertions are: all good, and one with a fault at each position
            fills = [("good",) * len(shape)] + [tuple("aud-other" if j == i else "good" for j in range(len(shape))) for i in range(len(shape))]
        else:
            fills = list(itertools.product(CORE_LETTERS, repeat=len(shape)))
            if len(shape) == 3 and not ctx.thorough:
                # quick tier: at most one assertion with a fault (at every position, both faults) + a seeded sample of the rest
                few = [f for f in fills if f.count("good") >= 2]
                fills = few + rng.sample([f for f in fills if f not in few], 3)
        for fill in fills:
            cases.append(resp_case([mk_part(e, L[x]) for e, x in zip(shape, fill)], good[POST], conv, POST, "default", "resp"))
    # (b) the two-assertion shapes x the whole alphabet of letters (thorough: complete; quick: every letter next to a good
    #     one at either position, travelling either way)
    for shape in ((False, True), (True, False)):
        if ctx.thorough:
            fills = list(itertools.product(names, repeat=2))
        else:
            fills = [(x, "good") for x in names] + [("good", x) for x in names]
        for fill in fills:
            if all(x in CORE_LETTERS for x in fill):
                continue
            cases.append(resp_case([mk_part(e, L[x]) for e, x in zip(shape, fill)], good[POST], conv, POST, "default", "resp"))
    # every letter alone, travelling encrypted
    for x in names:
        for cv in (conv, None):
            cases.append(resp_case([mk_part(True, L[x])], good[POST], cv, POST, "default", "resp"))
    # (c) four and five assertions (1 + k, k + 1)
    for shape in ((False, True, True, True), (True, False, False, False), (False, False, True, False, False), (True, True, False, True, True)):
        for bad in [None] + list(range(len(shape))):
            for letter in (("aud-other",) if bad is None else ("aud-other", "rcp-evil")):
                fill = [letter if j == bad else "good" for j in range(len(shape))]
                cases.append(resp_case([mk_part(e, L[x]) for e, x in zip(shape, fill)], good[POST], conv, POST, "default", "resp"))
    # (d) the other dimensions: binding (Redirect, SOAP), conversation info, Destination, unsolicited, configuration
    LR = part_letters(ME, good[REDIRECT], OTHER)
    LS = part_letters(ME, SP_ACS_SOAP, OTHER)
    for shape in ((False, True), (True, False), (False, False, True), (True,)):
        for fill in itertools.product(CORE_LETTERS, repeat=len(shape)):
            if len(shape) == 3 and fill.count("good") < 2:
                continue
            cases.append(resp_case([mk_part(e, LR[x]) for e, x in zip(shape, fill)], good[REDIRECT], conv, REDIRECT, "default", "resp"))
            cases.append(resp_case([mk_part(e, L[x]) for e, x in zip(shape, fill)], good[POST], None, POST, "default", "resp"))
            cases.append(resp_case([mk_part(e, L[x]) for e, x in zip(shape, fill)], good[POST], conv, POST, "default", "resp", unsol=True))
            if len(shape) < 3:
                cases.append(resp_case([mk_part(e, LS[x]) for e, x in zip(shape, fill)], None, conv, SOAP, "soap", "resp"))
    for dest in (None, "", EVIL, ME, good[REDIRECT], good[POST] + "/x"):
        for shape in ((False, True), (True,)):
            cases.append(resp_case([mk_part(e, L["good"]) for e in shape], dest, conv, POST, "default", "resp"))
    for cfg in ("bare", "twopost", "redironly"):
        for fill in (("good", "good"), ("good", "aud-other"), ("rcp-evil", "good")):
            cases.append(resp_case([mk_part(e, L[x]) for e, x in zip((False, True), fill)], good[POST], conv, POST, cfg, "resp"))
    # (e) seeded mixtures: every assertion with its own Conditions shape, confirmation list and audience structure
    shapes = cond_shapes()
    admitted = [sh for sh in travel_shapes(4) if count_admits(sh)]
    for _ in range(600 if ctx.thorough else 60):
        binding = rng.choice([POST, POST, REDIRECT])
        own = good[binding]
        alb = conf_alphabet(own, ME, good[REDIRECT if binding == POST else POST])
        shape = rng.choice(admitted) if rng.random() < .9 else rng.choice(travel_shapes(3))
        asserts = []
        for e in shape:
            r = rng.random()
            if r < .55:
                asserts.append(mk_part(e, part_letters(ME, own, OTHER)["good"]))
                continue
            csl = [rng.choice(alb) if rng.random() < .4 else alb[rng.choice([0, 0, 1])] for _ in range(rng.choice([1, 1, 2, 3]))]
            rs = rng.choice(AUD_CORE[1:]) if rng.random() < .6 else [[ME]]
            asserts.append(part(e, rs, None, rng.choice(shapes) if rng.random() < .5 else None, csl))
        dest = own if rng.random() < .8 else rng.choice([None, "", EVIL, ME, own + "/x"])
        cases.append(resp_case(asserts, dest, rng.choice([conv, conv, None, {"remote_addr": "0.0.0.0"}]), binding, "default", "resp-mixed"))
    return cases


def advice_cases(ctx):
    """Assertions delivered INSIDE the <Advice> of a top-level assertion (get_identity merges their attributes): under a
    plain / an encrypted parent, one or two of them, x what the advised assertion is.  Before 913771bd every case in which the
    advised assertion's restrictions do not name me was finding C04-F2 (class 2 recognises a regression)."""
    cases = []
    good = {POST: world.SP_ACS_POST, REDIRECT: world.SP_ACS_REDIRECT}
    conv = {"entity_id": ME}
    L = part_letters(ME, good[POST], OTHER)
    letters = ("good", "aud-other", "aud-second", "aud-look", "aud-case", "aud-among", "aud-noperiod-other", "nocond", "rcp-evil", "noconf")
    for enc in (False, True):
        for x in letters:
            cases.append(resp_case([mk_part(enc, L["good"]), mk_part(False, L[x], adv=True)], good[POST], conv, POST, "default", "advice"))
        # the advised assertion as <EncryptedAssertion> inside the Advice (the shape pysaml2's own IdP produces for PEFIM)
        for x in ("good", "aud-other", "aud-second", "aud-look", "nocond"):
            cases.append(resp_case([mk_part(enc, L["good"]), mk_part(True, L[x], adv=True)], good[POST], conv, POST, "default", "advice"))
        cases.append(resp_case([mk_part(enc, L["good"]), mk_part(True, L["good"], adv=True), mk_part(False, L["aud-other"], adv=True),
                                mk_part(not enc, L["good"])], good[POST], conv, POST, "default", "advice"))
        cases.append(resp_case([mk_part(enc, L["rcp-evil"]), mk_part(True, L["good"], adv=True)], good[POST], conv, POST, "default", "advice"))
        # the parent is refused: nothing may be drawn from the advised one either
        for px in ("aud-other", "rcp-evil"):
            for x in ("good", "aud-other"):
                cases.append(resp_case([mk_part(enc, L[px]), mk_part(False, L[x], adv=True)], good[POST], conv, POST, "default", "advice"))
        # two advised assertions in one Advice; advice under the second of two top-level assertions; under both
        for x, y in (("good", "good"), ("good", "aud-other"), ("aud-other", "good")):
            cases.append(resp_case([mk_part(enc, L["good"]), mk_part(False, L[x], adv=True), mk_part(False, L[y], adv=True)],
                                   good[POST], conv, POST, "default", "advice"))
            cases.append(resp_case([mk_part(enc, L["good"]), mk_part(not enc, L["good"]), mk_part(False, L[x], adv=True)],
                                   good[POST], conv, POST, "default", "advice"))
            cases.append(resp_case([mk_part(enc, L["good"]), mk_part(False, L[x], adv=True), mk_part(not enc, L["good"]),
                                    mk_part(False, L[y], adv=True)], good[POST], conv, POST, "default", "advice"))
        # Destination, binding, conversation info
        for dest in (None, EVIL, ME):
            cases.append(resp_case([mk_part(enc, L["good"]), mk_part(False, L["good"], adv=True)], dest, conv, POST, "default", "advice"))
        LR = part_letters(ME, good[REDIRECT], OTHER)
        for x in ("good", "aud-other"):
            cases.append(resp_case([mk_part(enc, LR["good"]), mk_part(False, LR[x], adv=True)], good[REDIRECT], None, REDIRECT, "default", "advice"))
            cases.append(resp_case([mk_part(enc, L["good"]), mk_part(False, L[x], adv=True)], good[POST], conv, POST, "default", "advice", unsol=True))
    return cases


def advice_sequences(ctx):
    out = []
    for name in ("std", "tenant", "bare"):
        prov = POOL[name]
        sps = [prov]
        eid = prov["eid"]
        conv = {"entity_id": eid}
        g = (p_own(prov, POST) or ["https://sp.example.org/acs/unregistered"])[0]
        L = part_letters(eid, g, OTHER)
        adv_bad = [mk_part(False, L["good"]), mk_part(False, L["aud-other"], adv=True)]
        adv_good = [mk_part(True, L["good"]), mk_part(False, L["good"], adv=True)]
        out.append(mk_seq(sps, [s_good(sps, 0, POST, conv), s_resp(0, POST, g, conv, adv_good), s_resp(0, POST, g, conv, adv_bad),
                                s_parse(0, POST, [[OTHER]], g, g, conv)], "seq-advice"))
    return out


# ------------------------------------------------------------------ slot confusion: a value that belongs in ONE place, in the others
ALT = "https://proxy.example.org/sp.xml"     # what a caller may name as "my entity in this conversation" besides the configured one


def conv_alphabet(own):
    return [None, {}, {"entity_id": ME}, {"entity_id": ME, "remote_addr": "192.0.2.7"}, {"remote_addr": "192.0.2.7"},
            {"entity_id": ALT}, {"entity_id": OTHER}, {"entity_id": own}, {"entity_id": ""}, {"entity_id": None}]


def cross_cases(ctx):
    """Every string the provider knows about itself, the caller tells it (conversation info) or the message itself
    mentions - own entityID, the entityID named in the conversation info, own consumer URL for this / the other binding,
    own logout URL, the caller's address, the IdP's entityID and endpoint, the request id, the relay state - put into
    each of the three places (Destination, Recipient, Audience) and into Destination and Recipient at once, under every
    kind of conversation info.  A value acceptable in one place is not acceptable in another."""
    cases = []
    good = {POST: world.SP_ACS_POST, REDIRECT: world.SP_ACS_REDIRECT}
    slo = {POST: world.SP_SLO_POST, REDIRECT: world.SP_SLO_REDIRECT}
    for binding in (POST, REDIRECT):
        own, ob = good[binding], good[REDIRECT if binding == POST else POST]
        convs = conv_alphabet(own)
        if binding == REDIRECT and not ctx.thorough:
            convs = [None, {"entity_id": ME}, {"entity_id": ALT}]
        for conv in convs:
            vals = [ME, own, ob, slo[binding], world.IDP_ID, world.IDP_SSO_POST, OTHER, ALT, "req-1", "/"]
            for k in ("entity_id", "remote_addr"):
                v = (conv or {}).get(k)
                if v:
                    vals.append(v)
            seen = []
            for v in vals:
                if v in seen:
                    continue
                seen.append(v)
                if not ctx.thorough and binding == REDIRECT and v in ("req-1", "/", world.IDP_SSO_POST, OTHER):
                    continue
                cases.append(mk_case([[ME]], v, own, conv, binding, "default", "cross"))
                cases.append(mk_case([[ME]], own, v, conv, binding, "default", "cross"))
                cases.append(mk_case([[v]], own, own, conv, binding, "default", "cross"))
                cases.append(mk_case([[ME]], v, v, conv, binding, "default", "cross"))
    # the same on configurations whose consumer endpoints are bare / missing for the binding
    for cfg in ("bare", "postonly", "redironly"):
        for binding in (POST, REDIRECT):
            owns = own_for(cfg, binding)
            own = owns[0] if owns else "https://sp.example.org/acs/unregistered"
            for conv in ({"entity_id": ME}, {"entity_id": ALT}, None):
                for v in (ME, ALT):
                    cases.append(mk_case([[ME]], v, own, conv, binding, cfg, "cross"))
                    cases.append(mk_case([[ME]], v, v, conv, binding, cfg, "cross"))
    # endpoint specifications written as (url, binding, index)
    for binding in (POST, REDIRECT):
        owns = own_for("indexed", binding)
        ob = own_for("indexed", REDIRECT if binding == POST else POST)[0]
        for conv in ({"entity_id": ME}, None):
            for d in owns + [ob, ME, EVIL, owns[0] + "/x"]:
                cases.append(mk_case([[ME]], d, owns[0], conv, binding, "indexed", "cross"))
                cases.append(mk_case([[ME]], owns[0], d, conv, binding, "indexed", "cross"))
    # several assertions: the Destination named in the conversation info, Recipients of either kind
    L = part_letters(ME, good[POST], OTHER)
    for conv in ({"entity_id": ME}, {"entity_id": ALT}):
        for dest in (ME, ALT):
            cases.append(resp_case([mk_part(False, L["good"]), mk_part(True, L["rcp-eid"])], dest, conv, POST, "default", "cross"))
    return cases


def cross_sequences(ctx):
    """Long-lived objects: what a call WITH conversation info (or a Response with several assertions) leaves behind for
    the calls after it - on this object and on the others."""
    rng = ctx.rng
    out = []
    for name, prov in POOL.items():
        sps = [prov]
        eid = prov["eid"]
        conv = {"entity_id": eid}
        for b in (POST, REDIRECT):
            g = (p_own(prov, b) or ["https://sp.example.org/acs/unregistered"])[0]
            to_eid = s_parse(0, b, [[eid]], eid, g, None)              # Destination = my entityID, no conversation info
            to_eid_c = s_parse(0, b, [[eid]], eid, eid, conv)          # the same, the caller names me
            alt_c = s_parse(0, b, [[eid]], ALT, g, {"entity_id": ALT})
            if b == POST or ctx.thorough:
                out.append(mk_seq(sps, [s_good(sps, 0, b, conv), to_eid, s_call("urls", 0, b), to_eid_c, s_call("urls", 0, b),
                                        s_good(sps, 0, b)], "seq-cross"))
            if b == POST or ctx.thorough:
                out.append(mk_seq(sps, [to_eid_c, alt_c, s_call("authn", 0, b), s_parse(0, b, [[eid]], ALT, g, None),
                                        s_call("endp", 0, b, "assertion_consumer_service")], "seq-cross"))
            else:
                out.append(mk_seq(sps, [to_eid_c, to_eid, s_call("urls", 0, b)], "seq-cross"))
        # several assertions on a long-lived object: a refused mixture between accepted ones, then a single wrong one
        g = (p_own(prov, POST) or ["https://sp.example.org/acs/unregistered"])[0]
        L = part_letters(eid, g, OTHER)
        okpair = [mk_part(False, L["good"]), mk_part(True, L["good"])]
        badenc = [mk_part(False, L["good"]), mk_part(True, L["aud-other"])]
        badplain = [mk_part(True, L["good"]), mk_part(False, L["aud-look"])]
        out.append(mk_seq(sps, [s_resp(0, POST, g, conv, okpair), s_resp(0, POST, g, conv, badenc),
                                s_parse(0, POST, [[OTHER]], g, g, conv), s_resp(0, POST, g, conv, badplain),
                                s_resp(0, POST, g, conv, [mk_part(True, L["rcp-evil"])])], "seq-resp"))
    names = list(POOL)
    for x in names:                      # two objects: the first one's entityID as Destination / Recipient at the second
        for y in names:
            if x == y or (not ctx.thorough and (names.index(x) + names.index(y)) % 3):
                continue
            sps = [POOL[x], POOL[y]]
            e0, e1 = sps[0]["eid"], sps[1]["eid"]
            g1 = (p_own(sps[1], POST) or ["https://sp.example.org/acs/unregistered"])[0]
            L1 = part_letters(e1, g1, e0)
            out.append(mk_seq(sps, [s_good(sps, 0, POST, {"entity_id": e0}),
                                    s_parse(1, POST, [[e1]], e0, g1, {"entity_id": e1}),
                                    s_parse(1, POST, [[e1]], g1, e0, {"entity_id": e1}),
                                    s_resp(1, POST, g1, {"entity_id": e1}, [mk_part(False, L1["good"]), mk_part(True, L1["aud-other"])]),
                                    s_good(sps, 1, POST, {"entity_id": e1})], "seq-cross"))
    shapes = [sh for sh in travel_shapes(3) if sh]
    for _ in range(300 if ctx.thorough else 20):
        k = rng.choice([1, 2])
        sps = [POOL[c] for c in rng.sample(names, k)]
        eids = sorted({p["eid"] for p in sps} | {OTHER, ALT})
        steps = []
        for _ in range(rng.randint(2, 5)):
            i = rng.randrange(k)
            b = rng.choice([POST, REDIRECT])
            own = s_good(sps, i, b)["dest"]
            me = sps[i]["eid"]
            if rng.random() < .15:
                steps.append(s_call(rng.choice(["urls", "authn"]), i, b))
                continue
            cv = rng.choice([None, {"entity_id": me}, {"entity_id": rng.choice(eids)}, {"remote_addr": "192.0.2.7"}])
            pool = [own, own, own, me, (cv or {}).get("entity_id") or me, None, EVIL] + eids
            L = part_letters(me, own, rng.choice(eids))
            if rng.random() < .5:
                sh = rng.choice(shapes)
                asserts = [mk_part(e, L[rng.choice(["good", "good", "good"] + list(L))]) for e in sh]
                steps.append(s_resp(i, b, rng.choice(pool), cv, asserts))
            else:
                steps.append(s_parse(i, b, [[rng.choice([me, me, me] + eids)]], rng.choice(pool), rng.choice(pool), cv))
        out.append(mk_seq(sps, steps, "seq-cross"))
    return out


# ------------------------------------------------------------------ names for the strings / endpoint lists of (nearly) every case
# Coq parses a string literal character by character, which dominated the evaluation time of the case files: the
# static vocabulary of the generator (independent of the seed) gets names in coq/gen/C04Abbrev.v, written on every run
# from the very Python values; a string is replaced by its name only when it is EQUAL to that value.
def abbr_strings():
    out = []
    vals = [POST, REDIRECT, SOAP, ME, OTHER, EVIL, SP_ACS_SOAP, world.SP_ACS_POST, world.SP_ACS_REDIRECT,
            world.SP_SLO_POST, world.SP_SLO_REDIRECT, "https://sp.example.org/acs/unregistered",
            "https://sp.example.org/acs/elsewhere", ALT, world.IDP_ID, world.IDP_SSO_POST, "req-1", "/", "192.0.2.7",
            ME + "x", ME.upper()]
    for eps in list(CONFIGS.values()) + list(CONFIGS_EXTRA.values()):
        vals += [e if isinstance(e, str) else e[0] for e in eps]
    for p in POOL.values():
        vals += [p["eid"]] + p_urls(p) + p_urls(p, "slo")
    vals += [a for a in aud_alphabet() if a is not None]
    for x in vals:
        if x not in out:
            out.append(x)
    return out


def abbr_lists():
    out = []
    for eps in list(CONFIGS.values()) + list(CONFIGS_EXTRA.values()) + [p[k] for p in POOL.values() for k in ("acs", "slo")]:
        key = json.dumps(eps)
        if key not in out:
            out.append(key)
    return out


_ABBR = None


def abbr():
    global _ABBR
    if _ABBR is None:
        _ABBR = ({x: "a04_s%d" % i for i, x in enumerate(abbr_strings())},
                 {k: "a04_e%d" % i for i, k in enumerate(abbr_lists())})
    return _ABBR


def cs(x):
    """Coq term of a Python str: its name if it is one of the static vocabulary, the literal otherwise."""
    a = abbr()[0].get(x)
    return Raw(a) if a is not None else Raw(cq(x))


def cs_opt(x):
    return "None" if x is None else "(Some %s)" % cs(x)


def _eps_term(eps):
    out = []
    for e in eps:
        if isinstance(e, (tuple, list)):
            out.append(Raw("(EP %s %s)" % (cs(e[0]), cs(e[1]))))
        else:
            out.append(Raw("(Bare %s)" % cs(e)))
    return cq(out)


def write_abbrev():
    from harness import common
    strs, lists = abbr()
    L = ["(* GENERATED by harness/c04.py: names for frequently used strings and endpoint lists (keeps the case files fast to parse). *)",
         "From Coq Require Import String List NArith.", "From Verif Require Import Base.Str C04.Model.", "Import ListNotations.",
         "Open Scope string_scope.", ""]
    for x, name in strs.items():
        L.append("Definition %s : string := %s." % (name, cq(x)))
    for k, name in lists.items():
        L.append("Definition %s : list epspec := %s." % (name, _eps_term(json.loads(k))))
    return common.write_if_changed(os.path.join(common.GEN, "C04Abbrev.v"), "\n".join(L) + "\n")


# ------------------------------------------------------------------ translator v2: the anchored decision functions
FLOAT_NAME = "VERIF_FLOAT_TWO"


def _without_float(src_path):
    """py2coq2 has no float constants.  StatusResponse._verify compares the parsed version with the literal 2.0 on a path the
    model does not mirror (version != "2.0"): a copy of response.py in which that ONE literal is replaced by a global name
    (an extra argument of the Gallina definition) is what the translator reads.  Fail-closed: when the line is not there
    exactly once the text is left alone and the translator refuses the float constant (poisoned definition)."""
    from harness import common
    with open(src_path) as f:
        src = f.read()
    needle = "            if _ver < 2.0:\n"
    if src.count(needle) == 1:
        src = src.replace(needle, "            if _ver < %s:\n" % FLOAT_NAME)
    out = os.path.join(common.WORK, PID, "src", "saml2", "response.py")     # ".../src/saml2/..." keeps the origin comment short
    os.makedirs(os.path.dirname(out), exist_ok=True)
    common.write_if_changed(out, src)
    return out


EXC_PARENTS = {"VerificationError": ["SAMLError", "Exception"], "UnsolicitedResponse": ["SAMLError", "Exception"],
               "RequestVersionTooLow": ["SAMLError", "Exception"], "RequestVersionTooHigh": ["SAMLError", "Exception"],
               "SAMLError": ["Exception"]}


def source2_items():
    """(source file, qualified name, translation spec) of the functions that coq/theories/C04/Source2.v proves equal to the
    model.  External calls (other methods, time validation, XML objects) are extra parameters of the Gallina definitions;
    Source2.v states what it assumes about them as Section hypotheses.  Calls of a function that is itself translated
    (verify_recipient from get_subject, Config.endpoint from service_urls, for_me from condition_ok) go to the translation."""
    sdir = os.path.join(env.SRC, "saml2")
    rsp, cb, cf = (os.path.join(sdir, f) for f in ("response.py", "client_base.py", "config.py"))
    logs = ["logger.error", "logger.debug", "logger.info", "logger.exception", "logger.warning"]
    return [
        (rsp, "for_me", {"name": "src2_for_me", "params": ["conditions", "myself"], "ignore_calls": logs}),
        (rsp, "AuthnResponse.verify_recipient", {"name": "src2_verify_recipient", "params": ["self", "recipient"]}),
        (rsp, "AuthnResponse.get_subject", {
            "name": "src2_get_subject", "params": ["self", "keys"],
            "extra_params": [("attesting_ext", "pyval -> pyval -> pyval"), ("bearer_ext", "pyval -> pyval -> pyval"),
                             ("hok_ext", "pyval -> pyval -> pyval"), ("decrypt_ext", "pyval -> pyval -> pyval -> pyval"),
                             ("nameid_ext", "pyval -> pyval"), ("to_string_ext", "pyval -> pyval")],
            "calls": {"self.verify_attesting_entity": lambda a: "(attesting_ext v_self %s)" % a[0],
                      "self._bearer_confirmed": lambda a: "(bearer_ext v_self %s)" % a[0],
                      "self._holder_of_key_confirmed": lambda a: "(hok_ext v_self %s)" % a[0],
                      "self.verify_recipient": lambda a: "(src2_verify_recipient v_self %s)" % a[0],
                      "self.sec.decrypt_keys": lambda a, kw: "(decrypt_ext v_self %s %s)" % (a[0], kw["keys"]),
                      "saml.name_id_from_string": lambda a: "(nameid_ext %s)" % a[0],
                      "subject.encrypted_id.encrypted_data.to_string": lambda a: "(to_string_ext v_subject)"},
            "globals": {"SCM_BEARER": '(PStr "%s")' % _scm("SCM_BEARER"), "SCM_HOLDER_OF_KEY": '(PStr "%s")' % _scm("SCM_HOLDER_OF_KEY"),
                        "SCM_SENDER_VOUCHES": '(PStr "%s")' % _scm("SCM_SENDER_VOUCHES")},
            "ignore_calls": logs, "returns_state": ["self"], "attr_errors": True, "exc_parents": EXC_PARENTS}),
        (_without_float(rsp), "StatusResponse._verify", {
            "name": "src2_verify", "params": ["self"],
            "extra_params": [("issue_instant_ok_ext", "pyval -> pyval"), ("status_ok_ext", "pyval -> pyval"),
                             ("float_ext", "pyval -> pyval"), ("float_two", "pyval")],
            "calls": {"self.issue_instant_ok": lambda a: "(issue_instant_ok_ext v_self)",
                      "self.status_ok": lambda a: "(status_ok_ext v_self)", "float": lambda a: "(float_ext %s)" % a[0]},
            "globals": {FLOAT_NAME: "float_two"}, "ignore_calls": logs, "exc_parents": EXC_PARENTS}),
        (rsp, "AuthnResponse.condition_ok", {
            "name": "src2_condition_ok", "params": ["self", "lax"],
            "extra_params": [("later_than_ext", "pyval -> pyval -> pyval"), ("validate_nooa_ext", "pyval -> pyval -> pyval"),
                             ("validate_nb_ext", "pyval -> pyval -> pyval"), ("keyswv_ext", "pyval -> pyval")],
            "calls": {"later_than": lambda a: "(later_than_ext %s %s)" % tuple(a),
                      "validate_on_or_after": lambda a: "(validate_nooa_ext %s %s)" % tuple(a),
                      "validate_before": lambda a: "(validate_nb_ext %s %s)" % tuple(a),
                      "conditions.keyswv": lambda a: "(keyswv_ext v_conditions)",
                      "for_me": lambda a: "(src2_for_me %s %s)" % tuple(a)},
            "globals": {"XSI_TYPE": '(PStr "%s")' % _xsi_type()},
            "ignore_calls": logs, "returns_state": ["self"], "exc_parents": EXC_PARENTS}),
        (cf, "Config.endpoint", {
            "name": "src2_endpoint", "params": ["self", "service", "binding", "context"],
            "extra_params": [("getattr_ext", "pyval -> pyval -> pyval -> pyval"), ("type_ext", "pyval -> pyval")],
            "calls": {"self.getattr": lambda a: "(getattr_ext v_self %s %s)" % tuple(a), "type": lambda a: "(type_ext %s)" % a[0]},
            "globals": {"tuple": '(PStr "tuple")', "list": '(PStr "list")'}}),
        (cb, "Base.service_urls", {
            "name": "src2_service_urls", "params": ["self", "binding"],
            "extra_params": [("getattr_ext", "pyval -> pyval -> pyval -> pyval"), ("type_ext", "pyval -> pyval")],
            "calls": {"self.config.endpoint": lambda a: '(src2_endpoint getattr_ext type_ext (p2_attr v_self "config") %s %s %s)' % tuple(a)}}),
    ]


def _scm(name):
    import saml2.saml
    return getattr(saml2.saml, name)


def _xsi_type():
    import saml2.response
    return saml2.response.XSI_TYPE


def _merge_info(a, b):
    out = dict(a)
    for k in ("obligations", "discharged"):
        out[k] = a.get(k, 0) + b.get(k, 0)
    out["untranslatable"] = list(a.get("untranslatable", [])) + list(b.get("untranslatable", []))
    out["translated"] = list(a.get("translated", [])) + list(b.get("translated", []))
    out["changed"] = bool(a.get("changed")) or bool(b.get("changed"))
    return out


def regenerate_tables(ctx):
    """Translator v1: response.for_me as it reads NOW -> coq/gen/C04Src.v (C04/Source.v proves it equal to the model);
    translator v2: the decision functions of source2_items() -> coq/gen/C04Src2.v (C04/Source2.v)."""
    from harness import common, py2coq, py2coq2
    write_abbrev()
    v1 = py2coq.regenerate(os.path.join(common.GEN, "C04Src.v"), [
        (os.path.join(env.SRC, "saml2", "response.py"), "for_me", {"name": "src_for_me", "params": ["conditions", "myself"]})])
    v2 = py2coq2.regenerate(os.path.join(common.GEN, "C04Src2.v"), source2_items())
    return _merge_info(v1, v2)


def aud_alphabet(rng=None):
    base = [ME, ME + "x", "x" + ME, ME.upper(), OTHER, " " + ME + " ", "\n" + ME + "\t", None]
    return base


def own_for(cfg, binding):
    eps = cfg_eps(cfg)
    spec = [e[0] for e in eps if isinstance(e, tuple) and e[1] == binding]
    return spec or [e for e in eps if isinstance(e, str)]


def addr_alphabet(cfg, binding, with_eid):
    otherb = REDIRECT if binding == POST else POST
    oo = own_for(cfg, otherb)
    owns = own_for(cfg, binding)
    # no endpoint for this binding: the "own" slot holds a well-formed URL of the SP that is not registered for it
    own = owns[0] if owns else "https://sp.example.org/acs/unregistered"
    other_binding = oo[0] if oo and oo[0] != own else "https://sp.example.org/acs/elsewhere"
    vals = [None, "", own, other_binding, "https://evil.example.com/acs", own[:-1], own + "/x", own.upper()]
    if with_eid:
        vals.append(ME)
    return vals


def mk_case(rs, dest, recip, conv, binding, cfg, tag):
    return {"rs": rs, "dest": dest, "recip": recip, "conv": conv, "binding": binding, "cfg": cfg, "tag": tag}


def generate(ctx):
    rng = ctx.rng
    cases = []
    al = aud_alphabet()
    good_dest = {POST: world.SP_ACS_POST, REDIRECT: world.SP_ACS_REDIRECT}

    def aud_case(rs, tag):
        return mk_case(rs, good_dest[POST], good_dest[POST], None, POST, "default", tag)

    # audience structures
    cases.append(aud_case([], "aud0"))
    singles = [[a] for a in al]
    pairs = [[a, b] for a in al for b in al]
    for r in singles + pairs:
        cases.append(aud_case([r], "aud1"))
    for r1 in singles:
        for r2 in singles:
            cases.append(aud_case([r1, r2], "aud2"))
    rest2 = [[r1, r2] for r1 in singles + pairs for r2 in singles + pairs if len(r1) + len(r2) > 2]
    if ctx.thorough:
        for rs in rest2:
            cases.append(aud_case(rs, "aud2x"))
    else:
        for rs in rng.sample(rest2, 150):
            cases.append(aud_case(rs, "aud2x"))
    # three restrictions / three audiences, random
    for _ in range(600 if ctx.thorough else 80):
        n = rng.randint(1, 3)
        rs = [[rng.choice(al) for _ in range(rng.randint(1, 3))] for _ in range(n)]
        cases.append(aud_case(rs, "aud3r"))
    # random look-alikes
    for _ in range(300 if ctx.thorough else 40):
        cases.append(aud_case([[lookalike(rng, ME)] for _ in range(rng.randint(1, 2))] + ([[ME]] if rng.random() < .5 else []), "audlook"))
    # destination x recipient x conv x binding x config
    convs = [None, {"entity_id": ME}, {"remote_addr": "0.0.0.0"}]
    for cfg in CONFIGS:
        for binding in (POST, REDIRECT):
            dests = addr_alphabet(cfg, binding, False)
            recips = addr_alphabet(cfg, binding, True)
            for conv in convs:
                for d in dests:
                    for r in recips:
                        if cfg != "default" and own_for(cfg, binding) and not ctx.thorough and rng.random() > 0.25:
                            continue
                        cases.append(mk_case([[ME]], d, r, conv, binding, cfg, "addr"))
    for _ in range(300 if ctx.thorough else 40):
        binding = rng.choice([POST, REDIRECT])
        own = own_for("default", binding)[0]
        cases.append(mk_case([[ME]], lookalike(rng, own), lookalike(rng, own), rng.choice(convs), binding, "default", "addrlook"))
    # an own endpoint of ANOTHER service (logout) is not a consumer endpoint
    for binding, slo in ((POST, world.SP_SLO_POST), (REDIRECT, world.SP_SLO_REDIRECT)):
        for conv in convs:
            cases.append(mk_case([[ME]], slo, good_dest[binding], conv, binding, "default", "addrslo"))
            cases.append(mk_case([[ME]], good_dest[binding], slo, conv, binding, "default", "addrslo"))
    # call sequences on long-lived provider objects
    cases += pair_cases(ctx)
    cases += same_object_cases(ctx)
    cases += random_sequences(ctx, 700 if ctx.thorough else 60)
    # the shape of the message: <Conditions> parts, SubjectConfirmation lists, back-channel binding
    cases += message_cases(ctx)
    cases += message_sequences(ctx)
    # the number of assertions a Response delivers and the way each travels (plain / encrypted)
    cases += response_cases(ctx)
    # slot confusion: a value that is right in one place (or that the caller / the message mentions), in the other places
    cases += cross_cases(ctx)
    cases += cross_sequences(ctx)
    # assertions inside the <Advice> of another assertion
    cases += advice_cases(ctx)
    cases += advice_sequences(ctx)
    return cases


def lookalike(rng, s):
    k = rng.randint(0, 7)
    if k == 0:
        i = rng.randrange(len(s))
        return s[:i] + s[i].swapcase() + s[i + 1:]
    if k == 1:
        return s[: rng.randrange(1, len(s))]
    if k == 2:
        return s + rng.choice(["/", "x", "?a=b", "#f", ".evil.com", "%20"])
    if k == 3:
        return rng.choice(["x", "http://", "https://evil.example.com/?u="]) + s
    if k == 4:
        i = rng.randrange(len(s))
        return s[:i] + s[i + 1:]
    if k == 5:
        return s.replace("https", "http")
    if k == 6:
        return s + rng.choice([" ", "\t", "\n"])
    return s


def _single_sp(cfg, unsol=False):
    over = {"sp_endpoints": {
        "assertion_consumer_service": cfg_eps(cfg),
        "single_logout_service": [(world.SP_SLO_REDIRECT, REDIRECT), (world.SP_SLO_POST, POST)]}}
    if unsol:
        over["sp_allow_unsolicited"] = True
    return spaccept.get_sp(over)


# ------------------------------------------------------------------ isolation of the call sequences
# A call-sequence case asks what calls made EARLIER in the same process change.  Its observation must therefore
# start from a process in which no provider object has been used, whatever this worker did before - otherwise
# the result would depend on the cases the worker happened to run earlier and a failing case would not replay.
# Every process that observes (pool worker or driver) owns one "zygote": a child forked at the process's FIRST
# call of observe(), before anything else was done, which has imported pysaml2, installed stand-in and clock,
# constructed (and dropped) one standard provider - and never calls into a provider again.  It forks one
# grandchild per sequence case; the grandchild builds the case's provider objects, makes the calls, writes the
# result and exits.  (Forking the worker itself per case costs ~10x more here: the worker's heap is written to
# by the single-Response cases, the zygote's is not.)
_zy = None   # (owner pid, request write fd, response read file)


def _zygote_main(req_r, resp_w):
    import select
    import signal

    signal.signal(signal.SIGTERM, signal.SIG_DFL)
    signal.signal(signal.SIGINT, signal.SIG_IGN)
    parent = os.getppid()
    try:
        world.make_sp()                      # imports + one-time caches; the object is dropped unused
        spaccept.CLOCK.install()
        import gc
        gc.collect()
        gc.freeze()
        buf = b""
        while True:
            rd, _, _ = select.select([req_r], [], [], 2.0)
            if not rd:
                if os.getppid() != parent:
                    break
                continue
            chunk = os.read(req_r, 1 << 16)
            if not chunk:
                break
            buf += chunk
            while b"\n" in buf:
                line, buf = buf.split(b"\n", 1)
                pid = os.fork()
                if pid == 0:
                    code = 0
                    try:
                        try:
                            out = {"ok": _observe_seq(json.loads(line))}
                        except BaseException as e:  # noqa
                            out = {"err": "%s: %s" % (type(e).__name__, e), "trace": traceback.format_exc()[-1500:]}
                        os.write(resp_w, (json.dumps(out, default=str) + "\n").encode())
                    except BaseException:  # noqa
                        code = 3
                    finally:
                        os._exit(code)
                _, status = os.waitpid(pid, 0)
                if status != 0:
                    os.write(resp_w, (json.dumps({"err": "child status %r" % status}) + "\n").encode())
    finally:
        os._exit(0)


def _zygote():
    global _zy
    if _zy is not None and _zy[0] == os.getpid():
        return _zy
    if _zy is not None:          # inherited from the process this one was forked from: not ours
        try:
            os.close(_zy[1])
            _zy[2].close()
        except OSError:
            pass
        _zy = None
    req_r, req_w = os.pipe()
    resp_r, resp_w = os.pipe()
    pid = os.fork()
    if pid == 0:
        os.close(req_w)
        os.close(resp_r)
        _zygote_main(req_r, resp_w)
    os.close(req_r)
    os.close(resp_w)
    _zy = (os.getpid(), req_w, os.fdopen(resp_r, "rb"))
    return _zy


def _isolated(case):
    _, req_w, resp = _zygote()
    data = (json.dumps(case) + "\n").encode()
    while data:
        data = data[os.write(req_w, data):]
    line = resp.readline()
    if not line:
        raise RuntimeError("C04: the zygote of process %d died on %r" % (os.getpid(), case))
    out = json.loads(line)
    if "err" in out:
        raise RuntimeError("C04 sequence observation failed in the harness: %s\n%s" % (out["err"], out.get("trace", "")))
    return out["ok"]


def observe(case):
    _zygote()        # forked before this process touches any provider object
    if "steps" in case:
        return _isolated(case)
    return _observe_single(case)


# per delivered assertion a different attribute (each known to the attribute converters): what get_identity returns
# shows which assertions it was drawn from
PART_ATTRS = [("urn:oid:0.9.2342.19200300.100.1.3", "mail"), ("urn:oid:2.5.4.42", "givenName"), ("urn:oid:2.5.4.4", "sn"),
              ("urn:oid:2.5.4.3", "cn"), ("urn:oid:2.16.840.1.113730.3.1.241", "displayName")]
A_TAG = "{urn:oasis:names:tc:SAML:2.0:assertion}"


def part_id(n, k):
    return "a-%d-%d" % (n, k)


def part_subject(n, k):
    return "subject-%d-%d" % (n, k)


def _assertion_spec(part, aid, subject, me_eid, unsol, attr=None):
    """The abstract assertion (for render.assertion) of one step / one part of a step: rs, cond, confs | recip."""
    a = spaccept.good_assertion(id=aid)
    if attr is not None:
        a["attributes"] = [(attr[0], render.NF_URI, attr[1], ["value-of-%s" % aid])]
    a["subject"]["name_id"] = subject
    cond = _conditions(part, me_eid, OTHER)
    if cond == "usual":
        a["conditions"]["audience_restrictions"] = part["rs"]
    else:
        a["conditions"] = cond
    if part.get("confs") is not None:
        # the renderer's confirmation has no child elements: the list is rendered here, next to the NameID
        a["subject"]["name_id_xml"] = render.name_id(a["subject"]["name_id"]) + "".join(
            _conf_xml(c, None if unsol else "req-1") for c in part["confs"])
        a["subject"]["confirmations"] = []
    else:
        d = a["subject"]["confirmations"][0]["data"]
        if unsol:
            del d["in_response_to"]
        if part["recip"] is None:
            del d["recipient"]
        else:
            d["recipient"] = part["recip"]
    return a


ADVICE_XPATH = ('/*[local-name()="Response"]/*[local-name()="Assertion"]/*[local-name()="Advice"]'
                '/*[local-name()="EncryptedAssertion"]/*[local-name()="Assertion"]')


def _encrypt_assertions(xml, ids):
    """Local variant of render.encrypt_assertion_in_response: the Assertion elements with the given IDs - children of the
    Response or of the <Advice> of a (still plain) child of the Response, any number, at any position - are wrapped in
    saml:EncryptedAssertion and encrypted for the SP's certificate through the stand-in, one after the other (inner
    ones first); every EncryptedData / EncryptedKey gets an Id of its own."""
    import tempfile
    import xml.etree.ElementTree as ET
    from harness import fixtures

    m = env.standin()
    for j, aid in enumerate(ids):
        root = m._parse(xml.encode("utf-8") if isinstance(xml, str) else xml)
        found = None
        for top in list(root):
            if top.tag == A_TAG + "Assertion" and top.get("ID") == aid:
                found = (root, top, render.ASSERT_XPATH)
                break
            if top.tag == A_TAG + "Assertion":
                for adv in top.findall(A_TAG + "Advice"):
                    for inner in list(adv):
                        if inner.tag == A_TAG + "Assertion" and inner.get("ID") == aid:
                            found = (adv, inner, ADVICE_XPATH)
        parent, a, xpath = found
        idx = list(parent).index(a)
        parent.remove(a)
        wrap = ET.Element(A_TAG + "EncryptedAssertion")
        wrap.append(a)
        wrap.tail = a.tail
        a.tail = None
        parent.insert(idx, wrap)
        with tempfile.NamedTemporaryFile(suffix=".xml", delete=False) as f:
            f.write(ET.tostring(root, encoding="utf-8"))
            path = f.name
        try:
            tmpl = render.ENC_TEMPLATE.replace("ED_verif", "ED_verif%d" % j).replace("EK_verif", "EK_verif%d" % j)
            out, _, _ = m.do_encrypt({"xml_data": path, "node_xpath": xpath,
                                      "pubkey_cert": fixtures.cert_path("sp")}, tmpl.encode())
        finally:
            os.unlink(path)
        xml = out.decode("utf-8")
    return xml


def _response(step, n, me_eid=ME):
    unsol = bool(step.get("unsol"))      # an unsolicited Response: no InResponseTo anywhere (the SP allows unsolicited ones)
    enc_ids, inner_ids = [], []
    if step.get("asserts") is not None:
        # a LIST of assertions, each in the clear or encrypted, in document order
        specs = []
        for k, part in enumerate(step["asserts"]):
            a = _assertion_spec(part, part_id(n, k), part_subject(n, k), me_eid, unsol, PART_ATTRS[k])
            if is_adv(part):
                # inside the <Advice> of the top-level assertion before it (one Advice element holds all of them)
                assert specs, "an advised assertion needs a top-level assertion before it"
                a["authn_statements"] = []
                specs[-1].setdefault("advised", []).append(render.assertion(a))
                if part["enc"]:          # <EncryptedAssertion> inside the Advice (the PEFIM shape): encrypted before its parent
                    inner_ids.append(part_id(n, k))
                continue
            specs.append(a)
            if part["enc"]:
                enc_ids.append(part_id(n, k))
        for a in specs:
            if a.get("advised"):
                a["advice"] = "<saml:Advice>%s</saml:Advice>" % "".join(a.pop("advised"))
    else:
        specs = [_assertion_spec(step, "a-%d" % n, "subject-%d" % n, me_eid, unsol)]
    r = spaccept.good_response(id="r-%d" % n)
    if unsol:
        del r["in_response_to"]
    if step["dest"] is None:
        del r["destination"]
    else:
        r["destination"] = step["dest"]
    if enc_ids or inner_ids:
        # as an IdP does: encrypt the assertions, then sign the Response over the ciphertext
        r["assertions_xml"] = [render.assertion(a) for a in specs]
        r["sig_template"] = render.signature_template(r["id"])
        xml = _encrypt_assertions(render.response(r), inner_ids + enc_ids)
        xml = render.sign_xml(xml, "idp", render.R_ELEM, r["id"])
    else:
        xml = spaccept.build(r, specs, sign_response="idp")
    if step["binding"] == SOAP:
        return xml, render.soap_envelope(xml)
    return xml, (render.b64(xml) if step["binding"] == POST else render.deflate_b64(xml))


def _observe_single(case):
    sp = _single_sp(case["cfg"], bool(case.get("unsol")))
    if case.get("asserts") is not None:
        o = _parse_step(sp, case, 1)
        return {"identity": o["identity"], "exc": o["exc"], "drawn": o["drawn"]}
    xml, enc = _response(case, 1)
    o = spaccept.observe(sp, xml, case["binding"], {"req-1": "/"}, conv_info=case["conv"], encoded=enc)
    return {"identity": o["identity"], "exc": o["exc"]}


def _subjects(sp):
    try:
        return {str(x) for x in sp.users.subjects()}
    except Exception:  # noqa
        return set()


def _cached(sp, before):
    """(NameID texts, attribute names) the identity cache holds for the subjects it did not hold before the call"""
    names, attrs = set(), set()
    try:
        subs = list(sp.users.subjects())
    except Exception:  # noqa
        return names, attrs
    for x in subs:
        if str(x) in before:
            continue
        names.add(getattr(x, "text", None))
        try:
            ident = sp.users.get_identity(x, check_not_on_or_after=False)[0]
            attrs |= set(ident or {})
        except Exception:  # noqa
            pass
    return names, attrs


def _parse_step(sp, step, n):
    """spaccept.observe for an object whose identity cache is NOT reset between calls: identity = the call
    returned something carrying identity, or the cache holds a subject it did not hold before the call.
    For a Response with a LIST of assertions ("asserts") also "drawn": per delivered assertion, is the identity the
    caller gets (NameID returned / cached, attributes returned / cached, the assertion object handed out) drawn from it."""
    xml, enc = _response(step, n, sp.config.entityid)
    before = _subjects(sp)
    obs = {"identity": False, "exc": None}
    r = None
    try:
        r = sp.parse_authn_request_response(enc, step["binding"], {"req-1": "/"}, conv_info=step["conv"])
    except Exception as e:  # noqa
        obs["exc"] = type(e).__name__
    names, attrs, aids = set(), set(), set()
    if r is not None:
        nid = getattr(r, "name_id", None)
        si = None
        try:
            si = r.session_info()
        except Exception:  # noqa
            si = None
        obs["identity"] = bool((nid is not None and getattr(nid, "text", None) is not None) or getattr(r, "ava", None)
                               or getattr(r, "assertion", None) is not None or si is not None)
        if nid is not None:
            names.add(getattr(nid, "text", None))
        attrs |= set(getattr(r, "ava", None) or {})
        if si is not None:
            attrs |= set(si.get("ava") or {})
            sn = si.get("name_id")
            if sn is not None:
                names.add(getattr(sn, "text", None))
        if getattr(r, "assertion", None) is not None:
            aids.add(getattr(r.assertion, "id", None))
    if _subjects(sp) - before:
        obs["identity"] = True
    if step.get("asserts") is not None:
        cn, ca = _cached(sp, before)
        names |= cn
        attrs |= ca
        obs["drawn"] = [bool(part_subject(n, k) in names or PART_ATTRS[k][1] in attrs or part_id(n, k) in aids)
                        for k in range(len(step["asserts"]))]
        if obs["identity"] and not any(obs["drawn"]):
            # identity that cannot be traced to a delivered assertion: attributed to all of them (the strictest reading)
            obs["drawn"] = [True] * len(step["asserts"])
    return obs


def _observe_seq(case):
    sps = []
    needs_key = any(part["enc"] for st in case["steps"] for part in (st.get("asserts") or []))
    for p in case["sps"]:
        eps = {"assertion_consumer_service": [tuple(e) if isinstance(e, list) else e for e in p["acs"]]}
        if p["slo"]:
            eps["single_logout_service"] = [tuple(e) for e in p["slo"]]
        # no private key of its own (46 ms of RSA key checking per object otherwise) unless a step delivers an encrypted
        # assertion: the SP neither signs nor decrypts anything in the other calls
        if needs_key:
            sps.append(world.make_sp(entityid=p["eid"], sp_endpoints=eps))
        else:
            sps.append(world.make_sp(entityid=p["eid"], sp_endpoints=eps, key_file=None, encryption_keypairs=None))
    spaccept.CLOCK.install()
    out = []
    for n, st in enumerate(case["steps"]):
        sp = sps[st["sp"]]
        try:
            if st["op"] == "parse":
                out.append(_parse_step(sp, st, n + 1))
            elif st["op"] == "urls":
                v = sp.service_urls(st["binding"])
                out.append({"urls": None if v is None else [str(u) for u in v]})
            elif st["op"] == "endp":
                out.append({"endp": [str(u) for u in sp.config.endpoint(st["service"], st["binding"], "sp")]})
            elif st["op"] == "authn":
                _rid, req = sp.create_authn_request(world.IDP_SSO_REDIRECT, binding=st["binding"], sign=False)
                out.append({"acs": getattr(req, "assertion_consumer_service_url", None)})
            else:
                raise ValueError(st["op"])
        except ValueError:
            raise
        except Exception as e:  # noqa  (a call that raises is reported as a result of the wrong kind)
            out.append({"raised": type(e).__name__})
    excs = [o["exc"] for o in out if o.get("exc")]
    return {"steps": out, "identity": sum(1 for o in out if o.get("identity")), "exc": excs[0] if excs else None}


def coq_eps(eps):
    name = abbr()[1].get(json.dumps([list(e) if isinstance(e, (tuple, list)) else e for e in eps]))
    return Raw(name) if name is not None else Raw(_eps_term(eps))


def coq_specs(cfg):
    return coq_eps(cfg_eps(cfg))


def coq_conv(conv):
    if not conv:
        return "None"
    return "(Some %s)" % cs_opt(conv.get("entity_id"))


def coq_conds(st):
    rs = cq([[Raw(cs_opt(a)) for a in r] for r in st["rs"]])
    cond = st.get("cond")
    if cond is None:
        return "(Some (C04.Corr.K true true false %s))" % rs
    if not cond["present"]:
        return "None"
    return "(Some (C04.Corr.K %s %s %s %s))" % (cq(bool(cond["nb"])), cq(bool(cond["nooa"])), cq(bool(cond["other"])), rs)


def coq_confs(st):
    if st.get("confs") is None:
        return "[C04.Corr.C Bearer (Some (%s, true))]" % cs_opt(st["recip"])
    out = []
    for c in st["confs"]:
        d = "None" if c["data"] is None else "(Some (%s, %s))" % (cs_opt(c["data"]["recip"]), cq(confirmed(c)))
        out.append(Raw("(C04.Corr.C %s %s)" % (COQ_METHOD[c["m"]], d)))
    return cq(out)


def coq_resp(eid, specs, st, drawn):
    """a Response with a list of assertions: C04.Corr.R"""
    parts = [Raw("(C04.Corr.As %s %s %s)" % ("Advised" if is_adv(p) else ("Encrypted" if p["enc"] else "Plain"),
                                             coq_conds(p), coq_confs(p))) for p in st["asserts"]]
    return "C04.Corr.R %s %s %s %s %s %s %s" % (
        cs(eid), cq(specs), cs(st["binding"]), cs_opt(st["dest"]), coq_conv(st["conv"]), cq(parts),
        cq([bool(d) for d in drawn]))


def coq_parse(ctor, eid, specs, st, identity):
    if st.get("confs") is not None or st.get("cond") is not None:
        return "C04.Corr.M %s %s %s %s %s %s %s %s" % (
            cs(eid), cq(specs), cs(st["binding"]), coq_conds(st), cs_opt(st["dest"]), coq_conv(st["conv"]),
            coq_confs(st), cq(bool(identity)))
    rs = [[Raw(cs_opt(a)) for a in r] for r in st["rs"]]
    return "%s %s %s %s %s %s %s %s %s" % (
        ctor, cs(eid), cq(specs), cs(st["binding"]), cq(rs), cs_opt(st["dest"]), coq_conv(st["conv"]),
        cs_opt(st["recip"]), cq(bool(identity)))


def coq_case(case, obs):
    if "steps" not in case:
        if case.get("asserts") is not None:
            return "[%s]" % coq_resp(ME, coq_specs(case["cfg"]), case, obs["drawn"])
        if case.get("confs") is not None or case.get("cond") is not None:
            return "[%s]" % coq_parse("C04.Corr.M", ME, coq_specs(case["cfg"]), case, obs["identity"])
        return coq_parse("C04.Corr.mk", ME, coq_specs(case["cfg"]), case, obs["identity"])
    evs = []
    for st, o in zip(case["steps"], obs["steps"]):
        p = case["sps"][st["sp"]]
        acs = coq_eps(p["acs"])
        if st["op"] == "parse" and st.get("asserts") is not None:
            evs.append(Raw("(%s)" % coq_resp(p["eid"], acs, st, o.get("drawn", []))))
            continue
        if st["op"] == "parse":
            evs.append(Raw("(%s)" % coq_parse("C04.Corr.P", p["eid"], acs, st, o["identity"])))
            continue
        specs = acs if st["op"] != "endp" or st["service"] == "assertion_consumer_service" else coq_eps(p["slo"])
        op = {"urls": "OUrls", "endp": "OEndp", "authn": "OAcs"}[st["op"]]
        if "raised" in o:       # no result of the right kind: the model cannot agree
            res = "RId false"
        elif st["op"] == "urls":
            res = "RUrls %s" % ("None" if o["urls"] is None else "(Some %s)" % cq([cs(u) for u in o["urls"]]))
        elif st["op"] == "endp":
            res = "REndp %s" % cq([cs(u) for u in o["endp"]])
        else:
            res = "RAcs %s" % cs_opt(o["acs"])
        evs.append(Raw("(%s %s %s, %s)" % (op, cq(specs), cs(st["binding"]), res)))
    return cq(evs)


def _cls(v, own=None):
    if v is None:
        return "absent"
    if v == "":
        return "empty"
    if v == ME:
        return "eid"
    return "own" if own and v in own else "other"


def _rel(v, sps, i, binding):
    """class of an address / audience value relative to the called object and to the other objects of the case"""
    if v is None:
        return "absent"
    if v == "":
        return "empty"
    me = sps[i]
    if v == me["eid"]:
        return "eid"
    if v in p_own(me, binding):
        return "own"
    if v in p_urls(me):
        return "own-other-binding"
    if v in p_urls(me, "slo"):
        return "own-logout"
    for j, p in enumerate(sps):
        if j != i and (v == p["eid"] or v in p_urls(p) or v in p_urls(p, "slo")):
            return "theirs"
    return "other"


def _shape_key(st, cls):
    """class of the message shape: Conditions parts, and per confirmation (method, data shape, Recipient class)"""
    cond = st.get("cond")
    ck = None if cond is None else (cond["present"], cond["nb"], cond["nooa"], cond["other"])
    confs = st.get("confs")
    fk = None if confs is None else tuple(
        (c["m"],) if c["data"] is None else (c["m"], c["data"]["shape"], cls(c["data"]["recip"])) for c in confs)
    return ck, fk


def _asserts_key(st, cls, audcls):
    """class of a list of assertions: per assertion (travels encrypted, audience classes, Recipient class, shape)"""
    if st.get("asserts") is None:
        return None
    return tuple(("adv" if is_adv(p) else p["enc"], tuple(tuple(audcls(a) for a in r) for r in p["rs"]), cls(p.get("recip")))
                 + _shape_key(p, cls)
                 for p in st["asserts"])


def nontrivial(case, obs):
    if "steps" in case:
        key = []
        for st in case["steps"]:
            if st["op"] != "parse":
                key.append((st["op"], st["sp"], st["binding"][-4:], st.get("service", "")[:3]))
                continue
            sps, i, b = case["sps"], st["sp"], st["binding"]
            key.append(("parse", i, b[-4:], _rel(st["dest"], sps, i, b), _rel(st["recip"], sps, i, b),
                        tuple(tuple(_rel(a, sps, i, b) for a in r) for r in st["rs"]), bool(st["conv"]))
                       + _shape_key(st, lambda v: _rel(v, sps, i, b))
                       + (_asserts_key(st, lambda v: _rel(v, sps, i, b), lambda v: _rel(v, sps, i, b)),))
        return ("seq", tuple(tuple(sorted(p_urls(p))) + (p["eid"],) for p in case["sps"]), tuple(key))
    own = own_for(case["cfg"], case["binding"])
    shape = tuple(tuple("me" if a == ME else ("pad" if a and a.strip() == ME else ("none" if a is None else "x")) for a in r)
                  for r in case["rs"])
    key = (shape, _cls(case["dest"], own), _cls(case["recip"], own), bool(case["conv"]), case["binding"], case["cfg"])
    if case.get("asserts") is not None:
        audcls = lambda a: "me" if a == ME else ("pad" if a and a.strip() == ME else ("none" if a is None else "x"))  # noqa
        return key + (_asserts_key(case, lambda v: _cls(v, own), audcls), bool(case.get("unsol")))
    if case.get("cond") is not None or case.get("confs") is not None or case.get("unsol"):
        return key + _shape_key(case, lambda v: _cls(v, own)) + (bool(case.get("unsol")),)
    trivial = shape == (("me",),) and key[1] == "own" and key[2] == "own" and not case["conv"]
    return None if trivial else key


def histogram(cases, observed):
    h = {"by_tag": {}, "identity": 0, "rejected": 0, "exceptions": {}, "sequence_cases": 0, "sequence_calls": {},
         "sequence_lengths": {}}
    for c, o in zip(cases, observed):
        h["by_tag"][c["tag"]] = h["by_tag"].get(c["tag"], 0) + 1
        if "steps" in c:
            h["sequence_cases"] += 1
            n = str(len(c["steps"]))
            h["sequence_lengths"][n] = h["sequence_lengths"].get(n, 0) + 1
            for st, so in zip(c["steps"], o["steps"]):
                h["sequence_calls"][st["op"]] = h["sequence_calls"].get(st["op"], 0) + 1
                if st["op"] == "parse":
                    h["identity" if so["identity"] else "rejected"] += 1
                    if so.get("exc"):
                        h["exceptions"][so["exc"]] = h["exceptions"].get(so["exc"], 0) + 1
            continue
        if o["identity"]:
            h["identity"] += 1
        else:
            h["rejected"] += 1
        if o["exc"]:
            h["exceptions"][o["exc"]] = h["exceptions"].get(o["exc"], 0) + 1
    return h


def explain_term(coq_case_term):
    return "C04.Corr.explain (%s)" % coq_case_term
