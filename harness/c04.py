"""C04 — assertions addressed to someone else are never accepted.

A case is either ONE Response presented to a provider (the keys rs/dest/recip/conv/binding/cfg) or a
SEQUENCE of calls on several long-lived provider objects living in one process (the keys sps/steps).
Every sequence is observed in a process forked from one in which no provider object has ever been used
(see _zygote): the observation is a function of the case alone, also when the code under test keeps
state between calls or shares it between objects, so a failing sequence replays."""
import itertools
import json
import os
import traceback

from harness import env, render, spaccept, world
from harness.common import Raw, cq, cq_opt

PID = "C04"
PARALLEL = 12
IMPORTS = "From Verif Require Import C04.Model C04.Spec C04.Corr."
CASE_TYPE = "C04.Corr.case"
RUNNER = "C04.Corr.run"
FINDING_CLASSES = {1: "C04-F1"}
RULE = ("(1) single Responses: complete enumeration of audience structures up to 2 restrictions x 2 audiences over an 8-value alphabet "
        "(quick: all shapes with <=1 audience per restriction + seeded sample of the rest), complete product of "
        "Destination(8) x Recipient(9) x conv_info(3) x binding(2) x endpoint configuration(5, incl. SPs with no consumer endpoint for the binding used), plus random look-alike "
        "strings; every case is a Response signed by the IdP key and run through parse_authn_request_response. "
        "non-trivial = distinct (restriction shape class, dest class, recipient class, conv, binding, config) on which "
        "at least one addressing check is exercised with a non-default value.  "
        "(2) call sequences on long-lived provider objects in one process: a pool of 8 provider configurations (own/other "
        "entityID x own/other/swapped/bare/one-binding-only consumer URLs, with and without logout endpoints); for EVERY "
        "ordered pair of distinct configurations and both bindings: one earlier call on the first object (service_urls / "
        "create_authn_request / a good login / Config.endpoint of another service; all four kinds in the thorough tier, "
        "rotating in the quick tier) followed by a Response addressed (Destination, Recipient) to the FIRST object's "
        "endpoint presented to the SECOND, and the same with the first object's entityID as audience; per configuration "
        "the same-object sequences (other binding first, logout endpoints first, conv_info first/absent first, foreign "
        "Recipient first) in both orders; plus seeded random sequences of 3-8 calls over 1-3 objects whose "
        "Destination/Recipient/Audience values are drawn from the endpoints and entityIDs of ALL objects of the case.  "
        "non-trivial for a sequence = distinct (per call: kind, object, binding, classes of Destination/Recipient/"
        "Audience relative to the called object and to the other objects, conv)")
TRUSTED = ["source-to-Gallina translator harness/py2coq.py + value universe coq/theories/Base/Py.v (for_me is re-translated "
           "from the source text on every run; c04_source_for_me proves it equal to the model)",
           "xmlsec1 stand-in (harness/standin/xmlsec1.py)", "renderer harness/render.py", "abstraction in harness/c04.py",
           "os.fork isolation of the call-sequence observations (harness/c04.py:_zygote/_isolated)"]
ASSUMPTIONS = ["whitespace padding uses ASCII whitespace only (model's strip is the ASCII part of str.strip)",
               "everything else about the Response is valid (status, times, signature, InResponseTo)",
               "call sequences: the calls of one case are made one after the other in one thread"]

ME = world.SP_ID
OTHER = "https://other.example.org/sp.xml"
POST, REDIRECT = world.BINDING_HTTP_POST, world.BINDING_HTTP_REDIRECT

CONFIGS = {
    "default": [(world.SP_ACS_POST, POST), (world.SP_ACS_REDIRECT, REDIRECT)],
    "bare": [world.SP_ACS_POST],
    "twopost": [(world.SP_ACS_POST, POST), ("https://sp.example.org/acs/post2", POST), (world.SP_ACS_REDIRECT, REDIRECT)],
    # consumer endpoints for one binding only: on the other binding the SP has NO own endpoint (return_addrs = [])
    "postonly": [(world.SP_ACS_POST, POST)],
    "redironly": [(world.SP_ACS_REDIRECT, REDIRECT)],
}


# ------------------------------------------------------------------ provider objects of the call sequences
EVIL = "https://evil.example.com/acs"
SERVICES = ("assertion_consumer_service", "single_logout_service")


def _slo(host):
    return [["https://%s/slo/redirect" % host, REDIRECT], ["https://%s/slo/post" % host, POST]]


def _prov(eid, acs, slo):
    return {"eid": eid, "acs": [list(e) if isinstance(e, (tuple, list)) else e for e in acs], "slo": slo}


POOL = {
    # the standard SP
    "std": _prov(ME, CONFIGS["default"], [[world.SP_SLO_REDIRECT, REDIRECT], [world.SP_SLO_POST, POST]]),
    # another tenant: other entityID, other URLs
    "tenant": _prov("https://sp2.example.org/sp.xml", [("https://sp2.example.org/acs/post", POST),
                                                      ("https://sp2.example.org/acs/redirect", REDIRECT)], _slo("sp2.example.org")),
    # same entityID, other consumer URLs (second deployment of the same SP)
    "moved": _prov(ME, [("https://sp.example.org/acs/post2", POST), ("https://sp.example.org/acs/redirect2", REDIRECT)],
                   [[world.SP_SLO_REDIRECT, REDIRECT], [world.SP_SLO_POST, POST]]),
    # other entityID behind the same consumer URLs
    "alias": _prov("https://sp3.example.org/sp.xml", CONFIGS["default"], []),
    # same entityID, the two URLs registered for the opposite bindings
    "swapped": _prov(ME, [(world.SP_ACS_REDIRECT, POST), (world.SP_ACS_POST, REDIRECT)], _slo("sp.example.org")),
    # bare endpoint (no binding)
    "bare": _prov("https://sp4.example.org/sp.xml", ["https://sp4.example.org/acs"], []),
    # consumer endpoint for one binding only
    "postonly": _prov("https://sp5.example.org/sp.xml", [("https://sp5.example.org/acs/post", POST)], _slo("sp5.example.org")),
    "redironly": _prov("https://sp6.example.org/sp.xml", [("https://sp6.example.org/acs/redirect", REDIRECT)], _slo("sp6.example.org")),
}


def p_own(prov, binding, service="acs"):
    """Config.endpoint as the harness understands the configuration (independent of the code under test)."""
    eps = prov[service]
    spec = [e[0] for e in eps if not isinstance(e, str) and e[1] == binding]
    return spec or [e for e in eps if isinstance(e, str)]


def p_urls(prov, service="acs"):
    return [e if isinstance(e, str) else e[0] for e in prov[service]]


def s_parse(i, binding, rs, dest, recip, conv):
    return {"op": "parse", "sp": i, "binding": binding, "rs": rs, "dest": dest, "recip": recip, "conv": conv}


def s_good(sps, i, binding, conv=None):
    """A Response correctly addressed to object i (if it has a consumer endpoint for the binding)."""
    own = p_own(sps[i], binding)
    u = own[0] if own else "https://sp.example.org/acs/unregistered"
    return s_parse(i, binding, [[sps[i]["eid"]]], u, u, conv)


def s_call(kind, i, binding, service="single_logout_service"):
    if kind == "endp":
        return {"op": "endp", "sp": i, "service": service, "binding": binding}
    return {"op": kind, "sp": i, "binding": binding}


def mk_seq(sps, steps, tag):
    return {"sps": sps, "steps": steps, "tag": tag}


WARM = ("urls", "authn", "login", "endp")


def pair_cases(ctx):
    """Two objects with different configurations: one earlier call on the first, then a Response addressed to
    the FIRST one presented to the SECOND."""
    out = []
    names = list(POOL)
    n = 0
    for x in names:
        for y in names:
            if x == y:
                continue
            sps = [POOL[x], POOL[y]]
            for binding in (POST, REDIRECT):
                kinds = WARM if ctx.thorough else (WARM[n % len(WARM)],)
                n += 1
                for kind in kinds:
                    if kind == "login":
                        warm = s_good(sps, 0, binding)
                    else:
                        warm = s_call(kind, 0, binding)
                    theirs = p_own(sps[0], binding, "slo" if kind == "endp" else "acs") or p_urls(sps[0])
                    conv = {"entity_id": sps[1]["eid"]}
                    for u in (theirs if ctx.thorough else theirs[:1]):
                        out.append(mk_seq(sps, [warm, s_parse(1, binding, [[sps[1]["eid"]]], u, u, conv)], "pair-addr"))
            # the first object's entityID as audience, at the second; then the second's own Response
            mine = (p_own(sps[1], POST) or ["https://sp.example.org/acs/unregistered"])[0]
            out.append(mk_seq(sps, [s_good(sps, 0, POST), s_parse(1, POST, [[sps[0]["eid"]]], mine, mine, None),
                                    s_good(sps, 1, POST, {"entity_id": sps[1]["eid"]})], "pair-aud"))
    return out


def same_object_cases(ctx):
    """One long-lived object: what an earlier call (other binding, other service, other conv_info, a refused
    Response) must not change for a later one."""
    out = []
    for name, prov in POOL.items():
        sps = [prov]
        conv = {"entity_id": prov["eid"]}
        for b1, b2 in ((POST, REDIRECT), (REDIRECT, POST)):
            for u in (p_own(prov, b1) or p_urls(prov))[:1]:
                attack = s_parse(0, b2, [[prov["eid"]]], u, u, conv)
                out.append(mk_seq(sps, [s_good(sps, 0, b1), attack, s_good(sps, 0, b2, conv)], "same-binding"))
                out.append(mk_seq(sps, [s_call("urls", 0, b1), s_call("authn", 0, b1), attack, s_call("urls", 0, b2)], "same-binding"))
        for b in (POST, REDIRECT):
            for u in p_own(prov, b, "slo")[:1]:
                out.append(mk_seq(sps, [s_call("endp", 0, b), s_parse(0, b, [[prov["eid"]]], u, u, conv),
                                        s_call("urls", 0, b), s_call("endp", 0, b)], "same-service"))
                out.append(mk_seq(sps, [s_call("urls", 0, b), s_call("endp", 0, b),
                                        s_call("endp", 0, b, "assertion_consumer_service"),
                                        s_parse(0, b, [[prov["eid"]]], u, u, conv)], "same-service"))
        g = (p_own(prov, POST) or ["https://sp.example.org/acs/unregistered"])[0]
        lax = s_parse(0, POST, [[prov["eid"]]], g, EVIL, None)          # no conv_info: Recipient not examined
        strict = s_parse(0, POST, [[prov["eid"]]], g, EVIL, conv)       # conv_info: must be refused
        out.append(mk_seq(sps, [lax, strict, lax], "same-conv"))
        out.append(mk_seq(sps, [strict, lax, strict], "same-conv"))
        bad = s_parse(0, POST, [[prov["eid"]]], EVIL, EVIL, conv)
        out.append(mk_seq(sps, [bad, bad, s_good(sps, 0, POST, conv), bad], "same-repeat"))
        other = s_parse(0, POST, [[OTHER]], g, g, conv)
        out.append(mk_seq(sps, [s_good(sps, 0, POST, conv), other, s_parse(0, POST, [[OTHER], [prov["eid"]]], g, g, conv)], "same-aud"))
    return out


def random_sequences(ctx, count):
    rng = ctx.rng
    out = []
    names = list(POOL)
    for _ in range(count):
        k = rng.choice([1, 2, 2, 2, 3])
        chosen = [rng.choice(names) for _ in range(k)] if rng.random() < .25 else rng.sample(names, k)   # twins allowed
        sps = [POOL[c] for c in chosen]
        eids = sorted({p["eid"] for p in sps} | {OTHER})
        urls = sorted({u for p in sps for u in p_urls(p) + p_urls(p, "slo")})
        steps = []
        for _ in range(rng.randint(3, 8)):
            i = rng.randrange(k)
            b = rng.choice([POST, REDIRECT])
            r = rng.random()
            if r < .12:
                steps.append(s_call("urls", i, b))
            elif r < .22:
                steps.append(s_call("authn", i, b))
            elif r < .34:
                steps.append(s_call("endp", i, b, rng.choice(SERVICES)))
            else:
                good = s_good(sps, i, b)
                own = good["dest"]
                addr = [None, "", EVIL, own[:-1], own + "/x"] + urls + urls   # the objects' URLs twice as likely
                dest = own if rng.random() < .5 else rng.choice(addr)
                recip = own if rng.random() < .5 else rng.choice(addr + eids)
                me = sps[i]["eid"]
                o = rng.choice(eids)
                rs = [[me]] if rng.random() < .6 else rng.choice([[[o]], [[o], [me]], [[me], [o]], [[o, me]], [], [[me + "x"]], [[me], [" " + me + " "]]])
                conv = rng.choice([None, {"entity_id": me}, {"entity_id": me, "remote_addr": "192.0.2.7"}, {"remote_addr": "0.0.0.0"}])
                steps.append(s_parse(i, b, rs, dest, recip, conv))
        out.append(mk_seq(sps, steps, "seq-random"))
    return out


def regenerate_tables(ctx):
    """Translator: response.for_me as it reads NOW -> coq/gen/C04Src.v; C04/Source.v proves it equal to the model."""
    import os
    from harness import common, py2coq
    return py2coq.regenerate(os.path.join(common.GEN, "C04Src.v"), [
        (os.path.join(env.SRC, "saml2", "response.py"), "for_me", {"name": "src_for_me", "params": ["conditions", "myself"]})])


def aud_alphabet(rng=None):
    base = [ME, ME + "x", "x" + ME, ME.upper(), OTHER, " " + ME + " ", "\n" + ME + "\t", None]
    return base


def own_for(cfg, binding):
    eps = CONFIGS[cfg]
    spec = [e[0] for e in eps if isinstance(e, tuple) and e[1] == binding]
    return spec or [e for e in eps if isinstance(e, str)]


def addr_alphabet(cfg, binding, with_eid):
    otherb = REDIRECT if binding == POST else POST
    oo = own_for(cfg, otherb)
    owns = own_for(cfg, binding)
    # no endpoint for this binding: the "own" slot holds a well-formed URL of the SP that is not registered for it
    own = owns[0] if owns else "https://sp.example.org/acs/unregistered"
    other_binding = oo[0] if oo and oo[0] != own else "https://sp.example.org/acs/elsewhere"
    vals = [None, "", own, other_binding, "https://evil.example.com/acs", own[:-1], own + "/x", own.upper()]
    if with_eid:
        vals.append(ME)
    return vals


def mk_case(rs, dest, recip, conv, binding, cfg, tag):
    return {"rs": rs, "dest": dest, "recip": recip, "conv": conv, "binding": binding, "cfg": cfg, "tag": tag}


def generate(ctx):
    rng = ctx.rng
    cases = []
    al = aud_alphabet()
    good_dest = {POST: world.SP_ACS_POST, REDIRECT: world.SP_ACS_REDIRECT}

    def aud_case(rs, tag):
        return mk_case(rs, good_dest[POST], good_dest[POST], None, POST, "default", tag)

    # audience structures
    cases.append(aud_case([], "aud0"))
    singles = [[a] for a in al]
    pairs = [[a, b] for a in al for b in al]
    for r in singles + pairs:
        cases.append(aud_case([r], "aud1"))
    for r1 in singles:
        for r2 in singles:
            cases.append(aud_case([r1, r2], "aud2"))
    rest2 = [[r1, r2] for r1 in singles + pairs for r2 in singles + pairs if len(r1) + len(r2) > 2]
    if ctx.thorough:
        for rs in rest2:
            cases.append(aud_case(rs, "aud2x"))
    else:
        for rs in rng.sample(rest2, 150):
            cases.append(aud_case(rs, "aud2x"))
    # three restrictions / three audiences, random
    for _ in range(600 if ctx.thorough else 80):
        n = rng.randint(1, 3)
        rs = [[rng.choice(al) for _ in range(rng.randint(1, 3))] for _ in range(n)]
        cases.append(aud_case(rs, "aud3r"))
    # random look-alikes
    for _ in range(300 if ctx.thorough else 40):
        cases.append(aud_case([[lookalike(rng, ME)] for _ in range(rng.randint(1, 2))] + ([[ME]] if rng.random() < .5 else []), "audlook"))
    # destination x recipient x conv x binding x config
    convs = [None, {"entity_id": ME}, {"remote_addr": "0.0.0.0"}]
    for cfg in CONFIGS:
        for binding in (POST, REDIRECT):
            dests = addr_alphabet(cfg, binding, False)
            recips = addr_alphabet(cfg, binding, True)
            for conv in convs:
                for d in dests:
                    for r in recips:
                        if cfg != "default" and own_for(cfg, binding) and not ctx.thorough and rng.random() > 0.25:
                            continue
                        cases.append(mk_case([[ME]], d, r, conv, binding, cfg, "addr"))
    for _ in range(300 if ctx.thorough else 40):
        binding = rng.choice([POST, REDIRECT])
        own = own_for("default", binding)[0]
        cases.append(mk_case([[ME]], lookalike(rng, own), lookalike(rng, own), rng.choice(convs), binding, "default", "addrlook"))
    # an own endpoint of ANOTHER service (logout) is not a consumer endpoint
    for binding, slo in ((POST, world.SP_SLO_POST), (REDIRECT, world.SP_SLO_REDIRECT)):
        for conv in convs:
            cases.append(mk_case([[ME]], slo, good_dest[binding], conv, binding, "default", "addrslo"))
            cases.append(mk_case([[ME]], good_dest[binding], slo, conv, binding, "default", "addrslo"))
    # call sequences on long-lived provider objects
    cases += pair_cases(ctx)
    cases += same_object_cases(ctx)
    cases += random_sequences(ctx, 700 if ctx.thorough else 60)
    return cases


def lookalike(rng, s):
    k = rng.randint(0, 7)
    if k == 0:
        i = rng.randrange(len(s))
        return s[:i] + s[i].swapcase() + s[i + 1:]
    if k == 1:
        return s[: rng.randrange(1, len(s))]
    if k == 2:
        return s + rng.choice(["/", "x", "?a=b", "#f", ".evil.com", "%20"])
    if k == 3:
        return rng.choice(["x", "http://", "https://evil.example.com/?u="]) + s
    if k == 4:
        i = rng.randrange(len(s))
        return s[:i] + s[i + 1:]
    if k == 5:
        return s.replace("https", "http")
    if k == 6:
        return s + rng.choice([" ", "\t", "\n"])
    return s


def _single_sp(cfg):
    return spaccept.get_sp({"sp_endpoints": {
        "assertion_consumer_service": CONFIGS[cfg],
        "single_logout_service": [(world.SP_SLO_REDIRECT, REDIRECT), (world.SP_SLO_POST, POST)]}})


# ------------------------------------------------------------------ isolation of the call sequences
# A call-sequence case asks what calls made EARLIER in the same process change.  Its observation must therefore
# start from a process in which no provider object has been used, whatever this worker did before - otherwise
# the result would depend on the cases the worker happened to run earlier and a failing case would not replay.
# Every process that observes (pool worker or driver) owns one "zygote": a child forked at the process's FIRST
# call of observe(), before anything else was done, which has imported pysaml2, installed stand-in and clock,
# constructed (and dropped) one standard provider - and never calls into a provider again.  It forks one
# grandchild per sequence case; the grandchild builds the case's provider objects, makes the calls, writes the
# result and exits.  (Forking the worker itself per case costs ~10x more here: the worker's heap is written to
# by the single-Response cases, the zygote's is not.)
_zy = None   # (owner pid, request write fd, response read file)


def _zygote_main(req_r, resp_w):
    import select
    import signal

    signal.signal(signal.SIGTERM, signal.SIG_DFL)
    signal.signal(signal.SIGINT, signal.SIG_IGN)
    parent = os.getppid()
    try:
        world.make_sp()                      # imports + one-time caches; the object is dropped unused
        spaccept.CLOCK.install()
        import gc
        gc.collect()
        gc.freeze()
        buf = b""
        while True:
            rd, _, _ = select.select([req_r], [], [], 2.0)
            if not rd:
                if os.getppid() != parent:
                    break
                continue
            chunk = os.read(req_r, 1 << 16)
            if not chunk:
                break
            buf += chunk
            while b"\n" in buf:
                line, buf = buf.split(b"\n", 1)
                pid = os.fork()
                if pid == 0:
                    code = 0
                    try:
                        try:
                            out = {"ok": _observe_seq(json.loads(line))}
                        except BaseException as e:  # noqa
                            out = {"err": "%s: %s" % (type(e).__name__, e), "trace": traceback.format_exc()[-1500:]}
                        os.write(resp_w, (json.dumps(out, default=str) + "\n").encode())
                    except BaseException:  # noqa
                        code = 3
                    finally:
                        os._exit(code)
                _, status = os.waitpid(pid, 0)
                if status != 0:
                    os.write(resp_w, (json.dumps({"err": "child status %r" % status}) + "\n").encode())
    finally:
        os._exit(0)


def _zygote():
    global _zy
    if _zy is not None and _zy[0] == os.getpid():
        return _zy
    if _zy is not None:          # inherited from the process this one was forked from: not ours
        try:
            os.close(_zy[1])
            _zy[2].close()
        except OSError:
            pass
        _zy = None
    req_r, req_w = os.pipe()
    resp_r, resp_w = os.pipe()
    pid = os.fork()
    if pid == 0:
        os.close(req_w)
        os.close(resp_r)
        _zygote_main(req_r, resp_w)
    os.close(req_r)
    os.close(resp_w)
    _zy = (os.getpid(), req_w, os.fdopen(resp_r, "rb"))
    return _zy


def _isolated(case):
    _, req_w, resp = _zygote()
    data = (json.dumps(case) + "\n").encode()
    while data:
        data = data[os.write(req_w, data):]
    line = resp.readline()
    if not line:
        raise RuntimeError("C04: the zygote of process %d died on %r" % (os.getpid(), case))
    out = json.loads(line)
    if "err" in out:
        raise RuntimeError("C04 sequence observation failed in the harness: %s\n%s" % (out["err"], out.get("trace", "")))
    return out["ok"]


def observe(case):
    _zygote()        # forked before this process touches any provider object
    if "steps" in case:
        return _isolated(case)
    return _observe_single(case)


def _response(step, n):
    a = spaccept.good_assertion(id="a-%d" % n)
    a["subject"]["name_id"] = "subject-%d" % n
    a["conditions"]["audience_restrictions"] = step["rs"]
    d = a["subject"]["confirmations"][0]["data"]
    if step["recip"] is None:
        del d["recipient"]
    else:
        d["recipient"] = step["recip"]
    r = spaccept.good_response(id="r-%d" % n)
    if step["dest"] is None:
        del r["destination"]
    else:
        r["destination"] = step["dest"]
    xml = spaccept.build(r, [a], sign_response="idp")
    return xml, (render.b64(xml) if step["binding"] == POST else render.deflate_b64(xml))


def _observe_single(case):
    sp = _single_sp(case["cfg"])
    xml, enc = _response(case, 1)
    o = spaccept.observe(sp, xml, case["binding"], {"req-1": "/"}, conv_info=case["conv"], encoded=enc)
    return {"identity": o["identity"], "exc": o["exc"]}


def _subjects(sp):
    try:
        return {str(x) for x in sp.users.subjects()}
    except Exception:  # noqa
        return set()


def _parse_step(sp, step, n):
    """spaccept.observe for an object whose identity cache is NOT reset between calls: identity = the call
    returned something carrying identity, or the cache holds a subject it did not hold before the call."""
    xml, enc = _response(step, n)
    before = _subjects(sp)
    obs = {"identity": False, "exc": None}
    r = None
    try:
        r = sp.parse_authn_request_response(enc, step["binding"], {"req-1": "/"}, conv_info=step["conv"])
    except Exception as e:  # noqa
        obs["exc"] = type(e).__name__
    if r is not None:
        nid = getattr(r, "name_id", None)
        si = None
        try:
            si = r.session_info()
        except Exception:  # noqa
            si = None
        obs["identity"] = bool((nid is not None and getattr(nid, "text", None) is not None) or getattr(r, "ava", None)
                               or getattr(r, "assertion", None) is not None or si is not None)
    if _subjects(sp) - before:
        obs["identity"] = True
    return obs


def _observe_seq(case):
    sps = []
    for p in case["sps"]:
        eps = {"assertion_consumer_service": [tuple(e) if isinstance(e, list) else e for e in p["acs"]]}
        if p["slo"]:
            eps["single_logout_service"] = [tuple(e) for e in p["slo"]]
        # no private key of its own (46 ms of RSA key checking per object otherwise): the SP neither signs nor
        # decrypts anything in these calls
        sps.append(world.make_sp(entityid=p["eid"], sp_endpoints=eps, key_file=None, encryption_keypairs=None))
    spaccept.CLOCK.install()
    out = []
    for n, st in enumerate(case["steps"]):
        sp = sps[st["sp"]]
        try:
            if st["op"] == "parse":
                out.append(_parse_step(sp, st, n + 1))
            elif st["op"] == "urls":
                v = sp.service_urls(st["binding"])
                out.append({"urls": None if v is None else [str(u) for u in v]})
            elif st["op"] == "endp":
                out.append({"endp": [str(u) for u in sp.config.endpoint(st["service"], st["binding"], "sp")]})
            elif st["op"] == "authn":
                _rid, req = sp.create_authn_request(world.IDP_SSO_REDIRECT, binding=st["binding"], sign=False)
                out.append({"acs": getattr(req, "assertion_consumer_service_url", None)})
            else:
                raise ValueError(st["op"])
        except ValueError:
            raise
        except Exception as e:  # noqa  (a call that raises is reported as a result of the wrong kind)
            out.append({"raised": type(e).__name__})
    excs = [o["exc"] for o in out if o.get("exc")]
    return {"steps": out, "identity": sum(1 for o in out if o.get("identity")), "exc": excs[0] if excs else None}


def coq_eps(eps):
    out = []
    for e in eps:
        if isinstance(e, (tuple, list)):
            out.append(Raw("(EP %s %s)" % (cq(e[0]), cq(e[1]))))
        else:
            out.append(Raw("(Bare %s)" % cq(e)))
    return out


def coq_specs(cfg):
    return coq_eps(CONFIGS[cfg])


def coq_conv(conv):
    if not conv:
        return "None"
    return "(Some %s)" % cq_opt(conv.get("entity_id"))


def coq_parse(ctor, eid, specs, st, identity):
    rs = [[Raw(cq_opt(a)) for a in r] for r in st["rs"]]
    return "%s %s %s %s %s %s %s %s %s" % (
        ctor, cq(eid), cq(specs), cq(st["binding"]), cq(rs), cq_opt(st["dest"]), coq_conv(st["conv"]),
        cq_opt(st["recip"]), cq(bool(identity)))


def coq_case(case, obs):
    if "steps" not in case:
        return coq_parse("C04.Corr.mk", ME, coq_specs(case["cfg"]), case, obs["identity"])
    evs = []
    for st, o in zip(case["steps"], obs["steps"]):
        p = case["sps"][st["sp"]]
        acs = coq_eps(p["acs"])
        if st["op"] == "parse":
            evs.append(Raw("(%s)" % coq_parse("C04.Corr.P", p["eid"], acs, st, o["identity"])))
            continue
        specs = acs if st["op"] != "endp" or st["service"] == "assertion_consumer_service" else coq_eps(p["slo"])
        op = {"urls": "OUrls", "endp": "OEndp", "authn": "OAcs"}[st["op"]]
        if "raised" in o:       # no result of the right kind: the model cannot agree
            res = "RId false"
        elif st["op"] == "urls":
            res = "RUrls %s" % cq_opt(o["urls"])
        elif st["op"] == "endp":
            res = "REndp %s" % cq(o["endp"])
        else:
            res = "RAcs %s" % cq_opt(o["acs"])
        evs.append(Raw("(%s %s %s, %s)" % (op, cq(specs), cq(st["binding"]), res)))
    return cq(evs)


def _cls(v, own=None):
    if v is None:
        return "absent"
    if v == "":
        return "empty"
    if v == ME:
        return "eid"
    return "own" if own and v in own else "other"


def _rel(v, sps, i, binding):
    """class of an address / audience value relative to the called object and to the other objects of the case"""
    if v is None:
        return "absent"
    if v == "":
        return "empty"
    me = sps[i]
    if v == me["eid"]:
        return "eid"
    if v in p_own(me, binding):
        return "own"
    if v in p_urls(me):
        return "own-other-binding"
    if v in p_urls(me, "slo"):
        return "own-logout"
    for j, p in enumerate(sps):
        if j != i and (v == p["eid"] or v in p_urls(p) or v in p_urls(p, "slo")):
            return "theirs"
    return "other"


def nontrivial(case, obs):
    if "steps" in case:
        key = []
        for st in case["steps"]:
            if st["op"] != "parse":
                key.append((st["op"], st["sp"], st["binding"][-4:], st.get("service", "")[:3]))
                continue
            sps, i, b = case["sps"], st["sp"], st["binding"]
            key.append(("parse", i, b[-4:], _rel(st["dest"], sps, i, b), _rel(st["recip"], sps, i, b),
                        tuple(tuple(_rel(a, sps, i, b) for a in r) for r in st["rs"]), bool(st["conv"])))
        return ("seq", tuple(tuple(sorted(p_urls(p))) + (p["eid"],) for p in case["sps"]), tuple(key))
    own = own_for(case["cfg"], case["binding"])
    shape = tuple(tuple("me" if a == ME else ("pad" if a and a.strip() == ME else ("none" if a is None else "x")) for a in r)
                  for r in case["rs"])
    key = (shape, _cls(case["dest"], own), _cls(case["recip"], own), bool(case["conv"]), case["binding"], case["cfg"])
    trivial = shape == (("me",),) and key[1] == "own" and key[2] == "own" and not case["conv"]
    return None if trivial else key


def histogram(cases, observed):
    h = {"by_tag": {}, "identity": 0, "rejected": 0, "exceptions": {}, "sequence_cases": 0, "sequence_calls": {},
         "sequence_lengths": {}}
    for c, o in zip(cases, observed):
        h["by_tag"][c["tag"]] = h["by_tag"].get(c["tag"], 0) + 1
        if "steps" in c:
            h["sequence_cases"] += 1
            n = str(len(c["steps"]))
            h["sequence_lengths"][n] = h["sequence_lengths"].get(n, 0) + 1
            for st, so in zip(c["steps"], o["steps"]):
                h["sequence_calls"][st["op"]] = h["sequence_calls"].get(st["op"], 0) + 1
                if st["op"] == "parse":
                    h["identity" if so["identity"] else "rejected"] += 1
                    if so.get("exc"):
                        h["exceptions"][so["exc"]] = h["exceptions"].get(so["exc"], 0) + 1
            continue
        if o["identity"]:
            h["identity"] += 1
        else:
            h["rejected"] += 1
        if o["exc"]:
            h["exceptions"][o["exc"]] = h["exceptions"].get(o["exc"], 0) + 1
    return h


def explain_term(coq_case_term):
    return "C04.Corr.explain (%s)" % coq_case_term
