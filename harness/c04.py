"""C04 — assertions addressed to someone else are never accepted."""
import itertools

from harness import env, render, spaccept, world
from harness.common import Raw, cq, cq_opt

PID = "C04"
PARALLEL = 12
IMPORTS = "From Verif Require Import C04.Model C04.Spec C04.Corr."
CASE_TYPE = "C04.Corr.case"
RUNNER = "C04.Corr.run"
FINDING_CLASSES = {1: "C04-F1"}
RULE = ("complete enumeration of audience structures up to 2 restrictions x 2 audiences over an 8-value alphabet "
        "(quick: all shapes with <=1 audience per restriction + seeded sample of the rest), complete product of "
        "Destination(8) x Recipient(9) x conv_info(3) x binding(2) x endpoint configuration(5, incl. SPs with no consumer endpoint for the binding used), plus random look-alike "
        "strings; every case is a Response signed by the IdP key and run through parse_authn_request_response. "
        "non-trivial = distinct (restriction shape class, dest class, recipient class, conv, binding, config) on which "
        "at least one addressing check is exercised with a non-default value")
TRUSTED = ["source-to-Gallina translator harness/py2coq.py + value universe coq/theories/Base/Py.v (for_me is re-translated "
           "from the source text on every run; c04_source_for_me proves it equal to the model)",
           "xmlsec1 stand-in (harness/standin/xmlsec1.py)", "renderer harness/render.py", "abstraction in harness/c04.py"]
ASSUMPTIONS = ["whitespace padding uses ASCII whitespace only (model's strip is the ASCII part of str.strip)",
               "everything else about the Response is valid (status, times, signature, InResponseTo)"]

ME = world.SP_ID
OTHER = "https://other.example.org/sp.xml"
POST, REDIRECT = world.BINDING_HTTP_POST, world.BINDING_HTTP_REDIRECT

CONFIGS = {
    "default": [(world.SP_ACS_POST, POST), (world.SP_ACS_REDIRECT, REDIRECT)],
    "bare": [world.SP_ACS_POST],
    "twopost": [(world.SP_ACS_POST, POST), ("https://sp.example.org/acs/post2", POST), (world.SP_ACS_REDIRECT, REDIRECT)],
    # consumer endpoints for one binding only: on the other binding the SP has NO own endpoint (return_addrs = [])
    "postonly": [(world.SP_ACS_POST, POST)],
    "redironly": [(world.SP_ACS_REDIRECT, REDIRECT)],
}


def regenerate_tables(ctx):
    """Translator: response.for_me as it reads NOW -> coq/gen/C04Src.v; C04/Source.v proves it equal to the model."""
    import os
    from harness import common, py2coq
    return py2coq.regenerate(os.path.join(common.GEN, "C04Src.v"), [
        (os.path.join(env.SRC, "saml2", "response.py"), "for_me", {"name": "src_for_me", "params": ["conditions", "myself"]})])


def aud_alphabet(rng=None):
    base = [ME, ME + "x", "x" + ME, ME.upper(), OTHER, " " + ME + " ", "\n" + ME + "\t", None]
    return base


def own_for(cfg, binding):
    eps = CONFIGS[cfg]
    spec = [e[0] for e in eps if isinstance(e, tuple) and e[1] == binding]
    return spec or [e for e in eps if isinstance(e, str)]


def addr_alphabet(cfg, binding, with_eid):
    otherb = REDIRECT if binding == POST else POST
    oo = own_for(cfg, otherb)
    owns = own_for(cfg, binding)
    # no endpoint for this binding: the "own" slot holds a well-formed URL of the SP that is not registered for it
    own = owns[0] if owns else "https://sp.example.org/acs/unregistered"
    other_binding = oo[0] if oo and oo[0] != own else "https://sp.example.org/acs/elsewhere"
    vals = [None, "", own, other_binding, "https://evil.example.com/acs", own[:-1], own + "/x", own.upper()]
    if with_eid:
        vals.append(ME)
    return vals


def mk_case(rs, dest, recip, conv, binding, cfg, tag):
    return {"rs": rs, "dest": dest, "recip": recip, "conv": conv, "binding": binding, "cfg": cfg, "tag": tag}


def generate(ctx):
    rng = ctx.rng
    cases = []
    al = aud_alphabet()
    good_dest = {POST: world.SP_ACS_POST, REDIRECT: world.SP_ACS_REDIRECT}

    def aud_case(rs, tag):
        return mk_case(rs, good_dest[POST], good_dest[POST], None, POST, "default", tag)

    # audience structures
    cases.append(aud_case([], "aud0"))
    singles = [[a] for a in al]
    pairs = [[a, b] for a in al for b in al]
    for r in singles + pairs:
        cases.append(aud_case([r], "aud1"))
    for r1 in singles:
        for r2 in singles:
            cases.append(aud_case([r1, r2], "aud2"))
    rest2 = [[r1, r2] for r1 in singles + pairs for r2 in singles + pairs if len(r1) + len(r2) > 2]
    if ctx.thorough:
        for rs in rest2:
            cases.append(aud_case(rs, "aud2x"))
    else:
        for rs in rng.sample(rest2, 150):
            cases.append(aud_case(rs, "aud2x"))
    # three restrictions / three audiences, random
    for _ in range(600 if ctx.thorough else 80):
        n = rng.randint(1, 3)
        rs = [[rng.choice(al) for _ in range(rng.randint(1, 3))] for _ in range(n)]
        cases.append(aud_case(rs, "aud3r"))
    # random look-alikes
    for _ in range(300 if ctx.thorough else 40):
        cases.append(aud_case([[lookalike(rng, ME)] for _ in range(rng.randint(1, 2))] + ([[ME]] if rng.random() < .5 else []), "audlook"))
    # destination x recipient x conv x binding x config
    convs = [None, {"entity_id": ME}, {"remote_addr": "0.0.0.0"}]
    for cfg in CONFIGS:
        for binding in (POST, REDIRECT):
            dests = addr_alphabet(cfg, binding, False)
            recips = addr_alphabet(cfg, binding, True)
            for conv in convs:
                for d in dests:
                    for r in recips:
                        if cfg != "default" and own_for(cfg, binding) and not ctx.thorough and rng.random() > 0.25:
                            continue
                        cases.append(mk_case([[ME]], d, r, conv, binding, cfg, "addr"))
    for _ in range(300 if ctx.thorough else 40):
        binding = rng.choice([POST, REDIRECT])
        own = own_for("default", binding)[0]
        cases.append(mk_case([[ME]], lookalike(rng, own), lookalike(rng, own), rng.choice(convs), binding, "default", "addrlook"))
    return cases


def lookalike(rng, s):
    k = rng.randint(0, 7)
    if k == 0:
        i = rng.randrange(len(s))
        return s[:i] + s[i].swapcase() + s[i + 1:]
    if k == 1:
        return s[: rng.randrange(1, len(s))]
    if k == 2:
        return s + rng.choice(["/", "x", "?a=b", "#f", ".evil.com", "%20"])
    if k == 3:
        return rng.choice(["x", "http://", "https://evil.example.com/?u="]) + s
    if k == 4:
        i = rng.randrange(len(s))
        return s[:i] + s[i + 1:]
    if k == 5:
        return s.replace("https", "http")
    if k == 6:
        return s + rng.choice([" ", "\t", "\n"])
    return s


def observe(case):
    sp = spaccept.get_sp({"sp_endpoints": {
        "assertion_consumer_service": CONFIGS[case["cfg"]],
        "single_logout_service": [(world.SP_SLO_REDIRECT, REDIRECT)]}})
    a = spaccept.good_assertion()
    a["conditions"]["audience_restrictions"] = case["rs"]
    d = a["subject"]["confirmations"][0]["data"]
    if case["recip"] is None:
        del d["recipient"]
    else:
        d["recipient"] = case["recip"]
    r = spaccept.good_response()
    if case["dest"] is None:
        del r["destination"]
    else:
        r["destination"] = case["dest"]
    xml = spaccept.build(r, [a], sign_response="idp")
    enc = render.b64(xml) if case["binding"] == POST else render.deflate_b64(xml)
    o = spaccept.observe(sp, xml, case["binding"], {"req-1": "/"}, conv_info=case["conv"], encoded=enc)
    return {"identity": o["identity"], "exc": o["exc"]}


def coq_specs(cfg):
    out = []
    for e in CONFIGS[cfg]:
        if isinstance(e, tuple):
            out.append(Raw("(EP %s %s)" % (cq(e[0]), cq(e[1]))))
        else:
            out.append(Raw("(Bare %s)" % cq(e)))
    return out


def coq_case(case, obs):
    rs = [[Raw(cq_opt(a)) for a in r] for r in case["rs"]]
    conv = case["conv"]
    if not conv:
        cconv = "None"
    else:
        cconv = "(Some %s)" % cq_opt(conv.get("entity_id"))
    return "C04.Corr.mk %s %s %s %s %s %s %s %s" % (
        cq(ME), cq(coq_specs(case["cfg"])), cq(case["binding"]), cq(rs), cq_opt(case["dest"]), cconv,
        cq_opt(case["recip"]), cq(bool(obs["identity"])))


def _cls(v, own=None):
    if v is None:
        return "absent"
    if v == "":
        return "empty"
    if v == ME:
        return "eid"
    return "own" if own and v in own else "other"


def nontrivial(case, obs):
    own = own_for(case["cfg"], case["binding"])
    shape = tuple(tuple("me" if a == ME else ("pad" if a and a.strip() == ME else ("none" if a is None else "x")) for a in r)
                  for r in case["rs"])
    key = (shape, _cls(case["dest"], own), _cls(case["recip"], own), bool(case["conv"]), case["binding"], case["cfg"])
    trivial = shape == (("me",),) and key[1] == "own" and key[2] == "own" and not case["conv"]
    return None if trivial else key


def histogram(cases, observed):
    h = {"by_tag": {}, "identity": 0, "rejected": 0, "exceptions": {}}
    for c, o in zip(cases, observed):
        h["by_tag"][c["tag"]] = h["by_tag"].get(c["tag"], 0) + 1
        if o["identity"]:
            h["identity"] += 1
        else:
            h["rejected"] += 1
        if o["exc"]:
            h["exceptions"][o["exc"]] = h["exceptions"].get(o["exc"], 0) + 1
    return h


def explain_term(coq_case_term):
    return "C04.Corr.explain (%s)" % coq_case_term
