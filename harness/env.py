"""Run-time environment for executing the real pysaml2 code from /repo's working tree.

 * puts $VERIF_REPO/src (default /repo/src) first on sys.path (checked);
 * installs the xmlsec1 stand-in behind saml2.sigver.Popen / saml2.algsupport.Popen;
 * provides a frozen, steppable virtual clock behind saml2.time_util.
"""
import calendar
import datetime as _dt
import logging
import os
import sys
import time as _time
import types

REPO = os.environ.get("VERIF_REPO", "/repo")
SRC = os.path.join(REPO, "src")
VERIF = os.path.dirname(os.path.dirname(os.path.abspath(__file__)))
STANDIN_PATH = os.path.join(VERIF, "harness", "standin", "xmlsec1.py")

if SRC not in sys.path[:1]:
    sys.path.insert(0, SRC)
if VERIF not in sys.path:
    sys.path.append(VERIF)

os.environ.setdefault("PYSAML2_VERIF", "1")
logging.disable(logging.CRITICAL)
import warnings  # noqa: E402

warnings.filterwarnings("ignore")


def check_repo_import():
    import saml2

    f = os.path.realpath(saml2.__file__)
    if not f.startswith(os.path.realpath(SRC) + os.sep):
        raise RuntimeError("saml2 imported from %s, expected under %s" % (f, SRC))
    return f


_standin = None


def standin():
    """The stand-in module (import by path; it is also an executable)."""
    global _standin
    if _standin is None:
        from harness.standin import xmlsec1 as m

        _standin = m
    return _standin


def install_standin():
    check_repo_import()
    import saml2.algsupport
    import saml2.sigver

    m = standin()
    saml2.sigver.Popen = m.FakePopen
    saml2.algsupport.Popen = m.FakePopen
    return m


class VClock:
    """Frozen clock; `now` is seconds since the epoch (UTC)."""

    def __init__(self, now=1700000000):
        self.now = now
        self._installed = False

    def set(self, now):
        self.now = now

    def tick(self, dt):
        self.now += dt

    def install(self):
        if self._installed:
            return self
        check_repo_import()
        import saml2.time_util as tu

        clock = self

        tmod = types.ModuleType("time_proxy")
        for k in dir(_time):
            if not k.startswith("__"):
                setattr(tmod, k, getattr(_time, k))

        def gmtime(secs=None):
            return _time.gmtime(clock.now if secs is None else secs)

        def time():
            return float(clock.now)

        def localtime(secs=None):
            return _time.localtime(clock.now if secs is None else secs)

        tmod.gmtime = gmtime
        tmod.time = time
        tmod.localtime = localtime

        class VDateTime(_dt.datetime):
            @classmethod
            def utcnow(cls):
                return cls.utcfromtimestamp(clock.now)

            @classmethod
            def now(cls, tz=None):
                if tz is None:
                    return cls.utcfromtimestamp(clock.now)
                return cls.fromtimestamp(clock.now, tz)

        tu.time = tmod
        tu.datetime = VDateTime
        import saml2.validate as v

        v.time = tmod
        try:
            import saml2.client_base as cb

            cb.time = tmod
        except Exception:
            pass
        self._installed = True
        return self


def iso(secs, frac=None):
    """xs:dateTime string for epoch seconds (UTC)."""
    s = _time.strftime("%Y-%m-%dT%H:%M:%S", _time.gmtime(secs))
    if frac:
        s += "." + frac
    return s + "Z"


def epoch(y, mo, d, h=0, mi=0, s=0):
    return calendar.timegm((y, mo, d, h, mi, s, 0, 0, 0))
