"""Source-to-Gallina translator for selected pure functions of /repo/src/saml2 (fail-closed).

translate(path, qualname, spec) reads the CURRENT source text, finds the function (or method) by name,
and turns its body into a Gallina definition over the dynamic value universe of coq/theories/Base/Py.v.
Every AST node outside the supported subset raises Untranslatable: the caller reports the property as no
longer shown (the translated definition is a proof obligation's subject), it never guesses.

Supported subset
  statements : Return, If/elif/else, For (with else, break), Assign to one name or to a tuple of names
               (from str.partition), Raise, Break, Pass, docstrings, calls of ignored functions
               (logging) as statements
  expressions: names, str/int/bool/None constants, attribute reads, `and`/`or`/`not`, comparisons
               (== != < <= > >= in / not in with a one-character str constant, is / is not None),
               `+`, conditional expressions, f-strings of plain names, empty list `[]`,
               method calls strip/startswith/endswith/partition/get, and calls listed in spec["calls"]
  spec       : {"name": Coq name, "params": [python parameter names in order],
                "extra_params": [(coq name, coq type)]  # externals the body calls (clock, parsers)
                "calls": {"dotted.python.name": lambda args: "coq term"},
                "ignore_calls": ["logger.debug", ...]}
"""
import ast
import textwrap


class Untranslatable(Exception):
    pass


def _dotted(node):
    if isinstance(node, ast.Name):
        return node.id
    if isinstance(node, ast.Attribute):
        b = _dotted(node.value)
        return None if b is None else b + "." + node.attr
    return None


def cstr(s):
    if not all(0x20 <= ord(c) <= 0x7E for c in s):
        raise Untranslatable("non-ASCII string constant %r" % s)
    return '"' + s.replace('"', '""') + '"'


class Tr:
    def __init__(self, spec):
        self.spec = spec
        self.calls = spec.get("calls", {})
        self.ignore = set(spec.get("ignore_calls", ["logger.debug", "logger.info", "logger.warning", "logger.error"]))
        self.n = 0

    # ------------------------------------------------------------------ expressions
    def e(self, node):
        if isinstance(node, ast.Name):
            return "v_" + node.id
        if isinstance(node, ast.Constant):
            v = node.value
            if v is None:
                return "PNone"
            if isinstance(v, bool):
                return "(PBool %s)" % ("true" if v else "false")
            if isinstance(v, int):
                return "(PInt (%d)%%Z)" % v
            if isinstance(v, str):
                return "(PStr %s)" % cstr(v)
            raise Untranslatable("constant %r" % (v,))
        if isinstance(node, ast.List) and not node.elts:
            return "(PList [])"
        if isinstance(node, ast.Dict) and not node.keys:
            return "(PObj [])"
        if isinstance(node, ast.Attribute):
            d = _dotted(node)
            if d in self.calls and not callable(self.calls[d]):
                return self.calls[d]
            return "(py_attr %s %s)" % (self.e(node.value), cstr(node.attr))
        if isinstance(node, ast.BoolOp):
            op = "py_or" if isinstance(node.op, ast.Or) else "py_and"
            vals = [self.e(v) for v in node.values]
            out = vals[-1]
            for v in reversed(vals[:-1]):
                out = "(%s %s %s)" % (op, v, out)
            return out
        if isinstance(node, ast.UnaryOp) and isinstance(node.op, ast.Not):
            return "(py_not %s)" % self.e(node.operand)
        if isinstance(node, ast.BinOp) and isinstance(node.op, ast.Add):
            return "(py_add %s %s)" % (self.e(node.left), self.e(node.right))
        if isinstance(node, ast.IfExp):
            return "(if py_truthy %s then %s else %s)" % (self.e(node.test), self.e(node.body), self.e(node.orelse))
        if isinstance(node, ast.Compare):
            if len(node.ops) != 1:
                raise Untranslatable("chained comparison")
            op, l, r = node.ops[0], node.left, node.comparators[0]
            if isinstance(op, (ast.Is, ast.IsNot)):
                if not (isinstance(r, ast.Constant) and r.value is None):
                    raise Untranslatable("`is` with something other than None")
                return "(%s %s)" % ("py_is_none" if isinstance(op, ast.Is) else "py_is_not_none", self.e(l))
            if isinstance(op, (ast.In, ast.NotIn)):
                if isinstance(l, ast.Constant) and isinstance(l.value, str) and len(l.value) == 1:
                    t = "(py_contains_char %s %s)" % (self.e(l), self.e(r))
                else:
                    t = "(py_in %s %s)" % (self.e(l), self.e(r))      # list membership (or one-character needle)
                return t if isinstance(op, ast.In) else "(py_not %s)" % t
            table = {ast.Eq: "py_eq", ast.NotEq: "py_ne", ast.Gt: "py_gt", ast.Lt: "py_lt", ast.GtE: "py_ge", ast.LtE: "py_le"}
            for k, f in table.items():
                if isinstance(op, k):
                    return "(%s %s %s)" % (f, self.e(l), self.e(r))
            raise Untranslatable("comparison operator %s" % type(op).__name__)
        if isinstance(node, ast.JoinedStr):
            parts = []
            for v in node.values:
                if isinstance(v, ast.Constant) and isinstance(v.value, str):
                    parts.append("PStr %s" % cstr(v.value))
                elif isinstance(v, ast.FormattedValue) and v.conversion == -1 and v.format_spec is None \
                        and isinstance(v.value, ast.Name):
                    parts.append("v_" + v.value.id)
                else:
                    raise Untranslatable("f-string part")
            return "(py_fconcat [%s])" % "; ".join(parts)
        if isinstance(node, ast.Call):
            return self.call(node)
        if isinstance(node, ast.Subscript) and isinstance(node.slice, ast.Constant) and isinstance(node.slice.value, str):
            return "(py_item %s %s)" % (self.e(node.value), self.e(node.slice))
        raise Untranslatable("expression %s" % type(node).__name__)

    def call(self, node):
        if node.keywords:
            raise Untranslatable("keyword arguments")
        d = _dotted(node.func)
        if d is not None and d in self.calls:
            f = self.calls[d]
            return f([self.e(a) for a in node.args]) if callable(f) else f
        if isinstance(node.func, ast.Attribute):
            m, recv, args = node.func.attr, self.e(node.func.value), [self.e(a) for a in node.args]
            if m == "strip" and not args:
                return "(py_strip %s)" % recv
            if m in ("startswith", "endswith") and len(args) == 1:
                return "(py_%s %s %s)" % (m, recv, args[0])
            if m == "get" and len(args) == 1:
                return "(py_get %s %s)" % (recv, args[0])
        raise Untranslatable("call of %s" % (d or ast.dump(node.func)[:60]))

    # ------------------------------------------------------------------ statements
    # mode "fun": the block's value is the function result; mode "loop": it is a ctl
    def ret(self, mode, e):
        return e if mode == "fun" else "(Ret %s)" % e

    def block(self, stmts, k, mode):
        """k: Coq term for 'the block fell through its end'."""
        if not stmts:
            return k
        s, rest = stmts[0], stmts[1:]
        if isinstance(s, ast.Expr):
            v = s.value
            if isinstance(v, ast.Constant) and isinstance(v.value, str):
                return self.block(rest, k, mode)          # docstring
            if isinstance(v, ast.Call) and _dotted(v.func) in self.ignore:
                return self.block(rest, k, mode)          # logging: no effect on the result
            raise Untranslatable("expression statement")
        if isinstance(s, ast.Pass):
            return self.block(rest, k, mode)
        if isinstance(s, ast.Return):
            return self.ret(mode, "PNone" if s.value is None else self.e(s.value))
        if isinstance(s, ast.Raise):
            exc = s.exc
            name = _dotted(exc.func) if isinstance(exc, ast.Call) else _dotted(exc)
            if name is None:
                raise Untranslatable("raise of a computed exception")
            return self.ret(mode, "(PExc %s)" % cstr(name.split(".")[-1]))
        if isinstance(s, ast.Break):
            if mode != "loop":
                raise Untranslatable("break outside a loop")
            return "Brk"
        if isinstance(s, ast.Assign):
            if len(s.targets) != 1:
                raise Untranslatable("multiple assignment targets")
            t = s.targets[0]
            if isinstance(t, ast.Name):
                return "(let v_%s := %s in\n %s)" % (t.id, self.e(s.value), self.block(rest, k, mode))
            if isinstance(t, ast.Tuple) and all(isinstance(x, ast.Name) for x in t.elts) and len(t.elts) == 3 \
                    and isinstance(s.value, ast.Call) and isinstance(s.value.func, ast.Attribute) \
                    and s.value.func.attr == "partition" and len(s.value.args) == 1:
                a, b, c = (x.id for x in t.elts)
                return "(let '(v_%s, v_%s, v_%s) := py_partition %s %s in\n %s)" % (
                    a, b, c, self.e(s.value.func.value), self.e(s.value.args[0]), self.block(rest, k, mode))
            raise Untranslatable("assignment target")
        if isinstance(s, ast.If):
            after = self.block(rest, k, mode)
            return "(if py_truthy %s\n then %s\n else %s)" % (
                self.e(s.test), self.block(s.body, after, mode), self.block(s.orelse, after, mode))
        if isinstance(s, ast.For):
            if not isinstance(s.target, ast.Name):
                raise Untranslatable("for target")
            after = self.block(rest, k, mode)
            body = self.block(s.body, "Next", "loop")
            els = self.block(s.orelse, after, mode)
            return ("(match pyfor (py_iter %s) (fun v_%s => %s) with\n | Ret r_ => %s\n | Brk => %s\n | Next => %s\n end)" % (
                self.e(s.iter), s.target.id, body, self.ret(mode, "r_"), after, els))
        raise Untranslatable("statement %s" % type(s).__name__)


def find_function(tree, qualname):
    parts = qualname.split(".")
    body = tree.body
    node = None
    for i, p in enumerate(parts):
        node = next((n for n in body if isinstance(n, (ast.FunctionDef, ast.ClassDef)) and n.name == p), None)
        if node is None:
            raise Untranslatable("%s not found" % qualname)
        body = node.body
    if not isinstance(node, ast.FunctionDef):
        raise Untranslatable("%s is not a function" % qualname)
    return node


def translate(path, qualname, spec):
    with open(path) as f:
        src = f.read()
    fn = find_function(ast.parse(src), qualname)
    a = fn.args
    if a.vararg or a.kwarg or a.kwonlyargs or a.posonlyargs:
        raise Untranslatable("parameter kinds")
    names = [x.arg for x in a.args]
    if names != spec["params"]:
        raise Untranslatable("parameters of %s are %s, expected %s" % (qualname, names, spec["params"]))
    tr = Tr(spec)
    body = tr.block(fn.body, "PNone", "fun")
    extra = "".join(" (%s : %s)" % (n, t) for n, t in spec.get("extra_params", []))
    params = "".join(" (v_%s : pyval)" % n for n in names)
    return "(* %s:%s, lines %d-%d *)\nDefinition %s%s%s : pyval :=\n%s.\n" % (
        path.split("/src/")[-1], qualname, fn.lineno, fn.end_lineno, spec["name"], extra, params,
        textwrap.indent(body, "  "))


HEADER = """(* GENERATED on every run by harness/py2coq.py from the current source text of /repo/src/saml2 — do not edit. *)
From Coq Require Import String Ascii List Bool ZArith.
From Verif Require Import Base.Str Base.Py.
Import ListNotations.
Open Scope string_scope.

"""


def write_module(path, items):
    """items: [(source path, qualname, spec)] -> Coq file content."""
    return HEADER + "\n".join(translate(p, q, s) for p, q, s in items)


def poison(qualname, spec, why):
    """A definition with the right signature and the wrong value: every theorem about it fails to check."""
    extra = "".join(" (%s : %s)" % (n, t) for n, t in spec.get("extra_params", []))
    params = "".join(" (v_%s : pyval)" % n for n in spec["params"])
    return "(* UNTRANSLATABLE %s: %s *)\nDefinition %s%s%s : pyval := PErr.\n" % (
        qualname, why.replace("*)", "* )"), spec["name"], extra, params)


def regenerate(gen_path, items):
    """Translate every item from the current source (fail-closed: an untranslatable function becomes a poisoned
    definition, so the equivalence theorem about it no longer checks) and rewrite gen_path when it changed.
    Returns the info dict a harness module hands back from regenerate_tables()."""
    from harness import common
    out, failed = [HEADER], []
    for p, q, s in items:
        try:
            out.append(translate(p, q, s))
        except (Untranslatable, OSError, SyntaxError) as e:
            failed.append("%s: %s" % (q, e))
            out.append(poison(q, s, str(e)))
    changed = common.write_if_changed(gen_path, "\n".join(out))
    return {"translated": [q for _, q, _ in items], "untranslatable": failed, "changed": changed,
            "obligations": len(items), "discharged": len(items) - len(failed)}
