"""C10 — attribute release never exceeds policy.

Runs the real saml2.assertion.filter_on_attributes / Policy.filter / Policy.restrict /
Assertion.apply_policy (with a real MetadataStore parsed from rendered SP metadata, with a stub
store, or without a store; with and without the fail_on_missing argument) and the real
Server.create_authn_response (best_effort unset / False / True; the outcome kind - assertion with its
AttributeStatement, or error response without assertion - is read back with xml.etree) and
Server.create_attribute_response (the attribute authority's policy; entry "aa", in Coq the Server entry without
best effort); Coq evaluates model = implementation and the property on the implementation's output.

A case is the LIFE of one long-lived object: the list of calls made on one Policy (or on one Server and its
policy), the metadata store refreshed in between (observe_life); most cases are lives of one call on a fresh
object.  Coq checks every call of a life (Corr.agrees / holds = forallb over the calls; Model.run_life,
Spec.spec_life, theorems c10_life_*).

Findings C10-F1 (best_effort hard-coded, MissingValue => unfiltered identity), C10-F2 (entity
categories skipped without a metadata store) and C10-F5 (Policy.get_entity_categories trusted the FriendlyName of a
required RequestedAttribute before its Name + NameFormat: with an ONLY_REQUIRED category the attribute the label
names was released) are FIXED in /repo (a4e3dbdd, 47cc754e, 4be62a1c): Corr.cls still
names the three input classes, and since findings/C10.json marks them fixed a case of either class whose
outcome breaks the property is a VIOLATION again.
"""
import copy
import importlib
import itertools
import os
import re
import xml.etree.ElementTree as ET
from xml.sax.saxutils import escape, quoteattr

from harness import common, env, world
from harness.common import Raw, cq, cq_opt

PID = "C10"
PARALLEL = 8
SHARD = 200
IMPORTS = "From Verif Require Import C10.Model C10.Spec C10.Corr.\nFrom VerifGen Require Import C10Abbrev."
CASE_TYPE = "C10.Corr.case"
RUNNER = "C10.Corr.run"
FINDING_CLASSES = {1: "C10-F1", 2: "C10-F2", 3: "C10-F5"}
RULE = ("complete products: Policy.get precedence (presence of requester / registration-authority / 'default' / '' "
        "sections x known RA), RequestedAttribute name matching (name source 4 x NameFormat 4 x FriendlyName 4 x "
        "identity key form 4 x listed values 3), value filtering (identity value shape 5 x listed values 6 x "
        "required/optional x fail flag), duplicated RequestedAttributes (4x4 value lists x 3 placements), every "
        "bundled entity-category module x every subset (<=2, all tuple keys) of its categories x required none/some, "
        "attribute_restrictions shapes 6 x value shapes 5 x key case 3, subject-id requirement 6 x identity 4 x fail 3 "
        "x store kind 2; Server.create_authn_response: best_effort 3 (unset/False/True) x which required attribute "
        "cannot be supplied 6 (none / absent / subject-id / listed value not held / absent+value / two absent) x "
        "fail_on_missing_requested 3 (unset/True/False) x attribute_restrictions 2; the fail_on_missing argument 3 "
        "(None/True/False) of Policy.filter / restrict / Assertion.apply_policy x value shapes; Policy WITHOUT "
        "metadata store x every entity-category module (and pairs) x entry point 3 x attribute_restrictions; "
        "widened by seeded random identities x policies x requester metadata on all four entry "
        "points and ~190 random cases through Server.create_authn_response.  LIVES (a case is the list of calls made on ONE "
        "long-lived object; the cases above are lives of one call): host 3 (one Policy on a real MetadataStore / on a stub "
        "store / the Policy and MetadataStore of one Server, calls through create_authn_response and on the Server's policy "
        "mixed) x every bundled entity-category module x (ONLY_REQUIRED keys first) x what entitles the requester changes "
        "between calls: isRequired set shrinks / grows / RequestedAttributes leave the document, the requester leaves / joins "
        "/ changes its categories, its registration authority changes (another section applies), the `required` argument of "
        "Policy.filter changes, a second requester or a second user in between, a SECOND Policy object with another "
        "configuration on the same store taking turns; without categories: declaration shrinks / grows / lists values / "
        "becomes unsuppliable, subject-id requirement changes, fail_on_missing / best_effort changes, section precedence "
        "changes; the store is refreshed by MetadataStore.reload / by replacing the sources / by re-parsing in place; "
        "~220 random lives (2-5 calls, random policy, description mutated by 1-2 edits per refresh).  Every call of a life "
        "is compared with the model and judged against the requester as described AT THAT CALL.  "
        "SUBJECT-ID REQUIREMENT x OWN LISTING (round 5): the requester's subject-id:req entity attribute 5 (subject-id / "
        "pairwise-id / any / none / no attribute) x how its AttributeConsumingService lists that identifier 15 (not at all; "
        "optional with isRequired omitted / 'false' / '1'; required as the very dict the store answers / as another dict; "
        "with a value the user holds / does not hold; NameFormat omitted; FriendlyName in capitals; only the OTHER "
        "identifier; optional AND required; one required + one optional) x identifiers the user holds 4, entry point 4 "
        "(Policy.restrict / Assertion.apply_policy / Server.create_authn_response / Server.create_attribute_response) and "
        "position of the identifier in the document taking turns; every SOURCE of the choice about failing 13 (no policy, "
        "default / requester / registration-authority section set, unset or shadowing, the fail_on_missing argument, "
        "best_effort) x entry point 4 x listing 4 with a user who lacks the identifier + 1 control who holds it; spelling "
        "of the entity attribute (first value 4 x further values 3 x same Attribute / second Attribute / second "
        "EntityAttributes element x before / after the entity-category attribute); 150 random cases and 27 lives (listing "
        "changes while the requirement stays, requirement changes while the listing stays, a federation of 8 requesters "
        "on one object) forced into that neighbourhood; the attribute authority (create_attribute_response): the Server "
        "product without best_effort.  "
        "THE FRIENDLYNAME IS A LABEL (round 6): how the Name of a RequestedAttribute resolves 5 (uri / basic / Name in capitals "
        "/ NameFormat omitted / unknown Name) x what its FriendlyName says 9 (agrees / other case / absent / the name of "
        "ANOTHER attribute the user holds, exact and in another case / of one the user lacks / of nothing / the wire Name of "
        "another attribute / its own Name) x the user holds the declared attribute or not x required / optional, on a "
        "Policy-level entry and a Server-level entry each; a required declared attribute that is not held while the labelled "
        "one is x every source of the choice about failing 13 x entry point 4; listed values held under the declared / only "
        "under the labelled name / nowhere; the labelled attribute declared as well; every ONLY_REQUIRED entity-category key "
        "of the bundled modules x label 9 x labelled attribute in the category's list or not x declared attribute held or "
        "not; 24 lives (the label changes between calls, the Name stays; with and without an ONLY_REQUIRED category); 150 "
        "random cases relabelled with names of identity attributes.  "
        "non-trivial = distinct (entry point, "
        "best_effort / fail_on_missing argument, applicable section kind, restriction kind, entity-category mode, "
        "declaration shape, outcome) classes other than 'nothing configured, everything released'")
TRUSTED = ["source-to-Gallina translator harness/py2coq.py + coq/theories/Base/Py.v (Policy.get is re-translated from the source text "
           "on every run; c10_source_policy_get proves it equal to the model's section precedence)",
           "source-to-Gallina translator v2 harness/py2coq2.py + coq/theories/Base/Py2.v: re-translated from the source text on "
           "every run into coq/gen/C10Src2.v and proved equal to the model in coq/theories/C10/Source2.v (c10_source2_*): "
           "saml2.assertion._filter_values, _match, filter_on_attributes._match_attr_name (nested), "
           "filter_attribute_value_assertions, Policy.filter, Policy.restrict, Policy.get_fail_on_missing_requested; external "
           "calls are hypotheses of the theorems (get_local_name, restr.match, ac_factory, Policy.get_entity_categories, "
           "filter_on_attributes as called from Policy.filter, MetadataStore.attribute_requirement / subject_id_requirement); "
           "not modelled by the translator: aliasing, set order (list(set(..)) = first occurrences), __len__/__bool__/__eq__ of "
           "objects (a MetadataStore is truthy when it has fields), non-ASCII lower()",
           "Python re (regex matching enters as data: bool(re.compile(r).match(v)))",
           "attribute maps (get_local_name result enters as data; C17 covers the maps)",
           "abstraction functions and SP-metadata / policy-config renderers in harness/c10.py",
           "xml.etree as independent reader of the AttributeStatement",
           "xmlsec1 stand-in (only loaded, nothing is signed in these cases)"]
ASSUMPTIONS = ["attribute names, FriendlyNames and entity ids are ASCII (the model's lower() is the ASCII part of str.lower())",
               "identity values are str or list of str; AttributeValue elements of RequestedAttributes have non-empty text",
               "with entity categories in force the identity has no attribute named '' (the code uses '' as a marker key)",
               "policy configuration keys are distinct after lower-casing; regexes are valid",
               "entity categories decide instead of (not in addition to) the requester's declaration when configured: "
               "pysaml2's documented design (see notes/C10.md)",
               "'failing on missing attributes is in effect' = the caller's explicit choice when there is one (fail_on_missing "
               "argument; best_effort=True at Server.create_authn_response means 'do not fail'), else the applicable section's "
               "fail_on_missing_requested (default True)",
               "a requester about which nothing is known (Policy without metadata store) is in no entity category",
               "Server.create_authn_response is exercised on its non-PEFIM branch, unsigned, unencrypted",
               "Server.create_attribute_response (attribute authority) is given a non-empty identity and no `attributes` "
               "argument; its outcome is judged as the Server entry without best effort (a MissingValue exception = the "
               "error; an AttributeStatement read back from the Response = the release)",
               "what a RequestedAttribute DECLARES is the attribute identified by Name + NameFormat (the local name the "
               "attribute maps derive from the lower-cased Name; enters as data, independent lookup in harness.c10.loc); its "
               "FriendlyName is a label (SAML core 2.7.3.1) that stands in only when the maps do not know the Name; the Name "
               "itself also designates an identity attribute (identities keyed by wire names)",
               "subject-id:req: what the requester requires is what the FIRST value of the merged entity attribute says "
               "(MetadataStore.subject_id_requirement); 'any' asks for pairwise-id AND subject-id (the code's reading)",
               "a life: the policy configuration of an object is fixed at construction; what the metadata store says about a "
               "requester at the time of a call is the requester's description for that call (a refresh between calls is "
               "complete before the next call starts); a requester missing from the store is not exercised with entity "
               "categories in force (the code raises KeyError: nothing is released)"]

URI = "urn:oasis:names:tc:SAML:2.0:attrname-format:uri"
BASIC = "urn:oasis:names:tc:SAML:2.0:attrname-format:basic"
UNSPEC = "urn:oasis:names:tc:SAML:2.0:attrname-format:unspecified"
SP = world.SP_ID
OTHER_SP = "https://other.example.org/sp.xml"
RA1 = "http://ra.example.org/"
RA2 = "http://ra2.example.org/"
RA_CLASS = "urn:oasis:names:tc:SAML:2.0:metadata&RequestedAttribute"
SID_ATTR = "urn:oasis:names:tc:SAML:profiles:subject-id:req"

EC_MODULES = ["refeds", "edugain", "swamid", "incommon", "at_egov_pvp2", "harness.c10_ecmod"]

LOCALS = ["mail", "givenName", "sn", "displayName", "eduPersonPrincipalName", "eduPersonScopedAffiliation",
          "eduPersonAffiliation", "title", "cn", "o", "schacHomeOrganization", "pairwise-id", "subject-id",
          "norEduPersonNIN", "eduPersonAssurance", "uid", "Foo", "x-secret", "eduPersonTargetedID", "PVP-MAIL"]
VALS = ["a@example.org", "b@example.org", "staff", "member", "student@umu.se", "x", "The man", "man", ""]
REGEXES = [".*@example\\.org$", "^staff$", ".*", "a", "^$", "(?i)MEMBER", ".*\\.se$", "man", "[ab]@"]

_ACS = None


def acs():
    global _ACS
    if _ACS is None:
        from saml2.attribute_converter import ac_factory

        _ACS = ac_factory()
    return _ACS


def loc(attr, nf):
    """What the attribute maps answer (enters the model as data)."""
    for ac in acs():
        if ac.name_format == nf:
            return ac._fro.get(attr)
    return None


def wire(local, nf):
    for ac in acs():
        if ac.name_format == nf and ac._to and local.lower() in ac._to:
            return ac._to[local.lower()]
    return None


# ------------------------------------------------------------------------------ entity-category tables
def _ec_module(name):
    try:
        return importlib.import_module(name)
    except ImportError:
        return importlib.import_module("saml2.entity_category.%s" % name)


def ec_tables():
    """[(module name, [(key, attrs, only_required, no_aggregation)])] from the LIVE modules; fail closed."""
    out = []
    for name in EC_MODULES:
        mod = _ec_module(name)
        rel = mod.RELEASE
        if not isinstance(rel, dict):
            raise ValueError("RELEASE of %s is not a dict" % name)
        onlyreq = getattr(mod, "ONLY_REQUIRED", {})
        noagg = getattr(mod, "NO_AGGREGATION", {})
        ents = []
        for key, items in rel.items():
            if isinstance(key, str):
                pass
            elif isinstance(key, tuple) and all(isinstance(k, str) for k in key):
                pass
            else:
                raise ValueError("RELEASE key of unknown shape in %s: %r" % (name, key))
            if not isinstance(items, list) or not all(isinstance(i, str) for i in items):
                raise ValueError("RELEASE value of unknown shape in %s: %r" % (name, items))
            o, n = onlyreq.get(key, False), noagg.get(key, False)
            if not isinstance(o, bool) or not isinstance(n, bool):
                raise ValueError("ONLY_REQUIRED / NO_AGGREGATION value of unknown shape in %s" % name)
            ents.append((key, items, o, n))
        out.append((name, ents))
    return out


def _cq_key(key):
    if isinstance(key, str):
        return "KS %s" % cq(key)
    return "KT %s" % cq(list(key))


def regenerate_tables(ctx):
    tabs = ec_tables()
    lines = ["(* GENERATED by harness/c10.py (regenerate_tables) from the live entity-category modules. Do not edit. *)",
             "From Coq Require Import String List Bool.", "From Verif Require Import C10.Model.",
             "Import ListNotations.", "Open Scope string_scope.", "",
             "Definition ectab : list (string * ecmap) := ["]
    mods = []
    n = 0
    for name, ents in tabs:
        es = []
        for key, items, o, g in ents:
            es.append("    {| ec_key := %s; ec_attrs := %s; ec_only_required := %s; ec_no_agg := %s |}" % (
                _cq_key(key), cq(list(items)), cq(o), cq(g)))
            n += 1
        mods.append("  (%s, [\n%s])" % (cq(name), ";\n".join(es)))
    lines.append(";\n".join(mods))
    lines.append("].")
    txt = "\n".join(lines) + "\n"
    _write_if_changed(os.path.join(common.COQDIR, "gen", "C10Tables.v"), txt)
    ab = ["(* GENERATED by harness/c10.py: names for frequently used strings (keeps the case files small). *)",
          "From Coq Require Import String.", "Open Scope string_scope.", ""]
    for x, ident in abbr().items():
        ab.append("Definition %s := %s." % (ident, common.cq_str(x)))
    _write_if_changed(os.path.join(common.COQDIR, "gen", "C10Abbrev.v"), "\n".join(ab) + "\n")
    # translator: Policy.get as it reads NOW -> coq/gen/C10Src.v (C10/Source.v proves it equal to the model's precedence)
    from harness import py2coq
    src = py2coq.regenerate(os.path.join(common.COQDIR, "gen", "C10Src.v"), [
        (os.path.join(env.SRC, "saml2", "assertion.py"), "Policy.get",
         {"name": "src_policy_get", "params": ["self", "attribute", "sp_entity_id", "default"],
          "extra_params": [("registration_info", "pyval -> pyval")],
          "calls": {"self.metadata_store.registration_info": lambda a: "(registration_info %s)" % a[0]}})])
    # translator v2: the release filters as they read NOW -> coq/gen/C10Src2.v (C10/Source2.v proves them equal to the model)
    from harness import py2coq2
    src2 = py2coq2.regenerate(os.path.join(common.GEN, "C10Src2.v"), source2_items())
    return {"obligations": len(tabs) + src["obligations"] + src2["obligations"],
            "discharged": len(tabs) + src["discharged"] + src2["discharged"],
            "modules": [t[0] for t in tabs], "entries": n, "file": "coq/gen/C10Tables.v", "source": src, "source2": src2,
            "untranslatable": list(src["untranslatable"]) + list(src2["untranslatable"]),
            "changed": bool(src.get("changed")) or bool(src2.get("changed"))}


def source2_items():
    """What translator v2 (harness/py2coq2.py) re-translates from the source text on every run.  External calls
    (attribute maps, regex engine, metadata store, the sibling methods of Policy) are extra parameters of the
    Gallina definitions; C10/Source2.v quantifies over them (Section variables + hypotheses)."""
    A = os.path.join(env.SRC, "saml2", "assertion.py")
    quiet = ["logger.debug", "logger.info", "logger.warning", "logger.error", "_warn"]
    return [
        (A, "_filter_values", {"name": "src2_filter_values", "params": ["vals", "vlist", "must"]}),
        (A, "_match", {"name": "src2_match", "params": ["attr", "ava"]}),
        # nested in filter_on_attributes; `acs` is a free variable that is only handed on to get_local_name
        (A, "filter_on_attributes._match_attr_name", {
            "name": "src2_match_attr_name", "params": ["attr", "ava"],
            "extra_params": [("get_local_name", "pyval -> pyval -> pyval"), ("match_", "pyval -> pyval -> pyval")],
            "globals": {"acs": "PNone"},
            "calls": {"get_local_name": lambda a: "(get_local_name %s %s)" % (a[1], a[2]),
                      "_match": lambda a: "(match_ %s %s)" % (a[0], a[1])}}),
        (A, "filter_attribute_value_assertions", {
            "name": "src2_fava", "params": ["ava", "attribute_restrictions"],
            "extra_params": [("re_match", "pyval -> pyval -> pyval")],
            "calls": {"restr.match": lambda a: "(re_match v_restr %s)" % a[0]}}),
        (A, "Policy.filter", {
            "name": "src2_policy_filter",
            "params": ["self", "ava", "sp_entity_id", "mdstore", "required", "optional", "fail_on_missing"],
            "extra_params": [("ac_factory", "pyval"),
                             ("get_entity_categories", "pyval -> pyval -> pyval -> pyval -> pyval"),
                             ("fava", "pyval -> pyval -> pyval"),
                             ("foa", "pyval -> pyval -> pyval -> pyval -> pyval -> pyval"),
                             ("get_fail", "pyval -> pyval -> pyval"), ("get_ar", "pyval -> pyval -> pyval")],
            "ignore_calls": quiet,
            "calls": {"ac_factory": lambda a: "ac_factory",
                      "self.get_entity_categories":
                          lambda a, kw: "(get_entity_categories v_self %s %s %s)" % (a[0], kw["mds"], kw["required"]),
                      "filter_attribute_value_assertions": lambda a: "(fava %s %s)" % (a[0], a[1]),
                      "filter_on_attributes": lambda a: "(foa %s %s %s %s %s)" % tuple(a),
                      "self.get_fail_on_missing_requested": lambda a: "(get_fail v_self %s)" % a[0],
                      "self.get_attribute_restrictions": lambda a: "(get_ar v_self %s)" % a[0]}}),
        (A, "Policy.restrict", {
            "name": "src2_policy_restrict", "params": ["self", "ava", "sp_entity_id", "metadata", "fail_on_missing"],
            "extra_params": [("attribute_requirement", "pyval -> pyval -> pyval"),
                             ("subject_id_requirement", "pyval -> pyval -> pyval"),
                             ("policy_filter", "pyval -> pyval -> pyval -> pyval -> pyval -> pyval -> pyval")],
            "ignore_calls": quiet,
            "calls": {"metadata_store.attribute_requirement":
                          lambda a: "(attribute_requirement v_metadata_store %s)" % a[0],
                      "metadata_store.subject_id_requirement":
                          lambda a: "(subject_id_requirement v_metadata_store %s)" % a[0],
                      "self.filter": lambda a, kw: "(policy_filter v_self %s %s %s %s %s)" % (
                          a[0], a[1], kw["required"], kw["optional"], kw["fail_on_missing"])}}),
        (A, "Policy.get_fail_on_missing_requested", {
            "name": "src2_get_fail", "params": ["self", "sp_entity_id"],
            "extra_params": [("policy_get", "pyval -> pyval -> pyval -> pyval -> pyval")],
            # Policy.get(attribute, sp_entity_id, default): same argument order as src_policy_get of C10Src.v
            "calls": {"self.get": lambda a, kw: "(policy_get v_self %s %s %s)" % (
                a[0], a[1], kw["default"] if "default" in kw else a[2] if len(a) > 2 else "PNone")}}),
    ]


def _write_if_changed(path, txt):
    os.makedirs(os.path.dirname(path), exist_ok=True)
    old = None
    if os.path.exists(path):
        with open(path) as f:
            old = f.read()
    if old != txt:
        with open(path, "w") as f:
            f.write(txt)


def module_categories(name):
    cats = []
    for key in _ec_module(name).RELEASE:
        for k in ([key] if isinstance(key, str) else list(key)):
            if k and k not in cats:
                cats.append(k)
    for key in getattr(_ec_module(name), "NO_AGGREGATION", {}):
        for k in ([key] if isinstance(key, str) else list(key)):
            if k and k not in cats:
                cats.append(k)
    return cats


# ------------------------------------------------------------------------------ abstract pieces
def mk_ra(name, nf, friendly, values=(), isreq="true", nf_render="same"):
    """nf: the name format the code will see (None: key absent, stub only).  nf_render: 'same' or None
    (attribute omitted in rendered metadata; the element class then defaults it to unspecified)."""
    return {"name": name, "nf": nf, "friendly": friendly, "values": list(values), "isreq": isreq,
            "nf_render": nf if nf_render == "same" else None}


def ra_for(local, kind="uri", friendly="right", values=(), isreq="true"):
    if kind == "uri":
        name, nf = wire(local, URI) or ("urn:oid:9.9.9." + str(len(local))), URI
    elif kind == "basic":
        name, nf = wire(local, BASIC) or ("urn:mace:dir:attribute-def:" + local), BASIC
    elif kind == "local":
        name, nf = local, UNSPEC
    else:
        name, nf = "urn:x-unknown:" + local, URI
    fr = {"right": local, "case": local.swapcase(), "wrong": "street", None: None}[friendly]
    return mk_ra(name, nf, fr, values, isreq)


def mk_sec(ar=None, fail=None, ecs=()):
    return {"ar": ar, "fail": fail, "ecs": list(ecs)}


def render_policy(pol, rng):
    """Abstract compiled policy -> a configuration dict that compiles to it (key case, None vs [] vs {})."""
    if pol is None:
        return None
    cfg = {}
    for who, sec in pol:
        if sec is None:
            cfg[who] = None
            continue
        d = {}
        if sec.get("bare"):
            cfg[who] = {}          # a section that exists but configures nothing: it still shadows less specific ones
            continue
        if rng.random() < 0.5:
            d["lifetime"] = {"minutes": 15}
        if rng.random() < 0.3:
            d["name_form"] = URI
        if sec["ar"] is None:
            k = rng.randrange(3)
            if k == 0:
                d["attribute_restrictions"] = None
            elif k == 1:
                d["attribute_restrictions"] = {}
        else:
            ard = {}
            for name, rs in sec["ar"]:
                kk = rng.choice([name, name.upper(), name.capitalize(), name])
                if kk.lower() != name:
                    kk = name
                ard[kk] = (rng.choice([None, []]) if rs is None else list(rs))
            d["attribute_restrictions"] = ard
        if sec["fail"] is not None:
            d["fail_on_missing_requested"] = sec["fail"]
        if sec["ecs"]:
            d["entity_categories"] = list(sec["ecs"])
        elif rng.random() < 0.3:
            d["entity_categories"] = []
        cfg[who] = d
        sec["bare"] = not d    # nothing configured: the compiled section is an empty (falsy) dict
    return cfg


def mk_md(mode="real", ras=(), sid=None, ecs=(), ra=None, split=0, sid_more=(), sid_shape=None, sid_first=False,
          sid_nonf=False):
    """sid: FIRST value of the subject-id:req entity attribute (None: no such attribute); sid_more / sid_shape /
    sid_first / sid_nonf: how the rendered metadata spell the attribute (see sp_md_xml) - recorded only when used."""
    md = {"mode": mode, "ras": list(ras), "sid": sid, "ecs": list(ecs), "ra": ra, "split": split}
    if sid is not None and mode == "real":
        if sid_more:
            md["sid_more"] = list(sid_more)
            md["sid_shape"] = sid_shape or "one"
        if sid_first:
            md["sid_first"] = True
        if sid_nonf:
            md["sid_nonf"] = True
    return md


def mk_case(tag, entry, ident, pol=None, md=None, req=(), opt=(), fail=True, rng=None, be=None, fo=None):
    """be: best_effort given to create_authn_response (None: not given = False).
    fo: fail_on_missing given to Policy.filter / restrict / Assertion.apply_policy (None: not given)."""
    return {"tag": tag, "entry": entry, "ident": [[k, v] for k, v in ident], "pol": pol,
            "polcfg": render_policy(pol, rng), "sp": SP, "md": md, "req": list(req), "opt": list(opt),
            "fail": fail, "be": be, "fo": fo}


# ------------------------------------------------------------------------------ rendering for the real code
def ra_dict(r):
    d = {"__class__": RA_CLASS, "name": r["name"], "is_required": r["isreq"] if r["isreq"] is not None else "false"}
    if r["isreq"] is None:
        del d["is_required"]
    if r["nf"] is not None:
        d["name_format"] = r["nf"]
    if r["friendly"] is not None:
        d["friendly_name"] = r["friendly"]
    if r["values"]:
        d["attribute_value"] = [{"__class__": "urn:oasis:names:tc:SAML:2.0:assertion&AttributeValue", "text": v}
                                for v in r["values"]]
    return d


def sid_dicts(sid):
    def one(n):
        return {"__class__": RA_CLASS, "name": "urn:oasis:names:tc:SAML:attribute:" + n, "name_format": URI,
                "friendly_name": n, "is_required": "true"}

    if sid == "any":
        return [one("pairwise-id"), one("subject-id")]
    if sid in ("pairwise-id", "subject-id"):
        return [one(sid)]
    return []


class StubStore:
    """What Policy asks a metadata store: attribute_requirement, subject_id_requirement,
    entity_categories, registration_info."""

    def __init__(self, md):
        self.md = md

    def attribute_requirement(self, entity_id, index=None):
        res = {"required": [], "optional": []}
        for r in self.md["ras"]:
            (res["required"] if r["isreq"] == "true" else res["optional"]).append(ra_dict(r))
        return res

    def subject_id_requirement(self, entity_id):
        return sid_dicts(self.md["sid"])

    def entity_categories(self, entity_id):
        return list(self.md["ecs"])

    def registration_info(self, entity_id):
        return {"registration_authority": self.md["ra"], "registration_instant": None, "registration_policy": {}}


def ra_xml(r):
    a = " Name=%s" % quoteattr(r["name"])
    if r["nf_render"] is not None:
        a += " NameFormat=%s" % quoteattr(r["nf_render"])
    if r["friendly"] is not None:
        a += " FriendlyName=%s" % quoteattr(r["friendly"])
    if r["isreq"] is not None:
        a += " isRequired=%s" % quoteattr(r["isreq"])
    vals = "".join('<saml:AttributeValue xmlns:saml="urn:oasis:names:tc:SAML:2.0:assertion">%s</saml:AttributeValue>'
                   % escape(v) for v in r["values"])
    return "<md:RequestedAttribute%s>%s</md:RequestedAttribute>" % (a, vals)


def sp_md_xml(md, sp=SP):
    ext = ""
    if md["ra"] is not None:
        ext += ('<mdrpi:RegistrationInfo xmlns:mdrpi="urn:oasis:names:tc:SAML:metadata:rpi" registrationAuthority=%s/>'
                % quoteattr(md["ra"]))
    ea = ea2 = ""
    if md["ecs"]:
        ea += '<saml:Attribute Name="http://macedir.org/entity-category" NameFormat="%s">%s</saml:Attribute>' % (
            URI, "".join("<saml:AttributeValue>%s</saml:AttributeValue>" % escape(c) for c in md["ecs"]))
    if md["sid"] is not None:
        # the subject-id:req entity attribute: md["sid"] is its FIRST value (the one the code reads); further values
        # (md["sid_more"]) follow it in the same Attribute element / in a second Attribute element of that name / in a
        # second mdattr:EntityAttributes element; the attribute stands after or before the entity-category attribute
        more = list(md.get("sid_more") or [])
        shape = md.get("sid_shape") or "one"
        nf = "" if md.get("sid_nonf") else ' NameFormat="%s"' % URI

        def sid_attr_x(vals):
            return '<saml:Attribute Name="%s"%s>%s</saml:Attribute>' % (
                SID_ATTR, nf, "".join("<saml:AttributeValue>%s</saml:AttributeValue>" % escape(v) for v in vals))

        if not more or shape == "one":
            sx = sid_attr_x([md["sid"]] + more)
        elif shape == "two-attrs":
            sx = sid_attr_x([md["sid"]]) + sid_attr_x(more)
        else:
            sx = sid_attr_x([md["sid"]])
            ea2 = sid_attr_x(more)
        ea = sx + ea if md.get("sid_first") else ea + sx
    eas = ""
    for e_ in (ea, ea2):
        if e_:
            eas += ('<mdattr:EntityAttributes xmlns:mdattr="urn:oasis:names:tc:SAML:metadata:attribute" '
                    'xmlns:saml="urn:oasis:names:tc:SAML:2.0:assertion">%s</mdattr:EntityAttributes>' % e_)
    ext += eas
    if ext:
        ext = "<md:Extensions>%s</md:Extensions>" % ext
    ras = md["ras"]
    acs_x = ""
    if ras:
        k = md.get("split") or 0
        groups = [ras] if not (0 < k < len(ras)) else [ras[:k], ras[k:]]
        for i, g in enumerate(groups):
            acs_x += ('<md:AttributeConsumingService index="%d"><md:ServiceName xml:lang="en">s</md:ServiceName>%s'
                      "</md:AttributeConsumingService>" % (i + 1, "".join(ra_xml(r) for r in g)))
    x = world.sp_descriptor(sp, [("sp", None)], acs_extra=acs_x)
    return x.replace("<md:SPSSODescriptor", ext + "<md:SPSSODescriptor", 1)


def make_store(md):
    if md is None:
        return None
    if md["mode"] == "stub":
        return StubStore(md)
    from saml2.mdstore import MetadataStore

    mds = MetadataStore(acs(), None)
    mds.imp({"inline": [sp_md_xml(md)]})
    return mds


def abs_ava(d):
    return [[k, (v if isinstance(v, str) else list(v))] for k, v in d.items()]


NS_A = "{urn:oasis:names:tc:SAML:2.0:assertion}"
NS_P = "{urn:oasis:names:tc:SAML:2.0:protocol}"
_AUTHN = {"class_ref": "urn:oasis:names:tc:SAML:2.0:ac:classes:Password", "authn_auth": "https://idp.example.org/"}


def _call(entry, step, ident, pol=None, idp=None):
    """One call on the real code.  step: dict with sp / req / opt / fail / be / fo.  Returns (out, Assertion dict
    after apply_policy or None)."""
    import saml2.assertion as A
    from saml2.s_utils import MissingValue

    out, self_after = None, None
    sp = step["sp"]
    try:
        if entry == "foa":
            r = A.filter_on_attributes(ident, [ra_dict(x) for x in step["req"]] or None,
                                       [ra_dict(x) for x in step["opt"]] or None, acs(), step["fail"])
            out = {"k": "ok", "ava": abs_ava(r)}
        elif entry in ("server", "aa"):
            from saml2.saml import NAMEID_FORMAT_TRANSIENT, NameID

            nid = NameID(format=NAMEID_FORMAT_TRANSIENT, text="subject-1")
            kw = {}
            if step.get("be") is not None:
                kw["best_effort"] = step["be"]
            if entry == "aa":
                # the attribute authority's answer to an AttributeQuery: the "aa" service's policy, no best effort;
                # a MissingValue leaves create_attribute_response as an exception (no response, nothing released)
                resp = idp.create_attribute_response(ident, "req-1", world.SP_ACS_POST, sp, name_id=nid)
            else:
                resp = idp.create_authn_response(ident, "req-1", world.SP_ACS_POST, sp, name_id=nid,
                                                 authn=dict(_AUTHN), **kw)
            root = ET.fromstring(str(resp))
            if root.tag != NS_P + "Response":
                raise RuntimeError("not a Response")
            code = root.find(NS_P + "Status/" + NS_P + "StatusCode").get("Value")
            success = code.endswith(":Success")
            n_assertions = len(list(root.iter(NS_A + "Assertion"))) + len(list(root.iter(NS_A + "EncryptedAssertion")))
            if not success and n_assertions == 0:
                # the outcome kind "an error is returned instead of an assertion"
                out = {"k": "missing", "via": "error-response"}
            elif not success or n_assertions != 1:
                raise RuntimeError("neither an assertion nor an error response")
            else:
                rel = {}
                for a in root.iter(NS_A + "Attribute"):
                    key = a.get("FriendlyName") or a.get("Name")
                    if key in rel:
                        raise RuntimeError("attribute emitted twice")
                    rel[key] = [(v.text or "") for v in a.findall(NS_A + "AttributeValue")]
                out = {"k": "ok", "ava": abs_ava(rel)}
        else:
            fkw = {} if step.get("fo") is None else {"fail_on_missing": step["fo"]}
            if entry == "filter":
                r = pol.filter(ident, sp, required=[ra_dict(x) for x in step["req"]] or None,
                               optional=[ra_dict(x) for x in step["opt"]] or None, **fkw)
                out = {"k": "ok", "ava": abs_ava(r)}
            elif entry == "restrict":
                r = pol.restrict(ident, sp, **fkw)
                out = {"k": "ok", "ava": abs_ava(r)}
            else:
                ast = A.Assertion(ident)
                try:
                    r = ast.apply_policy(sp, pol, **fkw)
                    out = {"k": "ok", "ava": abs_ava(r)}
                finally:
                    self_after = abs_ava(dict(ast))
    except MissingValue:
        if entry == "server":      # create_authn_response is written to answer a MissingValue with an error response
            out = {"k": "crash", "exc": "MissingValue"}
        else:
            out = {"k": "missing", "via": "exception"}
    except Exception as e:  # any other exception: nothing is released
        out = {"k": "crash", "exc": type(e).__name__}
    return out, self_after


def make_aa(md_xmls, polcfg):
    """One Server whose configuration has an attribute-authority service carrying the policy under test (local helper:
    world.make_idp configures the "idp" service only; that one keeps the world's default policy here)."""
    env.install_standin()
    from saml2 import BINDING_SOAP
    from saml2.config import IdPConfig
    from saml2.server import Server

    cfg = world.idp_config(metadata_xml=md_xmls)
    cfg["service"]["aa"] = {"endpoints": {"attribute_service": [("https://idp.example.org/aa/soap", BINDING_SOAP)]},
                            "policy": copy.deepcopy(polcfg)}
    c = IdPConfig()
    c.load(cfg)
    srv = Server(config=c)
    if srv.config.getattr("policy", "aa").metadata_store is not srv.metadata:
        raise RuntimeError("the attribute authority's policy does not consult the Server's metadata store")
    return srv


def _regex_matrix(pol, ident_items):
    """regex matrix, exactly as the code asks the engine"""
    regs = set()
    for _, sec in (pol or []):
        for _, rs in ((sec or {}).get("ar") or []):
            regs.update(rs or [])
    vals = set()
    for _, v in ident_items:
        vals.update([v] if isinstance(v, str) else v)
    return sorted([r, v] for r in regs for v in vals if re.compile(r).match(v))


def _identity(items):
    return {k: (v if isinstance(v, str) else list(v)) for k, v in items}


def observe(case):
    env.check_repo_import()
    import saml2.assertion as A

    if case["entry"] == "life":
        return observe_life(case)
    ident = _identity(case["ident"])
    entry = case["entry"]
    pol = idp = None
    try:
        if entry == "server":
            env.install_standin()
            idp = world.make_idp(metadata_xml=[sp_md_xml(case["md"])], idp_policy=copy.deepcopy(case["polcfg"]))
        elif entry == "aa":
            idp = make_aa([sp_md_xml(case["md"])], case["polcfg"])
        elif entry != "foa":
            pol = A.Policy(copy.deepcopy(case["polcfg"]), make_store(case["md"]))
    except Exception as e:
        return {"out": {"k": "crash", "exc": type(e).__name__}, "caller": abs_ava(ident), "self": None,
                "mt": _regex_matrix(case["pol"], case["ident"])}
    out, self_after = _call(entry, case, ident, pol, idp)
    return {"out": out, "caller": abs_ava(ident), "self": self_after, "mt": _regex_matrix(case["pol"], case["ident"])}


# ---- the life of ONE Policy object / ONE Server: several calls, the metadata store refreshed in between
class LifeStub(StubStore):
    """Stub store that describes several requesters; `world` maps entity id -> abstract md."""

    def __init__(self, world_):
        self.world = world_

    def _md(self, entity_id):
        return self.world.get(entity_id) or mk_md("stub")

    def attribute_requirement(self, entity_id, index=None):
        self.md = self._md(entity_id)
        return StubStore.attribute_requirement(self, entity_id, index)

    def subject_id_requirement(self, entity_id):
        return sid_dicts(self._md(entity_id)["sid"])

    def entity_categories(self, entity_id):
        return list(self._md(entity_id)["ecs"])

    def registration_info(self, entity_id):
        return {"registration_authority": self._md(entity_id)["ra"], "registration_instant": None,
                "registration_policy": {}}


def _world_xmls(world_):
    return [sp_md_xml(md, sp) for sp, md in sorted(world_.items())]


def _refresh_real(mds, world_, how):
    """What a metadata refresh does to a MetadataStore: the same store object describes the requesters anew.
    reload  : MetadataStore.reload(spec) - the sources are loaded again into a new dict
    swap    : every source object is replaced inside the dict the store already holds
    inplace : the source objects stay, each parses the new document (what a periodic re-load of a source does)"""
    from saml2.mdstore import InMemoryMetaData

    xmls = _world_xmls(world_)
    if how == "reload":
        mds.reload({"inline": xmls})
        return
    if how == "inplace" and len(mds.metadata) == len(xmls):
        for m, x in zip(list(mds.metadata.values()), xmls):
            m.entity = {}
            m.entities_descr = None
            m.entity_descr = None
            m.parse(x)
        return
    new = {}
    for x in xmls:
        m = InMemoryMetaData(acs(), x)
        m.load()
        new[x] = m
    mds.metadata.clear()
    mds.metadata.update(new)


def life_world0(steps):
    w = {}
    for st in steps:
        if st["md"] is not None and st["sp"] not in w:
            w[st["sp"]] = st["md"]
    return w


def observe_life(case):
    """host 'policy': one saml2.assertion.Policy(polcfg, store) for the whole life; host 'server': one Server (its
    configuration's Policy object, its MetadataStore).  Before a call whose requester is described differently
    from what the store holds, the store is refreshed (step['refresh'])."""
    import saml2.assertion as A

    steps = case["steps"]
    world_ = {sp: copy.deepcopy(md) for sp, md in life_world0(steps).items()}
    store_kind = case["store"]
    pol = idp = mds = None
    if case["host"] == "server":
        env.install_standin()
        idp = world.make_idp(metadata_xml=_world_xmls(world_), idp_policy=copy.deepcopy(case["polcfg"]))
        pol = idp.config.getattr("policy", "idp")
        mds = idp.metadata
        if pol.metadata_store is not mds:
            raise RuntimeError("the Server's policy does not consult the Server's metadata store")
    else:
        if store_kind == "real":
            from saml2.mdstore import MetadataStore

            mds = MetadataStore(acs(), None)
            mds.imp({"inline": _world_xmls(world_)})
        elif store_kind == "stub":
            mds = LifeStub(world_)
        pol = A.Policy(copy.deepcopy(case["polcfg"]), mds)
    pols = [pol, A.Policy(copy.deepcopy(case["sib_polcfg"]), mds) if case.get("sib") else None]
    obs = []
    for st in steps:
        if st["md"] is not None and world_.get(st["sp"]) != st["md"]:
            world_[st["sp"]] = copy.deepcopy(st["md"])
            if store_kind == "real":
                _refresh_real(mds, world_, st.get("refresh") or "reload")
        ident = _identity(st["ident"])
        out, self_after = _call(st["entry"], st, ident, pols[st.get("on", 0)], idp)
        obs.append({"out": out, "caller": abs_ava(ident), "self": self_after,
                    "mt": _regex_matrix(case["sib_pol"] if st.get("on") else case["pol"], st["ident"])})
    return {"steps": obs, "out": obs[-1]["out"], "caller": obs[-1]["caller"], "self": obs[-1]["self"], "mt": []}


# ------------------------------------------------------------------------------ Coq terms
_ABBR = None


def abbr_strings():
    """Frequently used long strings get a name in coq/gen/C10Abbrev.v (only to keep the case files small)."""
    out = []

    def add(x):
        if x is not None and len(x) >= 5 and x not in out and all(0x20 <= ord(c) <= 0x7E for c in x):
            out.append(x)

    for x in (URI, BASIC, UNSPEC, SP, OTHER_SP, RA1, RA2, "default", "pairwise-id", "subject-id",
              "http://unknown.example.org/category", "http://unknown.example.org/c", "street"):
        add(x)
    for m in EC_MODULES:
        add(m)
        for c in module_categories(m):
            add(c)
        for items in _ec_module(m).RELEASE.values():
            for a in items:
                for v in variants(a):
                    add(v)
    for l in LOCALS:
        for v in variants(l) + [l.capitalize()]:
            add(v)
        for w in (wire(l, URI), wire(l, BASIC), "urn:x-unknown:" + l, "urn:mace:dir:attribute-def:" + l):
            if w:
                for v in (w, w.lower(), w.upper(), w.swapcase()):
                    add(v)
    for v in VALS + REGEXES:
        add(v)
    return out


def abbr():
    global _ABBR
    if _ABBR is None:
        _ABBR = {x: "z%d" % i for i, x in enumerate(abbr_strings())}
    return _ABBR


def cs(x):
    """Coq term for a Python str (abbreviated when it has a name)."""
    a = abbr().get(x)
    return Raw(a) if a is not None else Raw(common.cq_str(x))


def cso(x):
    return Raw("None") if x is None else Raw("(Some %s)" % cs(x))


def csl(xs):
    return Raw(cq([cs(x) for x in xs]))


def cq_vals(v):
    return Raw("(VS %s)" % cs(v)) if isinstance(v, str) else Raw("(VL %s)" % csl(v))


def cq_ava(a):
    return cq([(cs(k), cq_vals(v)) for k, v in a])


def cq_ra(r):
    return Raw("(R %s %s %s %s %s %s)" % (cs(r["name"]), cso(r["nf"]), cso(r["friendly"]), csl(r["values"]),
                                         cso(loc(r["name"].lower(), r["nf"])), cso(loc(r["name"], r["nf"]))))


def cq_pol(pol):
    if pol is None:
        return "None"
    secs = []
    for who, sec in pol:
        if sec is None:
            secs.append((cs(who), Raw("None")))
        else:
            ar = "None" if sec["ar"] is None else "(Some %s)" % cq(
                [(cs(n), Raw("None" if rs is None else "(Some %s)" % csl(rs))) for n, rs in sec["ar"]])
            secs.append((cs(who), Raw("(Some (S %s %s %s %s))" % (ar, cq_opt(sec["fail"]), csl(sec["ecs"]),
                                                              cq(bool(sec.get("bare")))))))
    return "(Some %s)" % cq(secs)


def cq_md(md):
    if md is None:
        return "None"
    ras = [(cq_ra(r), cso(r["isreq"])) for r in md["ras"]]
    sidloc = (cso(loc("urn:oasis:names:tc:saml:attribute:pairwise-id", URI)),
              cso(loc("urn:oasis:names:tc:saml:attribute:subject-id", URI)))
    return "(Some (M %s %s %s %s %s))" % (cq(ras), cso(md["sid"]), cq(sidloc), csl(md["ecs"]), cso(md["ra"]))


def cq_out(o):
    if o["k"] == "ok":
        return "(Ok %s)" % cq_ava(o["ava"])
    return "Missing" if o["k"] == "missing" else "Crash"


def cq_entry(st):
    e = st["entry"]
    if e == "foa":
        return "(EFoa %s %s %s)" % (cq(bool(st["fail"])), cq([cq_ra(r) for r in st["req"]]),
                                    cq([cq_ra(r) for r in st["opt"]]))
    if e == "filter":
        return "(EFilter %s %s %s)" % (cq([cq_ra(r) for r in st["req"]]), cq([cq_ra(r) for r in st["opt"]]),
                                       cq_opt(st.get("fo")))
    if e == "server":
        return "(EServer %s)" % cq(bool(st.get("be")))       # best_effort not given = False
    if e == "aa":
        # Server.create_attribute_response = Assertion.apply_policy without best effort, read back from the Response:
        # the model's Server entry with best_effort False (Missing = no response but the MissingValue exception)
        return "(EServer false)"
    return "(%s %s)" % ({"restrict": "ERestrict", "apply": "EApply"}[e], cq_opt(st.get("fo")))


def cq_obs(obs):
    return "%s %s %s %s" % (cq([(cs(r), cs(v)) for r, v in obs["mt"]]), cq_out(obs["out"]), cq_ava(obs["caller"]),
                            "None" if obs["self"] is None else "(Some %s)" % cq_ava(obs["self"]))


def coq_case(case, obs):
    """A case is a life = list of calls on one object; the cases of one call are lives of length 1."""
    if case["entry"] == "life":
        steps = []
        for st, o in zip(case["steps"], obs["steps"]):
            if st.get("on"):     # a call on the second object of the process: judged against ITS configuration
                steps.append("(fun _ => C10.Corr.mk %s %s %s %s %s %s)" % (
                    cq_ava(st["ident"]), cq_pol(case["sib_pol"]), cs(st["sp"]), cq_md(st["md"]), cq_entry(st), cq_obs(o)))
            else:
                steps.append("C10.Corr.stp %s %s %s %s %s" % (cq_ava(st["ident"]), cs(st["sp"]), cq_md(st["md"]),
                                                            cq_entry(st), cq_obs(o)))
        return "C10.Corr.life %s [%s]" % (cq_pol(case["pol"]), "; ".join(steps))
    return "[C10.Corr.mk %s %s %s %s %s %s]" % (
        cq_ava(case["ident"]), cq_pol(case["pol"]), cs(case["sp"]), cq_md(case["md"]), cq_entry(case), cq_obs(obs))


def explain_term(term):
    return "C10.Corr.explain (%s)" % term


# ------------------------------------------------------------------------------ generator
def variants(name, rng=None):
    return [name, name.lower(), name.upper(), name.swapcase()]


def rand_vals(rng, server=False):
    al = [v for v in VALS if v] if server else VALS
    k = rng.randrange(10)
    if k == 0:
        return rng.choice(al)                       # a plain str
    if k == 1 and not server:
        return []
    n = rng.choice([1, 1, 2, 2, 3])
    vs = [rng.choice(al) for _ in range(n)]
    if rng.random() < 0.3:
        vs.append(vs[0])                            # a repeated value
    return vs


def rand_ident(rng, server=False, names=None):
    pool = names or LOCALS
    d = {}
    for _ in range(rng.choice([0, 1, 2, 3, 3, 4, 5, 6])):
        loc_ = rng.choice(pool)
        if server and loc_.lower() == "edupersontargetedid":
            continue
        k = rng.randrange(12)
        if k < 7:
            key = loc_
        elif k < 10:
            key = rng.choice(variants(loc_))
        elif k == 10:
            key = wire(loc_, URI) or loc_          # identity keyed by the wire name
        else:
            key = "" if not server else loc_
        d[key] = rand_vals(rng, server)
    return list(d.items())


def rand_ra(rng, idnames, real):
    loc_ = rng.choice(idnames) if idnames and rng.random() < 0.7 else rng.choice(LOCALS)
    base = loc_
    for l in LOCALS:
        if l.lower() == loc_.lower():
            base = l
    kind = rng.choice(["uri", "uri", "uri", "basic", "local", "unknown"])
    fr = rng.choice(["right", "right", "case", "wrong", None, None])
    r = ra_for(base, kind, fr)
    if rng.random() < 0.15:
        r["name"] = r["name"].upper() if rng.random() < 0.5 else r["name"].swapcase()
    k = rng.randrange(8)
    if k == 0:
        r["nf"] = r["nf_render"] = UNSPEC
    elif k == 1:
        if real:
            r["nf"], r["nf_render"] = UNSPEC, None
        else:
            r["nf"] = r["nf_render"] = None
    if not real and fr is None and rng.random() < 0.2:
        r["friendly"] = ""
    k = rng.randrange(6)
    if k == 0:
        r["values"] = [rng.choice([v for v in VALS if v])]
    elif k == 1:
        v = rng.choice([v for v in VALS if v])
        r["values"] = [v, rng.choice([v for v in VALS if v]), v]
    r["isreq"] = rng.choice(["true", "true", "false", "false", None, "1"] if True else [])
    return r


def rand_ras(rng, ident, real):
    idnames = [k for k, _ in ident if k]
    ras = [rand_ra(rng, idnames, real) for _ in range(rng.choice([0, 1, 1, 2, 3, 4]))]
    if ras and rng.random() < 0.3:                 # duplicated RequestedAttribute, possibly other values / requiredness
        d = copy.deepcopy(rng.choice(ras))
        if rng.random() < 0.5:
            d["values"] = [rng.choice([v for v in VALS if v])] if rng.random() < 0.6 else []
        if rng.random() < 0.5:
            d["isreq"] = rng.choice(["true", "false"])
        ras.insert(rng.randrange(len(ras) + 1), d)
    return ras


def rand_ar(rng, ident):
    names = sorted({k.lower() for k, _ in ident} | {rng.choice(LOCALS).lower() for _ in range(2)})
    rng.shuffle(names)
    ar = []
    for n in names[: rng.choice([1, 1, 2, 3, 4])]:
        k = rng.randrange(4)
        ar.append([n, None if k == 0 else [rng.choice(REGEXES) for _ in range(1 if k < 3 else 2)]])
    return ar


ALL_CATS = None


def all_cats():
    global ALL_CATS
    if ALL_CATS is None:
        ALL_CATS = []
        for m in EC_MODULES:
            for c in module_categories(m):
                if c not in ALL_CATS:
                    ALL_CATS.append(c)
        ALL_CATS.append("http://unknown.example.org/category")
    return ALL_CATS


def rand_sec(rng, ident, ec_p=0.3):
    ar = rand_ar(rng, ident) if rng.random() < 0.5 else None
    fail = rng.choice([None, None, True, False])
    ecs = []
    if rng.random() < ec_p:
        ecs = rng.sample(EC_MODULES, rng.choice([1, 1, 2]))
    return mk_sec(ar, fail, ecs)


def rand_pol(rng, ident, ra, ec_p=0.3):
    k = rng.randrange(12)
    if k == 0:
        return None
    if k == 1:
        return []
    pol = []
    for who, p in ((SP, 0.35), (ra or RA2, 0.35), (OTHER_SP, 0.3), ("default", 0.6), ("", 0.15)):
        if rng.random() < p:
            pol.append([who, None if rng.random() < 0.1 else rand_sec(rng, ident, ec_p)])
    rng.shuffle(pol)
    return pol


def rand_md(rng, ident, pol, mode=None):
    mode = mode or rng.choice(["real", "real", "stub"])
    real = mode == "real"
    ras = rand_ras(rng, ident, real)
    cats = all_cats()
    ecs = []
    if rng.random() < 0.6:
        # prefer categories of the modules the policy names
        pref = []
        for _, sec in (pol or []):
            for m in ((sec or {}).get("ecs") or []):
                pref.extend(module_categories(m))
        for _ in range(rng.choice([1, 1, 2, 3])):
            ecs.append(rng.choice(pref) if pref and rng.random() < 0.8 else rng.choice(cats))
    sid = rng.choice([None] * 6 + ["any", "pairwise-id", "subject-id", "none"])
    ra = rng.choice([None, None, RA1, RA2])
    return mk_md(mode, ras, sid, ecs, ra, split=rng.randrange(3))


def gen_precedence(rng):
    """Policy.get: every presence pattern of the four candidate sections x RA known/unknown x None-valued sections."""
    cases = []
    ident = [("mail", ["a@example.org"]), ("sn", ["x"]), ("givenName", ["staff"]), ("title", ["man"]), ("cn", ["x"])]
    secs = {SP: mk_sec([["mail", None]]), RA1: mk_sec([["sn", None]]), "default": mk_sec([["givenname", None]]),
            "": mk_sec([["title", None]])}
    whos = [SP, RA1, "default", ""]
    bare = dict(mk_sec(), bare=True)
    for pres in itertools.product([0, 1, 2, 3], repeat=4):     # absent / present / present but None / present but {}
        for ra in (None, RA1, RA2):
            if pres.count(2) + pres.count(3) > 1 and ra is RA2:
                continue
            if pres.count(3) > 1 and ra is None:
                continue
            pol = [[w, (secs[w] if p == 1 else dict(bare) if p == 3 else None)] for w, p in zip(whos, pres) if p]
            md = mk_md("stub" if sum(pres) % 2 else "real", [], None, [], ra)
            cases.append(mk_case("precedence", "restrict", ident, pol, md, rng=rng))
    # no store at all: the registration authority is unknown
    cases.append(mk_case("precedence", "restrict", ident, [[w, secs[w]] for w in whos[1:]], None, rng=rng))
    # a more specific section that exists but configures nothing still shadows the settings of a less specific
    # one: fail_on_missing_requested=False / entity categories / restrictions of the default must NOT apply
    lacking = [("sn", ["x"]), ("givenName", ["staff"])]
    need_mail = [ra_for("mail", "uri", "right", isreq="true")]
    for who, ra in ((SP, None), (RA1, RA1)):
        for shadow in (dict(bare), None, "absent"):
            for dflt in (mk_sec(None, False), mk_sec([["sn", None]], False), mk_sec(None, None, ["refeds"]),
                         mk_sec(None, None, ["swamid"])):
                for dname in ("default", ""):
                    pol = ([] if shadow == "absent" else [[who, copy.deepcopy(shadow)]]) + [[dname, copy.deepcopy(dflt)]]
                    for idn in (lacking, ident):
                        for entry in ("restrict", "apply"):
                            cases.append(mk_case("precedence-shadow", entry, idn, copy.deepcopy(pol),
                                                 mk_md("real", need_mail, None, [], ra), rng=rng))
    return cases


def gen_matching(rng, thorough):
    cases = []
    local = "givenName"
    keyforms = {"exact": "givenName", "lower": "givenname", "upper": "GIVENNAME", "absent": None}
    for kind in ("uri", "basic", "local", "unknown"):
        for nfk in ("own", "unspec", "other", "absent"):
            for fr in ("right", "case", "wrong", None):
                for kf, key in keyforms.items():
                    for vk in ("none", "held", "nothold"):
                        r = ra_for(local, kind, fr)
                        if nfk == "unspec":
                            r["nf"] = r["nf_render"] = UNSPEC
                        elif nfk == "other":
                            r["nf"] = r["nf_render"] = BASIC if r["nf"] == URI else URI
                        elif nfk == "absent":
                            r["nf"] = r["nf_render"] = None
                        if vk == "held":
                            r["values"] = ["Derek"]
                        elif vk == "nothold":
                            r["values"] = ["Dirk"]
                        ident = [("sn", ["Jeter"])]
                        if key is not None:
                            ident.append((key, ["Derek", "D."]))
                        if kf == "upper":
                            ident.append((r["name"], ["wire"]))   # identity also keyed by the wire name
                        req, opt = ([r], []) if rng.random() < 0.6 else ([], [r])
                        cases.append(mk_case("match", "foa", ident, req=req, opt=opt, fail=rng.random() < 0.7, rng=rng))
    return cases


def gen_values(rng):
    cases = []
    shapes = ["a", [], ["a"], ["a", "a"], ["a", "b"]]
    listed = [[], ["a"], ["b"], ["a", "a"], ["a", "b"], ["c"]]
    for sh in shapes:
        for li in listed:
            for reqd in (True, False):
                for fail in (True, False):
                    r = ra_for("mail", "uri", "right", li)
                    ident = [("mail", sh), ("sn", ["x"])]
                    cases.append(mk_case("values", "foa", ident, req=[r] if reqd else [], opt=[] if reqd else [r],
                                         fail=fail, rng=rng))
                    pol = [["default", mk_sec(None, fail)]]
                    md = mk_md(rng.choice(["real", "stub"]), [dict(r, isreq="true" if reqd else "false")])
                    cases.append(mk_case("values", rng.choice(["restrict", "apply"]), ident, pol, md, rng=rng))
                    # the fail_on_missing argument overrides the section (a4e3dbdd), on every Policy-level entry
                    for fo in (True, False):
                        entry = rng.choice(["restrict", "apply", "filter"])
                        kw = {"req": [r] if reqd else [], "opt": [] if reqd else [r]} if entry == "filter" else {}
                        cases.append(mk_case("values-fo", entry, ident, copy.deepcopy(pol), copy.deepcopy(md), rng=rng,
                                             fo=fo, **kw))
    # ... also when the required attribute is absent altogether, and under every section setting
    need = ra_for("givenName", "uri", "right")
    for fail in (None, True, False):
        for fo in (None, True, False):
            for entry in ("restrict", "apply", "filter"):
                for have in (False, True):
                    ident = [("mail", ["a"]), ("sn", ["x"])] + ([("givenName", ["g"])] if have else [])
                    pol = [["default", mk_sec(None, fail)]]
                    md = mk_md("real", [dict(need, isreq="true"), ra_for("mail", "uri", "right", isreq="false")])
                    kw = {"req": [need], "opt": [ra_for("mail", "uri", "right")]} if entry == "filter" else {}
                    cases.append(mk_case("absent-fo", entry, ident, pol, md, rng=rng, fo=fo, **kw))
    return cases


def gen_duplicates(rng):
    cases = []
    lists = [[], ["a"], ["b"], ["a", "b"]]
    for l1 in lists:
        for l2 in lists:
            for place in ("rr", "ro", "oo"):
                r1 = ra_for("mail", "uri", "right", l1)
                r2 = ra_for("mail", rng.choice(["uri", "basic"]), rng.choice(["right", "case"]), l2)
                ident = [(rng.choice(["mail", "Mail"]), ["a", "b", "a"]), ("sn", ["x"])]
                req = [r1, r2] if place == "rr" else ([r1] if place == "ro" else [])
                opt = [] if place == "rr" else ([r2] if place == "ro" else [r1, r2])
                cases.append(mk_case("dup", "foa", ident, req=req, opt=opt, fail=True, rng=rng))
                ras = [dict(r, isreq="true") for r in req] + [dict(r, isreq="false") for r in opt]
                cases.append(mk_case("dup", "restrict", ident, None, mk_md("real", ras), rng=rng))
    return cases


def gen_ec(rng, thorough):
    cases = []
    for mod in EC_MODULES:
        cats = module_categories(mod)
        subsets = [[]] + [[c] for c in cats] + [list(p) for p in itertools.combinations(cats, 2)]
        if not thorough and len(subsets) > 40:
            keep = [[]] + [[c] for c in cats]
            tuples = [list(k) for k in _ec_module(mod).RELEASE if isinstance(k, tuple)]
            rest = [s for s in subsets if len(s) == 2 and s not in tuples and s[::-1] not in tuples]
            subsets = keep + tuples + rng.sample(rest, 12)
        attrs = []
        for items in _ec_module(mod).RELEASE.values():
            for a in items:
                if a not in attrs:
                    attrs.append(a)
        for ss in subsets:
            for reqk in (0, 1):
                pool = attrs + ["Foo", "x-secret"]
                names = rng.sample(pool, min(len(pool), 5))
                ident = {}
                for n in names:
                    ident[rng.choice([n, n, n.lower(), n.upper()])] = rand_vals(rng) or ["x"]
                ident = list(ident.items())
                ras = []
                if reqk:
                    for n in rng.sample(names, min(len(names), 2)):
                        ras.append(ra_for(n, rng.choice(["uri", "basic", "local"]), rng.choice(["right", "right", None]),
                                          isreq=rng.choice(["true", "true", "false"])))
                pol = [["default", mk_sec(None, rng.choice([None, False]), [mod])]]
                md = mk_md(rng.choice(["real", "real", "stub"]), ras, None, ss + (["http://unknown.example.org/c"]
                                                                                if rng.random() < 0.2 else []))
                cases.append(mk_case("ec", rng.choice(["restrict", "apply", "restrict"]), ident, pol, md, rng=rng))
    # two modules at once, and entity categories plus attribute_restrictions
    for _ in range(60 if not thorough else 400):
        mods = rng.sample(EC_MODULES, 2)
        ident = rand_ident(rng, names=["mail", "givenName", "sn", "eduPersonTargetedID", "cn", "o", "uid", "Foo",
                                       "displayName", "eduPersonPrincipalName", "norEduPersonNIN"])
        ident = [(k, v) for k, v in ident if k]
        pol = [["default", mk_sec(rand_ar(rng, ident) if rng.random() < 0.4 else None, None, mods)]]
        cats = module_categories(mods[0]) + module_categories(mods[1])
        mode = rng.choice(["real", "stub"])
        md = mk_md(mode, rand_ras(rng, ident, mode == "real"), None,
                   rng.sample(cats, min(len(cats), rng.choice([0, 1, 2, 3]))))
        cases.append(mk_case("ec2", "restrict", ident, pol, md, rng=rng))
    # entity categories configured, Policy WITHOUT metadata store (class of the fixed finding C10-F2): the
    # requester is in no category, only what the configured categories release to everybody ("" key) passes
    for mod in EC_MODULES:
        always = list(_ec_module(mod).RELEASE.get("", []))
        others = [a for items in _ec_module(mod).RELEASE.values() for a in items if a not in always]
        for entry in ("restrict", "apply", "filter"):
            for ar in (None, "always", "other"):
                ident = {"mail": ["a@example.org"], "Foo": ["x"]}
                for a in always[:2]:
                    ident[rng.choice([a, a, a.lower(), a.upper()])] = ["t1", "t2"]
                for a in rng.sample(others, min(len(others), 2)):
                    ident.setdefault(a, ["o"])
                ident = list(ident.items())
                ard = None
                if ar == "always" and always:
                    ard = [[always[0].lower(), None]]
                elif ar == "other":
                    ard = [["mail", None], ["foo", [".*"]]]
                req = [ra_for("mail", "uri", "right")] if entry == "filter" else []
                cases.append(mk_case("ec-nostore", entry, ident, [["default", mk_sec(ard, rng.choice([None, False]), [mod])]],
                                     None, req=req, rng=rng))
    for _ in range(40 if not thorough else 300):
        mods = rng.sample(EC_MODULES, rng.choice([1, 2, 2]))
        ident = rand_ident(rng, names=["mail", "givenName", "sn", "eduPersonTargetedID", "cn", "o", "uid", "Foo",
                                       "displayName", "eduPersonPrincipalName", "norEduPersonNIN"])
        ident = [(k, v) for k, v in ident if k]
        who = rng.choice(["default", "default", SP, ""])
        pol = [[who, mk_sec(rand_ar(rng, ident) if rng.random() < 0.4 else None, rng.choice([None, True, False]), mods)]]
        if who == SP and rng.random() < 0.5:
            pol.append(["default", mk_sec(None, None, [])])
        entry = rng.choice(["restrict", "apply", "filter"])
        kw = {}
        if entry == "filter":
            ras = rand_ras(rng, ident, False)
            kw = {"req": [r for r in ras if r["isreq"] == "true"], "opt": [r for r in ras if r["isreq"] != "true"]}
        cases.append(mk_case("ec-nostore-rand", entry, ident, pol, None, rng=rng,
                             fo=rng.choice([None, None, True, False]), **kw))
    return cases


def gen_restrictions(rng):
    cases = []
    shapes = ["a@example.org", [], ["a@example.org"], ["a@example.org", "a@example.org"], ["staff", "b@example.org"]]
    ars = [None, [["sn", None]], [["mail", None]], [["mail", [".*@example\\.org$"]]],
           [["mail", ["^staff$", ".*"]]], [["mail", ["^$"]], ["sn", None]]]
    for sh in shapes:
        for ar in ars:
            for key in ("mail", "Mail", "MAIL"):
                ident = [(key, sh), ("sn", ["x"]), ("title", "The man")]
                pol = [[rng.choice(["default", SP]), mk_sec(ar)]]
                cases.append(mk_case("ar", rng.choice(["restrict", "filter", "apply"]), ident, pol,
                                     rng.choice([None, mk_md("stub"), mk_md("real")]), rng=rng))
    return cases


def gen_subject_id(rng):
    cases = []
    for sid in (None, "any", "pairwise-id", "subject-id", "none", "other"):
        for have in ((), ("pairwise-id",), ("subject-id",), ("pairwise-id", "subject-id")):
            for fail in (None, True, False):
                for mode in ("real", "stub"):
                    ident = [("mail", ["a@example.org"])] + [(h, ["id-" + h]) for h in have]
                    ras = []
                    if rng.random() < 0.4:
                        ras.append(mk_ra("urn:oasis:names:tc:SAML:attribute:pairwise-id", URI, "pairwise-id"))
                    if rng.random() < 0.3:
                        ras.append(ra_for("mail", "uri", "right", isreq=rng.choice(["true", "false"])))
                    pol = [["default", mk_sec(None, fail)]]
                    cases.append(mk_case("sid", "restrict", ident, pol, mk_md(mode, ras, sid), rng=rng))
    return cases


SID_NAMES = ("pairwise-id", "subject-id")
SID_FORMS = ("opt-omit", "opt-false", "opt-1", "req-same", "req-nofriendly", "req-held", "req-nothold", "opt-held",
             "opt-nothold", "opt-nonf", "opt-case")


def sid_ra(n, form):
    """The identifier n ITSELF as a RequestedAttribute of the requester's AttributeConsumingService.
    opt-*: not isRequired="true" (omitted / "false" / "1"); req-same: exactly the dict the store's
    subject_id_requirement answers; req-nofriendly: required, another dict; *-held / *-nothold: lists a value the
    user (who holds ["id-" + n]) holds / does not hold; opt-nonf: NameFormat omitted; opt-case: FriendlyName in capitals."""
    r = mk_ra("urn:oasis:names:tc:SAML:attribute:" + n, URI, n, isreq="true")
    if form.startswith("opt"):
        r["isreq"] = {"opt-omit": None, "opt-1": "1"}.get(form, "false")
    if form == "req-nofriendly":
        r["friendly"] = None
    elif form.endswith("-held"):
        r["values"] = ["id-" + n]
    elif form.endswith("-nothold"):
        r["values"] = ["id-other"]
    elif form == "opt-nonf":
        r["nf"], r["nf_render"] = UNSPEC, None
    elif form == "opt-case":
        r["friendly"] = n.upper()
    return r


def sid_wanted(sid):
    return list(SID_NAMES) if sid == "any" else [sid] if sid in SID_NAMES else []


def sid_listings(sid):
    """How the requester's AttributeConsumingService lists the identifier(s) its subject-id:req entity attribute asks
    for (sid without requirement: subject-id stands in): not at all / every form of sid_ra / the OTHER identifier
    only (sid = any: one of the two only) / optional and required both / one required, the other optional."""
    targets = sid_wanted(sid) or ["subject-id"]
    other = [n for n in SID_NAMES if n not in targets]
    out = [("absent", [])]
    for form in SID_FORMS:
        out.append((form, [sid_ra(t, form) for t in targets]))
    out.append(("other-opt", [sid_ra(o, "opt-false") for o in other] or [sid_ra(targets[0], "opt-false")]))
    out.append(("twice", [sid_ra(t, "opt-false") for t in targets] + [sid_ra(t, "req-same") for t in targets]))
    out.append(("mixed", [sid_ra(targets[0], "req-same")] + [sid_ra(t, "opt-omit") for t in (targets[1:] or other)]))
    return out


def sid_fail_sources():
    """Every place the choice about failing on a missing required attribute can come from:
    (name, policy, registration authority of the requester, fail_on_missing argument)."""
    S = mk_sec
    names = [["mail", None], ["sn", None], ["pairwise-id", None], ["subject-id", None]]
    return [
        ("unset", [["default", S()]], None, None),
        ("no-policy", None, None, None),
        ("default-true", [["default", S(None, True)]], None, None),
        ("default-false", [["default", S(None, False)]], None, None),
        ("sp-true/default-false", [[SP, S(None, True)], ["default", S(None, False)]], None, None),
        ("sp-unset/default-false", [[SP, S(names, None)], ["default", S(None, False)]], None, None),
        ("sp-false/default-true", [[SP, S(None, False)], ["default", S(None, True)]], None, None),
        ("ra-true/default-false", [[RA1, S(None, True)], ["default", S(None, False)]], RA1, None),
        ("ra-false/default-unset", [[RA1, S(None, False)], ["default", S()]], RA1, None),
        ("other-ra-false", [[RA2, S(None, False)], ["", S()]], RA1, None),
        ("arg-false/unset", [["default", S()]], None, False),
        ("arg-false/true", [["default", S(None, True)]], None, False),
        ("arg-true/false", [["default", S(None, False)]], None, True),
    ]


def _sid_case(rng, tag, i, sid, listing, have, pol, ra=None, fo=None, entry=None, mode=None, **mdkw):
    entry = entry or ("restrict", "apply", "server", "aa")[(i + i // 4) % 4]     # every entry point meets every user
    ident = [("mail", ["a@example.org"]), ("sn", ["x"]), ("title", "The man")] + [(h, ["id-" + h]) for h in have]
    extra = [ra_for("mail", "uri", "right", isreq="false")]
    if (i // 4) % 2:
        extra.append(ra_for("sn", "uri", "right", isreq="true"))
    ras = copy.deepcopy(listing)
    at = (0, len(ras), 1)[i % 3]                 # the identifier first / last / in between
    ras = ras[:at] + extra + ras[at:]
    mode = mode or ("real" if entry in ("server", "aa") or i % 5 < 3 else "stub")
    md = mk_md(mode, ras, sid, [], ra, split=(0, 1, 2)[(i // 3) % 3], **mdkw)
    kw = {"be": None if fo is None else (not fo)} if entry == "server" else {} if entry == "aa" else {"fo": fo}
    return mk_case(tag, entry, ident, copy.deepcopy(pol), md, rng=rng, **kw)


def gen_sid_listing(rng, thorough):
    """The requester carries the subject-id:req ENTITY ATTRIBUTE and ALSO lists (or does not list) that identifier in
    its AttributeConsumingService: two descriptions of one requester that the code merges (Policy.restrict).
    A: subject-id:req 5 (subject-id / pairwise-id / any / none / no attribute) x listing 15 (sid_listings) x what the
       user holds 4, entry point and position of the identifier taking turns;
    B: source of the choice about failing 13 (sid_fail_sources) x entry point 4 x (listing 4 with a user who lacks
       what is required + 1 control who holds it), subject-id:req taking turns;
    C: spelling of the entity attribute: first value 4 x further values 3 x where they stand 3 x before / after the
       entity-category attribute 2 (the code reads the FIRST value of the merged attribute)."""
    cases = []
    haves = [(), ("pairwise-id",), ("subject-id",), ("pairwise-id", "subject-id")]
    i = 0
    for sid in ("subject-id", "pairwise-id", "any", "none", None):
        for lname, listing in sid_listings(sid):
            for have in haves:
                pol = ([["default", mk_sec()]], None, [["default", mk_sec(None, True)]], [[SP, mk_sec()]])[(i // 3) % 4]
                cases.append(_sid_case(rng, "sid-listing-" + lname, i, sid, listing, have, pol))
                i += 1
    i = 0
    for fname, pol, ra, fo in sid_fail_sources():
        for entry in ("restrict", "apply", "server", "aa"):
            if entry == "aa" and fo is not None:
                continue          # the attribute authority has no argument about failing
            # per listing a user who LACKS what is required (nothing / only the other identifier / one of the two
            # that `any` asks for), plus one control who holds everything
            for j, lname in enumerate(("absent", "opt-omit", "opt-false", "req-same", "opt-held")):
                sid = ("subject-id", "pairwise-id", "any")[(i + i // 5) % 3]
                want = sid_wanted(sid)
                other = tuple(n for n in SID_NAMES if n not in want)
                have = tuple(SID_NAMES) if j == 4 else ((), other or (want[0],))[(i // 2) % 2]
                listing = dict(sid_listings(sid))[lname]
                cases.append(_sid_case(rng, "sid-fail-" + fname, i, sid, listing, have, pol, ra=ra, fo=fo, entry=entry))
                i += 1
    i = 0
    for first in ("subject-id", "pairwise-id", "any", "none"):
        for more in (["none"], ["subject-id"], ["pairwise-id", "any"]):
            for shape in ("one", "two-attrs", "two-ext"):
                for sid_first in (False, True):
                    have = haves[i % 4]
                    listing = dict(sid_listings(first))[("absent", "opt-false", "opt-omit")[i % 3]]
                    c = _sid_case(rng, "sid-spelling", i, first, listing, have, [["default", mk_sec()]],
                                  entry=("restrict", "server", "apply", "aa")[(i + i // 4) % 4], sid_more=more,
                                  sid_shape=shape, sid_first=sid_first, sid_nonf=(i % 5 == 0), mode="real")
                    if i % 2:
                        c["md"]["ecs"] = ["http://unknown.example.org/c"]
                    cases.append(c)
                    i += 1
    return cases


def gen_random_sid(rng, n):
    """Random identities x policies x requester metadata, forced into the neighbourhood: the requester has a
    subject-id:req entity attribute and lists one or both identifiers in a random form at a random place."""
    cases = []
    for i in range(n):
        entry = ("restrict", "apply", "server", "aa")[i % 4]
        server = entry in ("server", "aa")
        ident = rand_ident(rng, server=server, names=["mail", "sn", "pairwise-id", "subject-id", "givenName", "Foo",
                                                      "title", "subject-id", "pairwise-id"])
        ident = [(k, v) for k, v in ident if k]
        ra_known = rng.choice([None, RA1])
        pol = rand_pol(rng, ident, ra_known, ec_p=0.1)
        md = rand_md(rng, ident, pol, mode="real" if server else None)
        if ra_known and rng.random() < 0.6:
            md["ra"] = ra_known
        md["sid"] = rng.choice(["any", "pairwise-id", "subject-id", "subject-id", "pairwise-id", "none"])
        for t in rng.sample(SID_NAMES, rng.choice([1, 1, 2])):
            md["ras"].insert(rng.randrange(len(md["ras"]) + 1), sid_ra(t, rng.choice(SID_FORMS)))
        if md["mode"] == "real" and rng.random() < 0.3:
            md["sid_more"] = [rng.choice(["none", "any", "subject-id", "pairwise-id"])]
            md["sid_shape"] = rng.choice(["one", "two-attrs", "two-ext"])
            if rng.random() < 0.5:
                md["sid_first"] = True
        fo = rng.choice([None, None, None, True, False])
        kw = {"be": rng.choice([None, False, True])} if entry == "server" else {} if entry == "aa" else {"fo": fo}
        if entry == "aa" and not ident:
            ident = [("mail", ["a@example.org"])]     # create_attribute_response is given an identity
        cases.append(mk_case("rand-sid", entry, ident, pol, md, rng=rng, **kw))
    return cases


def gen_life_sid(rng):
    """Lives in the same neighbourhood: ONE Policy / Server, the requester's subject-id:req attribute stays while
    the way it lists the identifier changes (optional -> required -> not at all -> optional ...), the listing stays
    while the requirement changes, and a federation of requesters each with its own combination, called in turn."""
    cases = []
    full = [("mail", ["a@example.org"]), ("sn", ["x"]), ("pairwise-id", ["id-pairwise-id"]),
            ("subject-id", ["id-subject-id"])]
    lack_pw = [kv for kv in full if kv[0] != "pairwise-id"]
    lack_both = full[:2]
    r_mail = ra_for("mail", "uri", "right", isreq="false")

    def pw(f):
        return [sid_ra("pairwise-id", f)]

    def sj(f):
        return [sid_ra("subject-id", f)]

    for host, store in life_hosts(rng):
        mode = "stub" if store == "stub" else "real"

        def md(sid, listing):
            return mk_md(mode, [dict(r_mail)] + copy.deepcopy(listing), sid)

        scen = {
            "listing-wave": [md("pairwise-id", pw("opt-false")), md("pairwise-id", pw("req-same")), md("pairwise-id", []),
                             md("pairwise-id", pw("opt-omit")), md(None, pw("opt-omit")), md("pairwise-id", pw("opt-omit"))],
            "req-wave": [md(None, sj("opt-false")), md("subject-id", sj("opt-false")), md("none", sj("opt-false")),
                         md("any", sj("opt-false")), md("pairwise-id", sj("opt-false")), md("subject-id", sj("opt-false"))],
        }
        for fail in (None, False):
            for name, mds_ in scen.items():
                for idn in (lack_both, lack_pw):
                    steps = [life_step(rng, host, idn, SP, x, fo=rng.choice([None, None, False, True]),
                                       be=rng.choice([None, None, True])) for x in mds_]
                    cases.append(mk_life("life-sid-" + name, host, store, [["default", mk_sec(None, fail)]], steps, rng))
        # a federation: every requester its own (requirement, listing); the users take turns
        combos = [("subject-id", sj("opt-omit")), ("subject-id", []), (None, sj("opt-false")), ("any", pw("opt-false")),
                  ("pairwise-id", pw("req-same")), ("pairwise-id", sj("opt-false")), ("none", pw("opt-1")),
                  ("any", pw("req-same") + sj("opt-held"))]
        sps = ["https://sp%d.example.org/sp.xml" % k for k in range(len(combos))]
        order = list(range(len(combos)))
        rng.shuffle(order)
        steps = [life_step(rng, host, (lack_both, lack_pw, full)[n % 3], sps[k], md(*combos[k]))
                 for n, k in enumerate(order + order[::-1][:4])]
        cases.append(mk_life("life-sid-federation", host, store, [["default", mk_sec()]], steps, rng))
    return cases


# ------------------------------------------------------------------------------ round 6: the FriendlyName is a LABEL
LABEL_KINDS = ("agree", "case", "absent", "other", "other-case", "other-lacked", "unknown", "other-wire", "own-wire")
NAME_KINDS = ("uri", "basic", "uri-upper", "nonf", "unknown")
LABEL_N = ("givenName", "eduPersonPrincipalName", "mail", "sn", "cn")
LABEL_OTHER = ("norEduPersonNIN", "mail", "title", "uid", "displayName")


def label_ra(n, namekind, labelkind, other, values=(), isreq="true", real=True):
    """A RequestedAttribute that DECLARES the attribute n by Name + NameFormat and carries a FriendlyName that
    agrees / differs in case / is absent / is the local name of ANOTHER attribute (`other`: exact, other case) /
    of an attribute nobody holds / the wire Name of the other attribute / its own Name.
    namekind: uri, basic (the attribute maps resolve the Name), uri-upper (Name in capitals: the maps resolve the
    lower-cased Name only), nonf (NameFormat omitted: the maps do NOT resolve it, the label is the fallback),
    unknown (a Name no map knows: same)."""
    kind = {"uri": "uri", "basic": "basic", "uri-upper": "uri", "nonf": "uri", "unknown": "unknown"}[namekind]
    r = ra_for(n, kind, "right", values, isreq)
    if namekind == "uri-upper":
        r["name"] = r["name"].upper()
    elif namekind == "nonf":
        if real:
            r["nf"], r["nf_render"] = UNSPEC, None
        else:
            r["nf"] = r["nf_render"] = None
    r["friendly"] = {"agree": n, "case": n.swapcase(), "absent": None, "other": other, "other-case": other.swapcase(),
                     "other-lacked": other, "unknown": "street", "other-wire": wire(other, URI) or other,
                     "own-wire": r["name"]}[labelkind]
    return r


def _label_ident(n, other, holds_n, labelkind, server, extra=()):
    ident = [("sn" if n != "sn" else "o", ["x"])]
    if holds_n:
        ident.append((n, ["v-" + n, "w"]))
    if labelkind != "other-lacked":
        key = other
        if labelkind == "other-wire" and not server:
            key = wire(other, URI) or other             # the identity keyed by the wire name
        ident.append((key, ["o-" + other]))
    ident.append(("eduPersonEntitlement", ["urn:x:secret"]))
    return ident + list(extra)


def _label_case(rng, tag, entry, ident, ras, pol, fail=True, fo=None, ecs=(), mode=None, label=None):
    server = entry in ("server", "aa")
    mode = "real" if server else (mode or "real")
    req = [r for r in ras if r["isreq"] == "true"]
    opt = [r for r in ras if r["isreq"] != "true"]
    if entry == "foa":
        c = mk_case(tag, "foa", ident, req=req, opt=opt, fail=fail, rng=rng)
    elif entry == "filter":
        md = mk_md(mode, [], None, list(ecs)) if ecs else rng.choice([None, mk_md(mode)])
        c = mk_case(tag, "filter", ident, pol, md, req=req, opt=opt, rng=rng, fo=fo)
    else:
        kw = {"be": None if fo is None else (not fo)} if entry == "server" else {} if entry == "aa" else {"fo": fo}
        c = mk_case(tag, entry, ident, pol, mk_md(mode, ras, None, list(ecs), split=rng.randrange(3)), rng=rng, **kw)
    c["label"] = label
    return c


def gen_label(rng, thorough):
    """The FriendlyName of a RequestedAttribute as a label that need not agree with what Name + NameFormat stand for.
    A: how the Name resolves 5 x what the label says 9 x the user holds the declared attribute or not x required /
       optional, each on one Policy-level entry (filter_on_attributes / Policy.filter / restrict / apply_policy, taking
       turns) and one Server-level entry (create_authn_response / create_attribute_response);
    B: the REQUIRED declared attribute is not held while the attribute the label names is - under every source of the
       choice about failing 13 x entry point 4 (+ the control whose label agrees);
    C: listed values (held under the declared name / only under the labelled name / nowhere);
    D: the labelled attribute is ALSO declared, by its own Name (its release is then legitimate)."""
    cases = []
    pol_entries = ("foa", "filter", "restrict", "apply")
    i = 0
    for namekind in NAME_KINDS:
        for labelkind in LABEL_KINDS:
            for holds_n in (False, True):
                for isreq in ("true", "false"):
                    n = LABEL_N[i % len(LABEL_N)]
                    other = [o for o in LABEL_OTHER if o != n][(i // 2) % (len(LABEL_OTHER) - 1)]
                    fail = (None, True, False)[(i // 4) % 3]
                    for entry in (pol_entries[(i + i // 4) % 4], ("server", "aa")[(i // 2) % 2]):
                        server = entry in ("server", "aa")
                        real = server or i % 3 != 0
                        ras = [label_ra(n, namekind, labelkind, other, isreq=isreq, real=real),
                               ra_for("sn" if n != "sn" else "o", "uri", "right", isreq="false")]
                        if i % 2:
                            ras.reverse()
                        ident = _label_ident(n, other, holds_n, labelkind, server)
                        pol = None if (i // 8) % 4 == 3 else [["default", mk_sec(None, fail)]]
                        cases.append(_label_case(rng, "label", entry, ident, ras, pol, fail=fail is not False,
                                                 mode="real" if real else "stub",
                                                 label="%s/%s/%s/%s" % (namekind, labelkind, "held" if holds_n else "lacked",
                                                                        "req" if isreq == "true" else "opt")))
                    i += 1
    # B: every source of the choice about failing
    i = 0
    for fname, pol, ra, fo in sid_fail_sources():
        for entry in ("restrict", "apply", "server", "aa"):
            if entry == "aa" and fo is not None:
                continue
            for labelkind in ("other", "agree", "other-case"):
                n = LABEL_N[i % len(LABEL_N)]
                other = [o for o in LABEL_OTHER if o != n][i % (len(LABEL_OTHER) - 1)]
                ras = [ra_for("sn" if n != "sn" else "o", "uri", "right", isreq="false"),
                       label_ra(n, ("uri", "basic")[i % 2], labelkind, other)]
                ident = _label_ident(n, other, False, labelkind, True)
                c = _label_case(rng, "label-fail-" + fname, entry, ident, ras, copy.deepcopy(pol), fo=fo,
                                mode=("real", "stub")[i % 2], label="fail/%s" % labelkind)
                if c["md"] is not None:
                    c["md"]["ra"] = ra
                cases.append(c)
                i += 1
    # C: listed values
    i = 0
    for labelkind in ("agree", "other", "absent"):
        for vk in ("held-by-declared", "held-by-labelled", "nowhere"):
            for holds_n in (False, True):
                for isreq in ("true", "false"):
                    n, other = "mail", "uid"
                    v = {"held-by-declared": "v-mail", "held-by-labelled": "o-uid", "nowhere": "zzz"}[vk]
                    entry = ("restrict", "server", "foa", "apply", "aa", "filter")[i % 6]
                    ras = [label_ra(n, "uri", labelkind, other, [v], isreq)]
                    ident = _label_ident(n, other, holds_n, labelkind, entry in ("server", "aa"))
                    cases.append(_label_case(rng, "label-values", entry, ident, ras, [["default", mk_sec()]],
                                             mode=("real", "stub")[i % 2], label="values/%s/%s" % (labelkind, vk)))
                    i += 1
    # D: the labelled attribute is declared as well
    i = 0
    for labelkind in ("other", "other-case"):
        for own in ("true", "false"):
            for holds_n in (False, True):
                for entry in ("restrict", "server", "foa", "aa"):
                    n, other = LABEL_N[i % len(LABEL_N)], "title"
                    ras = [label_ra(n, "uri", labelkind, other, isreq="false"), ra_for(other, ("uri", "basic")[i % 2], "right", isreq=own)]
                    if i % 2:
                        ras.reverse()
                    ident = _label_ident(n, other, holds_n, labelkind, entry in ("server", "aa"))
                    cases.append(_label_case(rng, "label-also-declared", entry, ident, ras, [["default", mk_sec()]],
                                             label="also/%s" % labelkind))
                    i += 1
    return cases


def only_required_keys(thorough):
    """[(module, key)] of the ONLY_REQUIRED categories of the bundled modules (quick tier: at most two per module)."""
    out = []
    for mod in EC_MODULES:
        m = _ec_module(mod)
        ks = [k for k in m.RELEASE if getattr(m, "ONLY_REQUIRED", {}).get(k, False)]
        ks.sort(key=lambda k: isinstance(k, tuple))
        if not thorough and len(ks) > 2:
            ks = [ks[0], ks[-1]]
        out.extend((mod, k) for k in ks)
    return out


def gen_label_ec(rng, thorough):
    """Entity categories decide and the category is ONLY_REQUIRED: what the requester REQUIRES narrows the release.
    Every ONLY_REQUIRED key of the bundled modules x what the label of the required attribute says 9 x the labelled
    attribute is in the category's list or not x the user holds the declared attribute or not, required / optional,
    how the Name resolves and the entry point (Policy.restrict / apply_policy / Policy.filter / the two Server entries)
    taking turns."""
    cases = []
    i = 0
    for mod, key in only_required_keys(thorough):
        m = _ec_module(mod)
        cats = [key] if isinstance(key, str) else list(key)
        atlist = [a for a in m.RELEASE[key] if a.lower() not in SERVER_UNSAFE and (wire(a, URI) or wire(a, BASIC))]
        low = {a.lower() for items in m.RELEASE.values() for a in items}
        outside = [o for o in ("x-secret", "Foo", "title", "uid", "norEduPersonNIN") if o.lower() not in low]
        for labelkind in LABEL_KINDS:
            for other_in in (True, False):
                for holds_n in (True, False):
                    n = atlist[i % len(atlist)]
                    other = ([a for a in atlist if a != n][(i // 3) % (len(atlist) - 1)]) if other_in else outside[i % len(outside)]
                    thirds = [a for a in atlist if a not in (n, other)] or ["sn"]
                    third = thirds[(i // 5) % len(thirds)]
                    entry = ("restrict", "apply", "server", "filter", "aa", "restrict")[i % 6]
                    server = entry in ("server", "aa")
                    isreq = "false" if i % 7 == 6 else "true"
                    namekind = ("uri", "uri", "basic", "uri-upper")[(i // 2) % 4]
                    if namekind == "basic" and not wire(n, BASIC):
                        namekind = "uri"
                    real = server or i % 3 != 0
                    ras = [label_ra(n, namekind, labelkind, other, isreq=isreq, real=real),
                           ra_for(third, "uri", "right", isreq=("false", "true")[(i // 4) % 2])]
                    if i % 2:
                        ras.reverse()
                    ident = _label_ident(n, other, holds_n, labelkind, server, extra=[(third, ["t"]), ("Foo", ["x"])])
                    ident = list(dict(ident).items())
                    pol = [["default", mk_sec(None, (None, False)[i % 2], [mod])]]
                    cases.append(_label_case(rng, "label-ec", entry, ident, ras, pol, ecs=cats, mode="real" if real else "stub",
                                             label="ec/%s/%s/%s" % (labelkind, "in" if other_in else "out",
                                                                    "req" if isreq == "true" else "opt")))
                    i += 1
    return cases


def gen_life_label(rng):
    """Lives: ONE Policy / Server; the requester's RequestedAttribute keeps its Name while its label changes
    (agrees -> names another attribute -> absent -> the other attribute in another case -> agrees), without and with an
    ONLY_REQUIRED category in force; the user holds / lacks the declared attribute."""
    cases = []
    for host, store in life_hosts(rng):
        mode = "stub" if store == "stub" else "real"
        server = host == "server"
        for mod, cats, n, other in ((None, [], "givenName", "norEduPersonNIN"), (None, [], "eduPersonPrincipalName", "mail"),
                                    ("edugain", [_ec_module("edugain").COCO], "cn", "mail"),
                                    ("harness.c10_ecmod", [_ec_module("harness.c10_ecmod").C], "displayName", "mail")):
            for holds_n in (False, True):
                ident = _label_ident(n, other, holds_n, "other", server)
                order = ["agree", "other", "absent", "other-case", "agree", "other"]
                mds_ = [mk_md(mode, [label_ra(n, "uri", lk, other, isreq="true", real=mode == "real"),
                                     ra_for("sn", "uri", "right", isreq="false")], None, cats) for lk in order]
                pol = [["default", mk_sec(None, rng.choice([None, False]) if mod else None, [mod] if mod else [])]]
                steps = [life_step(rng, host, ident, SP, x, fo=rng.choice([None, None, False]), be=rng.choice([None, None, True]))
                         for x in mds_]
                c = mk_life("life-label" + ("-ec" if mod else ""), host, store, pol, steps, rng)
                c["label"] = "life"
                cases.append(c)
    return cases


def gen_random_label(rng, n):
    """Random identities x policies x requester metadata, forced into the neighbourhood: RequestedAttributes are
    relabelled with the name of another identity attribute / of a bundled attribute, now and then in another case."""
    cases = []
    for i in range(n):
        entry = ("restrict", "apply", "server", "aa", "filter", "foa")[i % 6]
        server = entry in ("server", "aa")
        ident = rand_ident(rng, server=server, names=["mail", "sn", "givenName", "title", "norEduPersonNIN", "uid", "cn",
                                                      "eduPersonPrincipalName", "displayName", "Foo"])
        ident = [(k, v) for k, v in ident if k]
        if not ident:
            ident = [("mail", ["a@example.org"])]
        ra_known = rng.choice([None, RA1])
        pol = rand_pol(rng, ident, ra_known, ec_p=0.25)
        if pol and rng.random() < 0.3:
            for _, sec in pol:
                if sec and sec["ecs"]:
                    sec["ecs"] = [rng.choice(["edugain", "harness.c10_ecmod", "swamid"])]
        md = rand_md(rng, ident, pol, mode="real" if server else None)
        real = md["mode"] == "real"
        ras = md["ras"] or [rand_ra(rng, [k for k, _ in ident], real)]
        md["ras"] = ras
        md["sid"] = None if rng.random() < 0.8 else md["sid"]
        for r in ras:
            if rng.random() < 0.65:
                lab = rng.choice([k for k, _ in ident] + ["mail", "norEduPersonNIN", "cn"])
                r["friendly"] = lab if rng.random() < 0.75 else rng.choice(variants(lab))
        if ra_known and rng.random() < 0.6:
            md["ra"] = ra_known
        fo = rng.choice([None, None, None, True, False])
        if entry in ("foa", "filter"):
            req, opt = md_split(md)
            if entry == "foa":
                c = mk_case("rand-label", "foa", ident, req=req, opt=opt, fail=rng.random() < 0.6, rng=rng)
            else:
                md2 = dict(md, ras=[])
                c = mk_case("rand-label", "filter", ident, pol, md2 if rng.random() < 0.8 else None, req=req, opt=opt, rng=rng, fo=fo)
        else:
            kw = {"be": rng.choice([None, False, True])} if entry == "server" else {} if entry == "aa" else {"fo": fo}
            c = mk_case("rand-label", entry, ident, pol, md, rng=rng, **kw)
        c["label"] = "random"
        cases.append(c)
    return cases


def gen_random(rng, n, entries):
    cases = []
    for i in range(n):
        entry = entries[i % len(entries)]
        ident = rand_ident(rng)
        if entry == "foa":
            ras = rand_ras(rng, ident, False) + (rand_ras(rng, ident, False) if rng.random() < 0.3 else [])
            req = [r for r in ras if r["isreq"] == "true"]
            opt = [r for r in ras if r["isreq"] != "true"]
            if rng.random() < 0.2 and req:
                opt.append(copy.deepcopy(req[0]))          # listed as required AND optional
            cases.append(mk_case("rand-foa", "foa", ident, req=req, opt=opt, fail=rng.random() < 0.6, rng=rng))
            continue
        ra_known = rng.choice([None, RA1])
        pol = rand_pol(rng, ident, ra_known)
        ec = any((sec or {}).get("ecs") for _, sec in (pol or []))
        if ec:
            ident = [(k, v) for k, v in ident if k]
        md = None if rng.random() < 0.12 else rand_md(rng, ident, pol)
        fo = rng.choice([None, None, None, True, False])
        if md is not None and ra_known and rng.random() < 0.7:
            md["ra"] = ra_known
        if entry == "filter":
            ras = rand_ras(rng, ident, False)
            req = [r for r in ras if r["isreq"] == "true"]
            opt = [r for r in ras if r["isreq"] != "true"]
            cases.append(mk_case("rand-filter", "filter", ident, pol, md, req=req, opt=opt, rng=rng, fo=fo))
        else:
            cases.append(mk_case("rand-" + entry, entry, ident, pol, md, rng=rng, fo=fo))
    return cases


MISSING_KINDS = ("none", "absent", "sid", "value", "absent+value", "two-absent")


def server_product(rng):
    """Server.create_authn_response: best_effort {unset, False, True} x which required attribute cannot be supplied
    x fail_on_missing_requested {unset, True, False} x attribute_restrictions {none, mail only}.
    The identity always holds attributes nobody asked for (eduPersonEntitlement, title)."""
    cases = []
    for be in (None, False, True):
        for missing in MISSING_KINDS:
            for fail in (None, True, False):
                for ar in (None, [["mail", None]]):
                    ident = [("mail", ["a@example.org", "b@example.org"]), ("eduPersonEntitlement", ["urn:x:secret"]),
                             ("title", "The man"), ("sn", ["x"])]
                    ras = [ra_for("mail", "uri", "right"), ra_for("sn", "uri", "right", isreq="false")]
                    sid = None
                    if missing == "none":
                        ras.append(ra_for("title", "uri", "right"))
                    elif missing == "absent":
                        ras.append(ra_for("givenName", "uri", "right"))
                    elif missing == "sid":
                        sid = "pairwise-id"
                    elif missing == "value":
                        # listed value the user does not hold: _filter_values(must=True) raises on EVERY pass
                        ras[0] = ra_for("mail", "uri", "right", ["c@example.net"])
                    elif missing == "absent+value":
                        # first pass fails on givenName; the best-effort pass then fails on the mail value
                        ras = [ra_for("givenName", "uri", "right"), ra_for("mail", "uri", "right", ["c@example.net"])]
                    else:
                        ras = [ra_for("givenName", "uri", "right"), ra_for("mail", "uri", "right", ["b@example.org"]),
                               ra_for("displayName", "basic", "right")]
                    pol = [[rng.choice(["default", SP]), mk_sec(copy.deepcopy(ar), fail)]]
                    cases.append(mk_case("server-missing", "server", ident, pol, mk_md("real", ras, sid), rng=rng, be=be))
    return cases


def aa_product(rng):
    """Server.create_attribute_response (the attribute authority's policy): the server product without best_effort."""
    cases = []
    for c in server_product(rng):
        if c["be"] is None:
            cases.append(dict(c, tag="aa-missing", entry="aa"))
    return cases


def gen_server(rng, n):
    cases = server_product(rng)
    for i in range(n):
        ident = rand_ident(rng, server=True)
        ra_known = rng.choice([None, RA1])
        pol = rand_pol(rng, ident, ra_known, ec_p=0.25)
        md = rand_md(rng, ident, pol, mode="real")
        if ra_known and rng.random() < 0.7:
            md["ra"] = ra_known
        if rng.random() < 0.4:
            # make the declaration satisfiable more often: only optional / held attributes
            for r in md["ras"]:
                if r["isreq"] == "true" and rng.random() < 0.7:
                    r["isreq"] = "false"
            if rng.random() < 0.7:
                md["sid"] = None
        cases.append(mk_case("server", "server", ident, pol, md, rng=rng, be=rng.choice([None, False, True, True])))
    return cases


# ------------------------------------------------------------------------------ lives: several calls on ONE object
REFRESH_KINDS = ("reload", "swap", "inplace")
SERVER_UNSAFE = ("edupersontargetedid",)


def mk_step(entry, ident, sp, md, req=(), opt=(), fo=None, be=None, refresh=None, on=0):
    """on: 0 = the object of the life, 1 = the SECOND Policy object of the process (other configuration, same store)."""
    return {"entry": entry, "ident": [[k, v] for k, v in ident], "sp": sp, "md": copy.deepcopy(md),
            "req": copy.deepcopy(list(req)), "opt": copy.deepcopy(list(opt)), "fail": True, "fo": fo, "be": be,
            "refresh": refresh, "on": on}


def mk_life(tag, host, store, pol, steps, rng, sib=False):
    """host: 'policy' (one saml2.assertion.Policy) | 'server' (one Server: its Policy, its MetadataStore);
    store: 'real' | 'stub' | 'none'.  sib (a policy, may be None = Policy(None)): a second Policy object with
    ANOTHER configuration lives in the same process on the same store; steps with on=1 are calls on it."""
    if store == "none":
        for st in steps:
            st["md"] = None
    c = {"tag": tag, "entry": "life", "host": host, "store": store, "pol": pol, "polcfg": render_policy(pol, rng),
         "steps": steps, "ident": [], "md": None, "sp": SP, "req": [], "opt": [], "fail": True, "be": None, "fo": None}
    if sib is not False:
        c["sib"] = True
        c["sib_pol"] = sib
        c["sib_polcfg"] = render_policy(sib, rng)
    return c


def md_split(md):
    req = [r for r in md["ras"] if r["isreq"] == "true"]
    opt = [r for r in md["ras"] if r["isreq"] != "true"]
    return req, opt


def life_step(rng, host, ident, sp, md, entry=None, fo=None, be=None, req=None, opt=None, on=0):
    """A call of a kind the host offers; Policy.filter is given the requester's declaration as the caller would
    read it from the metadata unless req/opt say otherwise."""
    if entry is None:
        entry = rng.choice(["server", "server", "restrict", "apply"] if host == "server" and not on
                           else ["restrict", "apply", "filter", "restrict"])
    kw = {}
    if entry == "filter":
        r0, o0 = md_split(md) if md is not None else ([], [])
        kw = {"req": r0 if req is None else req, "opt": o0 if opt is None else opt}
    if entry == "server":
        fo = None
    else:
        be = None
    return mk_step(entry, ident, sp, md, fo=fo, be=be, refresh=rng.choice(REFRESH_KINDS), on=on, **kw)


def life_hosts(rng, n=None):
    hs = [("policy", "real"), ("policy", "stub"), ("server", "real")]
    return hs if n is None else [rng.choice(hs) for _ in range(n)]


def ec_attr_ra(n, rng, isreq):
    """Mostly a RequestedAttribute whose local name the code can work out (FriendlyName, or a Name the attribute
    maps know); now and then one it cannot (get_entity_categories then fails with AttributeError)."""
    kind = rng.choice(["uri", "uri", "basic", "local"])
    fr = rng.choice(["right", "right", None])
    known = {"uri": wire(n, URI), "basic": wire(n, BASIC)}.get(kind)
    if fr is None and not known and rng.random() < 0.9:
        fr = "right"
    return ra_for(n, kind, fr, isreq=isreq)


def gen_life_ec(rng, thorough):
    """Entity categories decide: what entitles the requester SHRINKS or GROWS during the life of the object -
    the set of isRequired attributes (ONLY_REQUIRED categories), the requester's categories, its registration
    authority (another section applies), the `required` argument of Policy.filter; another requester and
    another user in between.  Every order, every bundled module, the three hosts."""
    cases = []
    turn = [0]
    for mod in EC_MODULES:
        m = _ec_module(mod)
        onlyreq = getattr(m, "ONLY_REQUIRED", {})
        keys = [k for k in m.RELEASE if k != ""]
        # the ONLY_REQUIRED keys first; at most 4 keys per module in the quick tier
        keys.sort(key=lambda k: (not onlyreq.get(k, False), isinstance(k, tuple)))
        heavy = len(m.RELEASE) > 8            # evaluating the property over a long table is expensive in Coq
        if not thorough:
            keys = keys[:2]
        other_cats = [c for c in module_categories(mod)]
        for ki, key in enumerate(keys):
            cats = [key] if isinstance(key, str) else list(key)
            attrs = [a for a in m.RELEASE[key]]
            # quick tier: the three hosts for the ONLY_REQUIRED categories, one host (taking turns) for the others
            hosts = life_hosts(rng)
            if not thorough and (not onlyreq.get(key, False) or (heavy and ki > 0)):
                turn[0] += 1
                hosts = [hosts[turn[0] % 3]]
            for host, store in hosts:
                usable = [a for a in attrs if not (host == "server" and a.lower() in SERVER_UNSAFE)]
                if not usable:
                    continue
                names = rng.sample(usable, min(len(usable), 4))
                ident = [(n, ["v-" + n[:6], "w"] if i % 2 else ["v-" + n[:6]]) for i, n in enumerate(names)]
                if "Foo" not in names:
                    ident.append(("Foo", ["x"]))
                ident2 = [(n, ["u-" + n[:5]]) for n in names[:2]] + [("x-secret", ["s"])]
                a, b = names[0], names[min(1, len(names) - 1)]
                full = [ec_attr_ra(a, rng, "true"), ec_attr_ra(b, rng, "true")] + \
                       [ec_attr_ra(n, rng, "false") for n in names[2:3]]
                half = [dict(full[0]), dict(full[1], isreq="false")] + [dict(r) for r in full[2:]]
                none_ = [dict(r, isreq="false") for r in full]
                gone = [dict(full[0])]                       # the other RequestedAttributes left the document
                fail = rng.choice([None, False])
                pol = [["default", mk_sec(None, fail, [mod])]]
                mode = "stub" if store == "stub" else "real"

                def md(ras, ecs, ra=None):
                    return mk_md(mode, copy.deepcopy(ras), None, list(ecs), ra)

                other = [c for c in other_cats if c not in cats][:1]
                scen = {
                    # the most entitled description first: an answer kept from an earlier call shows as an over-release
                    "req-wave": [md(full, cats), md(half, cats), md(none_, cats), md(half, cats), md(full, cats), md(full, cats)],
                    "req-drop": [md(full, cats), md(gone, cats), md([], cats)],
                    "cat-wave": [md(full, cats), md(full, cats[:-1]), md(full, []), md(full, other), md(full, cats)],
                }
                if thorough:
                    scen.update({
                        "req-grow": [md(none_, cats), md(half, cats), md(full, cats)],
                        "cat-join": [md(full, []), md(full, cats[:-1]), md(full, cats)],
                        "cat-change": [md(full, other), md(full, cats), md(full, other)],
                    })
                for name, mds_ in scen.items():
                    steps = [life_step(rng, host, ident, SP, x) for x in mds_]
                    cases.append(mk_life("life-ec-" + name, host, store, copy.deepcopy(pol), steps, rng))
                # the `required` argument of Policy.filter changes, the store does not
                if host == "policy":
                    base = md(full, cats)
                    r_ab, r_a, r_b = [full[0], full[1]], [full[0]], [full[1]]
                    orders = [[r_ab, r_a, r_b, [], r_ab]] + ([[[], r_b, r_ab], [r_a, r_ab, r_a]] if thorough else [])
                    for order in orders:
                        steps = [life_step(rng, host, ident, SP, base, entry="filter", req=rq, opt=full[2:]) for rq in order]
                        cases.append(mk_life("life-ec-filter-arg", host, store, copy.deepcopy(pol), steps, rng))
                # another requester (in no category / in the category with another declaration) in between
                o1, o2 = md(half, []), md(half, cats)
                orders = [[(SP, md(full, cats)), (OTHER_SP, o1), (SP, md(half, cats))],
                          [(OTHER_SP, o2), (SP, md(full, cats)), (OTHER_SP, o2), (SP, md(full, cats))]]
                if thorough:
                    orders.append([(OTHER_SP, o1), (SP, md(full, cats)), (OTHER_SP, o1)])
                for order in orders:
                    steps = [life_step(rng, host, ident, sp, x) for sp, x in order]
                    cases.append(mk_life("life-ec-two-sps", host, store, copy.deepcopy(pol), steps, rng))
                # a SECOND Policy object in the process (other configuration: no categories / restrictions only /
                # no configuration at all), same store, same requester, calls taking turns
                sibs = [[["default", mk_sec(None, False)]], [["default", mk_sec([[b.lower(), None], ["foo", None]], False)]], None]
                for sib in (sibs if thorough else rng.sample(sibs, 2)):
                    order = rng.choice([[0, 1, 0], [1, 0, 1], [1, 0, 0, 1]])
                    steps = [life_step(rng, host, ident, SP, md(full, cats), on=o) for o in order]
                    cases.append(mk_life("life-ec-second-object", host, store, copy.deepcopy(pol), steps, rng,
                                         sib=copy.deepcopy(sib)))
                # another user in between
                steps = [life_step(rng, host, i_, SP, md(full, cats)) for i_ in (ident, ident2, ident)]
                cases.append(mk_life("life-ec-users", host, store, copy.deepcopy(pol), steps, rng))
                # the registration authority changes: the section with the categories applies / the default one does
                pol_ra = [[RA1, mk_sec(None, fail, [mod])], ["default", mk_sec([[a.lower(), None], ["foo", None]], False)]]
                for order in (([RA1, None, RA1], [None, RA1, RA2], [RA2, RA1]) if thorough else ([RA1, None, RA1, RA2],)):
                    steps = [life_step(rng, host, ident, SP, md(full, cats, ra)) for ra in order]
                    cases.append(mk_life("life-ec-ra", host, store, copy.deepcopy(pol_ra), steps, rng))
        # categories configured, no store at all: calls with different arguments
        names = [a for a in m.RELEASE.get("", [])][:1] + ["mail", "Foo"]
        ident = [(n, ["v"]) for n in dict.fromkeys(names)]
        steps = [life_step(rng, "policy", ident, sp, None, entry=e, req=rq, opt=[])
                 for sp, e, rq in ((SP, "filter", [ra_for("mail", "uri", "right")]), (SP, "restrict", []),
                                   (OTHER_SP, "filter", []), (SP, "apply", []))]
        cases.append(mk_life("life-ec-nostore", "policy", "none", [["default", mk_sec(None, None, [mod])]], steps, rng))
    return cases


def gen_life_decl(rng, thorough=False):
    """No entity categories: the requester's declaration, its subject-id requirement, the section that applies
    (requester / registration authority / default) and the fail flag decide - and change during the life."""
    cases = []
    ident = [("mail", ["a@example.org", "b@example.org"]), ("sn", ["x"]), ("givenName", ["staff"]), ("title", "The man"),
             ("pairwise-id", ["id-1"])]
    ident_nosid = [kv for kv in ident if kv[0] != "pairwise-id"]
    ident2 = [("mail", ["student@umu.se"]), ("cn", ["x"])]
    r_mail, r_sn, r_gn, r_dn = (ra_for(n, "uri", "right") for n in ("mail", "sn", "givenName", "displayName"))
    r_mail_v = ra_for("mail", "uri", "right", ["a@example.org"])

    def ras(req, opt=()):
        return [dict(r, isreq="true") for r in req] + [dict(r, isreq="false") for r in opt]

    for host, store in life_hosts(rng):
        mode = "stub" if store == "stub" else "real"

        def md(req, opt=(), sid=None, ra=None):
            return mk_md(mode, ras(req, opt), sid, [], ra)

        decl = {
            "shrink": [md([r_mail, r_sn], [r_gn]), md([r_mail], [r_gn]), md([r_mail]), md([])],
            "grow": [md([]), md([r_mail]), md([r_mail], [r_gn]), md([r_mail, r_sn], [r_gn])],
            "values": [md([r_mail]), md([r_mail_v]), md([r_mail])],
            "unsuppliable": [md([r_mail]), md([r_mail, r_dn]), md([r_mail], [r_dn]), md([r_mail, r_dn])],
            "sid": [md([r_mail], sid="pairwise-id"), md([r_mail]), md([r_mail], sid="subject-id"), md([r_mail], sid="any")],
        }
        ar_ = [["mail", [".*@example\\.org$"]], ["sn", None], ["pairwise-id", None]]
        for fail, arsec in (((None, None), (None, ar_), (False, None), (False, ar_)) if thorough else ((None, ar_), (False, None))):
            if True:
                pol = [["default", mk_sec(copy.deepcopy(arsec), fail)]]
                for name, mds_ in decl.items():
                    for idn in ((ident, ident_nosid) if name == "sid" else (ident,)):
                        steps = [life_step(rng, host, idn, SP, x, fo=rng.choice([None, None, False]),
                                           be=rng.choice([None, None, True])) for x in mds_]
                        cases.append(mk_life("life-decl-" + name, host, store, copy.deepcopy(pol), steps, rng))
        # the fail_on_missing argument / best_effort changes from call to call, nothing else does
        x = md([r_mail, r_dn], [r_sn])
        for order in ([None, False, None, True], [False, None], [True, False, None]):
            steps = [life_step(rng, host, ident, SP, x, fo=o, be=(None if o is None else not o)) for o in order]
            cases.append(mk_life("life-decl-fo", host, store, [["default", mk_sec(None, None)]], steps, rng))
        # which section applies changes: the requester's registration authority changes; two requesters with
        # their own sections; two users
        pol = [[SP, mk_sec([["mail", None]], False)], [RA1, mk_sec([["sn", None], ["givenname", None]], None)],
               [RA2, mk_sec(None, False)], ["default", mk_sec([["title", None]], False)]]
        for order in ([(OTHER_SP, RA1), (OTHER_SP, None), (OTHER_SP, RA2), (OTHER_SP, RA1)],
                      [(SP, RA1), (OTHER_SP, RA1), (SP, None), (OTHER_SP, None)],
                      [(OTHER_SP, None), (SP, None), (OTHER_SP, RA2), (OTHER_SP, RA1)]):
            for decl_ in ([], [r_mail, r_sn]):
                steps = [life_step(rng, host, rng.choice([ident, ident, ident2]), sp, md([], decl_, ra=ra)) for sp, ra in order]
                cases.append(mk_life("life-decl-ra", host, store, copy.deepcopy(pol), steps, rng))
    return cases


def mutate_md(rng, md, ident, pol, real):
    """One refresh: the requester's description changes in one or two respects."""
    md = copy.deepcopy(md)
    idnames = [k for k, _ in ident if k]
    for _ in range(rng.choice([1, 1, 2])):
        k = rng.randrange(9)
        if k == 0 and md["ras"]:
            del md["ras"][rng.randrange(len(md["ras"]))]
        elif k == 1:
            md["ras"].insert(rng.randrange(len(md["ras"]) + 1), rand_ra(rng, idnames, real))
        elif k in (2, 3) and md["ras"]:
            r = rng.choice(md["ras"])
            r["isreq"] = "false" if r["isreq"] == "true" else "true"
        elif k == 4 and md["ras"]:
            r = rng.choice(md["ras"])
            r["values"] = [] if r["values"] else [rng.choice([v for v in VALS if v])]
        elif k == 5 and md["ecs"]:
            del md["ecs"][rng.randrange(len(md["ecs"]))]
        elif k in (5, 6):
            pref = []
            for _, sec in (pol or []):
                for m in ((sec or {}).get("ecs") or []):
                    pref.extend(module_categories(m))
            md["ecs"].append(rng.choice(pref) if pref and rng.random() < 0.8 else rng.choice(all_cats()))
        elif k == 7:
            md["ra"] = rng.choice([x for x in (None, RA1, RA2) if x != md["ra"]])
        else:
            md["sid"] = rng.choice([x for x in (None, "any", "pairwise-id", "subject-id", "none") if x != md["sid"]])
    return md


def gen_life_random(rng, n):
    cases = []
    for _ in range(n):
        host, store = rng.choice([("policy", "real"), ("policy", "stub"), ("policy", "stub"), ("server", "real"),
                                  ("server", "real"), ("policy", "none")])
        server = host == "server"
        real = store == "real"
        ident0 = rand_ident(rng, server=server)
        ra_known = rng.choice([None, RA1])
        pol = rand_pol(rng, ident0, ra_known, ec_p=0.5)
        ec = any((sec or {}).get("ecs") for _, sec in (pol or []))

        def clean(i_):
            return [(k, v) for k, v in i_ if k or not ec]

        ident0 = clean(ident0)
        world_ = {}
        steps = []
        ident = ident0
        sib = False
        if rng.random() < 0.3:
            sib = rand_pol(rng, ident0, ra_known, ec_p=0.5)
            ec = ec or any((sec or {}).get("ecs") for _, sec in (sib or []))
            ident0 = clean(ident0)
        ident = ident0
        for _i in range(rng.choice([2, 2, 3, 3, 4, 5])):
            sp = rng.choice([SP, SP, OTHER_SP])
            if rng.random() < 0.3:
                ident = clean(rand_ident(rng, server=server))
            md = None
            if store != "none":
                if sp not in world_:
                    md = rand_md(rng, ident, pol, mode="real" if real else "stub")
                    if ra_known and rng.random() < 0.6:
                        md["ra"] = ra_known
                elif rng.random() < 0.65:
                    md = mutate_md(rng, world_[sp], ident, pol, real)
                else:
                    md = world_[sp]
                world_[sp] = md
            kw = {}
            on = 1 if sib is not False and rng.random() < 0.45 else 0
            entry = rng.choice(["server", "server", "restrict", "apply"] if server and not on
                               else ["restrict", "apply", "filter", "filter"])
            if entry == "filter" and rng.random() < 0.6:
                ras_ = rand_ras(rng, ident, False)
                kw = {"req": [r for r in ras_ if r["isreq"] == "true"], "opt": [r for r in ras_ if r["isreq"] != "true"]}
            steps.append(life_step(rng, host, ident, sp, md, entry=entry, fo=rng.choice([None, None, None, True, False]),
                                   be=rng.choice([None, False, True]), on=on, **kw))
        cases.append(mk_life("life-rand", host, store, pol, steps, rng, sib=sib))
    return cases


def gen_lives(rng, thorough):
    cases = gen_life_ec(rng, thorough) + gen_life_decl(rng, thorough) + gen_life_random(rng, 1500 if thorough else 200)
    rng.shuffle(cases)         # spread the expensive ones (long category tables) over the shards
    return cases


def generate(ctx):
    rng = ctx.rng
    t = ctx.thorough
    cases = []
    cases += gen_precedence(rng)
    cases += gen_matching(rng, t)
    cases += gen_values(rng)
    cases += gen_duplicates(rng)
    cases += gen_ec(rng, t)
    cases += gen_restrictions(rng)
    cases += gen_subject_id(rng)
    cases += gen_random(rng, 6000 if t else 1200, ["foa", "filter", "restrict", "apply", "restrict", "apply"])
    cases += gen_server(rng, 1200 if t else 190)
    cases += gen_lives(rng, t)
    # round 5 (appended, so that the streams above stay what they were)
    cases += gen_sid_listing(rng, t)
    cases += aa_product(rng)
    cases += gen_random_sid(rng, 900 if t else 150)
    cases += gen_life_sid(rng)
    # round 6 (appended): the FriendlyName of a RequestedAttribute is a label
    cases += gen_label(rng, t)
    cases += gen_label_ec(rng, t)
    cases += gen_life_label(rng)
    cases += gen_random_label(rng, 900 if t else 150)
    return cases


# ------------------------------------------------------------------------------ evidence
def sid_listed(md):
    """How the requester itself lists the subject identifiers: '-' (not), 'opt', 'req', 'opt+req'."""
    ks = set()
    for r in md["ras"]:
        if r["name"].lower().startswith("urn:oasis:names:tc:saml:attribute:") and r["name"].lower().endswith("-id"):
            ks.add("req" if r["isreq"] == "true" else "opt")
    return "+".join(sorted(ks)) or "-"


def nontrivial(case, obs):
    pol = case["pol"]
    if case["entry"] == "life":
        # distinct = host, store, shape of the policy, per call (entry, requester, did the store change, outcome,
        # released more / less / the same names as the previous call for that requester)
        seen, sig = {}, []
        for st, o in zip(case["steps"], obs["steps"]):
            names = sorted(k for k, _ in o["out"]["ava"]) if o["out"]["k"] == "ok" else None
            prev = seen.get(st["sp"])
            rel = None
            if prev is not None and names is not None and prev[1] is not None:
                rel = "same" if names == prev[1] else "less" if set(names) < set(prev[1]) else \
                    "more" if set(names) > set(prev[1]) else "other"
            sig.append((st["entry"], st["sp"] == SP, st.get("on", 0), prev is not None and prev[0] != st["md"],
                        o["out"]["k"], rel))
            seen[st["sp"]] = (st["md"], names)
        ec = any(s_ and s_["ecs"] for _, s_ in (pol or []))
        return ("life", case["host"], case["store"], ec, len(pol or []), sig) + ((case["label"],) if case.get("label") else ())
    seckinds = tuple(sorted((("sp" if w == SP else "ra" if w in (RA1, RA2) else w if w in ("default", "") else "other"),
                             None if s is None else (bool(s["ar"]), s["fail"], bool(s["ecs"]))) for w, s in (pol or [])))
    md = case["md"]
    decl = None if md is None else (md["mode"], min(len(md["ras"]), 3), md["sid"], min(len(md["ecs"]), 2), md["ra"] is not None,
                                    sid_listed(md))
    if case["entry"] in ("foa", "filter"):
        decl = (decl, min(len(case["req"]), 2), min(len(case["opt"]), 2))
    out = obs["out"]["k"]
    shrunk = out == "ok" and sorted(map(str, obs["out"]["ava"])) != sorted(map(str, obs["caller"]))
    if not pol and decl is None and not shrunk and out == "ok":
        return None
    key = (case["entry"], case.get("be"), case.get("fo"), seckinds if len(seckinds) <= 2 else len(seckinds), decl, out,
           shrunk)
    # round 6: what the label of the RequestedAttribute says / how its Name resolves is a dimension of its own
    return key + ((case["label"],) if case.get("label") not in (None, "random") else ())


def histogram(cases, observed):
    h = {"by_tag": {}, "by_entry": {}, "outcome": {}, "exceptions": {}, "store": {}, "released_fraction": {},
         "str_valued_attrs": 0, "repeated_values": 0, "ec_sections": 0, "regex_sections": 0,
         "server_best_effort_x_outcome": {}, "fail_on_missing_arg_x_outcome": {}, "nostore_with_entity_categories": {},
         "attribute_authority_outcome": {}, "subject_id_req_x_own_listing_x_outcome": {},
         "friendly_name_label_x_outcome": {}, "requested_attributes_label_names_another_held_attribute": 0}
    h["lives"] = {"calls": 0, "by_host_store": {}, "length": {}, "store_refreshed_before_call": 0, "refresh_kind": {},
                  "second_requester_calls": 0, "release_vs_previous_call_same_requester": {}, "call_entry": {},
                  "call_outcome": {}}
    for c, o in zip(cases, observed):
        h["by_tag"][c["tag"]] = h["by_tag"].get(c["tag"], 0) + 1
        h["by_entry"][c["entry"]] = h["by_entry"].get(c["entry"], 0) + 1
        if c["entry"] == "life":
            L = h["lives"]
            hs = "%s/%s" % (c["host"], c["store"])
            L["by_host_store"][hs] = L["by_host_store"].get(hs, 0) + 1
            L["length"][str(len(c["steps"]))] = L["length"].get(str(len(c["steps"])), 0) + 1
            seen = {}
            for st, so in zip(c["steps"], o["steps"]):
                L["calls"] += 1
                L["call_entry"][st["entry"]] = L["call_entry"].get(st["entry"], 0) + 1
                L["call_outcome"][so["out"]["k"]] = L["call_outcome"].get(so["out"]["k"], 0) + 1
                L["second_requester_calls"] += st["sp"] != SP
                L["calls_on_second_policy_object"] = L.get("calls_on_second_policy_object", 0) + (1 if st.get("on") else 0)
                names = sorted(k for k, _ in so["out"]["ava"]) if so["out"]["k"] == "ok" else None
                prev = seen.get(st["sp"])
                if prev is not None:
                    if prev[0] != st["md"]:
                        L["store_refreshed_before_call"] += 1
                        if c["store"] == "real":
                            L["refresh_kind"][st["refresh"]] = L["refresh_kind"].get(st["refresh"], 0) + 1
                    if names is not None and prev[1] is not None:
                        rel = "same" if names == prev[1] else "less" if set(names) < set(prev[1]) else \
                            "more" if set(names) > set(prev[1]) else "other"
                    else:
                        rel = "error before or now"
                    d = L["release_vs_previous_call_same_requester"]
                    d[rel] = d.get(rel, 0) + 1
                seen[st["sp"]] = (st["md"], names)
            continue
        k = o["out"]["k"]
        h["outcome"][k] = h["outcome"].get(k, 0) + 1
        if c.get("label"):
            lk = c["label"].split("/")
            key = "%s %s -> %s" % (c["tag"] if len(lk) < 2 else lk[0] + ":" + lk[1], c["entry"], k)
            h["friendly_name_label_x_outcome"][key] = h["friendly_name_label_x_outcome"].get(key, 0) + 1
        held = {kk.lower() for kk, _ in c["ident"]}
        for r in list((c["md"] or {}).get("ras") or []) + list(c["req"]) + list(c["opt"]):
            l_ = loc(r["name"].lower(), r["nf"])
            if r["friendly"] and l_ and r["friendly"].lower() != l_.lower() and r["friendly"].lower() in held:
                h["requested_attributes_label_names_another_held_attribute"] += 1
        if k == "crash":
            h["exceptions"][o["out"]["exc"]] = h["exceptions"].get(o["out"]["exc"], 0) + 1
        st = "none" if c["md"] is None else c["md"]["mode"]
        h["store"][st] = h["store"].get(st, 0) + 1
        kind = "assertion" if k == "ok" else ("error-response" if o["out"].get("via") == "error-response" else
                                              "MissingValue" if k == "missing" else "exception")
        if c["md"] is not None and c["entry"] in ("restrict", "apply", "server", "aa") and (
                c["md"]["sid"] is not None or sid_listed(c["md"]) != "-"):
            key = "req=%s%s listed=%s -> %s" % (c["md"]["sid"], "+more" if c["md"].get("sid_more") else "",
                                                sid_listed(c["md"]), kind)
            d = h["subject_id_req_x_own_listing_x_outcome"]
            d[key] = d.get(key, 0) + 1
        if c["entry"] == "aa":
            h["attribute_authority_outcome"][kind] = h["attribute_authority_outcome"].get(kind, 0) + 1
        elif c["entry"] == "server":
            key = "best_effort=%s -> %s" % (c["be"], kind)
            h["server_best_effort_x_outcome"][key] = h["server_best_effort_x_outcome"].get(key, 0) + 1
        elif c["entry"] != "foa":
            key = "fail_on_missing=%s -> %s" % (c.get("fo"), kind)
            h["fail_on_missing_arg_x_outcome"][key] = h["fail_on_missing_arg_x_outcome"].get(key, 0) + 1
        if c["md"] is None and any(s_ and s_["ecs"] for _, s_ in (c["pol"] or [])):
            key = "%s -> %s" % (c["entry"], kind if k != "ok" else
                                ("all" if len(c["ident"]) == len(o["out"]["ava"]) else
                                 "none" if not o["out"]["ava"] else "some"))
            h["nostore_with_entity_categories"][key] = h["nostore_with_entity_categories"].get(key, 0) + 1
        if k == "ok":
            n, m = len(c["ident"]), len(o["out"]["ava"])
            key = "all" if n == m else ("none" if m == 0 else "some")
            h["released_fraction"][key] = h["released_fraction"].get(key, 0) + 1
        h["str_valued_attrs"] += sum(1 for _, v in c["ident"] if isinstance(v, str))
        h["repeated_values"] += sum(1 for _, v in c["ident"] if not isinstance(v, str) and len(set(v)) < len(v))
        for _, s in (c["pol"] or []):
            if s and s["ecs"]:
                h["ec_sections"] += 1
            if s and s["ar"] and any(rs for _, rs in s["ar"]):
                h["regex_sections"] += 1
    return h
