"""C07 — receivers enforce request signatures and addressing.

Every case is a request rendered by the independent renderer, signed (enveloped through the xmlsec1
stand-in, detached with the `cryptography` library), encoded for a binding and handed to the real
entry point (Server.parse_authn_request / parse_attribute_query / parse_authn_query,
Entity.parse_logout_request / parse_manage_name_id_request) of a receiver built from a real
configuration.  Observed: the verdict (object returned / None / exception class).  Coq evaluates the
model C07.Model.parse_request on the abstract input and the boolean spec on the observed verdict."""
import base64
import copy
import json
import re
import zlib
from urllib.parse import urlencode

from harness import env, fixtures, render, spaccept, world
from harness.common import Raw, cq, cq_opt

PID = "C07"
PARALLEL = 6
CASE_TYPE = "C07.Corr.case"
RUNNER = "C07.Corr.run"
FINDING_CLASSES = {}
RULE = ("block sig: complete product receiver/request kind(8) x requirement(unset,False,True,cert-only)(4) x "
        "[Redirect x enveloped state(10) x detached state(16) | {POST,SOAP} x enveloped state(10) x detached{absent,valid,"
        "garbage}] with the remaining dimensions (issuer entity, only_use_keys_in_metadata, validate_certificate, skew, "
        "endpoint configuration, Destination, Version, IssueInstant) drawn mostly-valid from the seeded PRNG; quick tier: "
        "the kind x requirement x binding x enveloped x detached product is covered pairwise-completely (every pair of "
        "values of every two dimensions, greedy covering array) plus a seeded sample of the full product, thorough: the "
        "full product.  block addr: complete product endpoint configuration(8) x Destination class(13) x binding(3) and "
        "Version(7) x IssueInstant offset(15 incl. both window edges +-1 s, with fraction) x skew(4), each with all signature "
        "dimensions valid-as-required.  block key: issuer entity(7: one key, another key, two keys in both orders, known without signing key, "
        "unknown, none) x signer(4) x KeyInfo(2) x only_use_keys_in_metadata(2) x validate_certificate(2) x cert-only(2) x content "
        "altered(2).  block wire: binding(8 incl. unknown, None) x transport encoding(5) x kind mismatch; block schema: the "
        "five schema/instance validity shapes x signed/unsigned.  non-trivial = distinct (receiver, kind, binding, "
        "requirement, enveloped class, detached class, destination class, version, offset class, schema shape, verdict)")
def regenerate_tables(ctx):
    """Translator: Request._verify as it reads NOW -> coq/gen/C07Src.v; C07/Source.v proves it equal to the model's
    version / Destination tests (the result of issue_instant_ok() is a parameter)."""
    import os
    from harness import common, py2coq
    return py2coq.regenerate(os.path.join(common.GEN, "C07Src.v"), [
        (os.path.join(env.SRC, "saml2", "request.py"), "Request._verify",
         {"name": "src_request_verify", "params": ["self"], "extra_params": [("issue_instant_ok", "pyval")],
          "calls": {"self.issue_instant_ok": lambda a: "issue_instant_ok"}})])


TRUSTED = ["source-to-Gallina translator harness/py2coq.py + coq/theories/Base/Py.v (Request._verify is re-translated from the source "
           "text on every run; c07_source_request_verify proves it equal to the model)",
           "xmlsec1 stand-in (harness/standin/xmlsec1.py) for enveloped signatures; RSA PKCS#1 v1.5 via `cryptography` for "
           "detached ones", "renderer harness/render.py, metadata templates harness/world.py",
           "abstraction in harness/c07.py: fixture key pair / certificate <-> number, concrete text <-> (version, destination, "
           "issue instant, issuer, schema flags), exception class <-> verdict"]
ASSUMPTIONS = ["ideal signatures (hypotheses everify_spec / dverify_spec of C07/Proofs.v); real RSA runs in the correspondence",
               "IssueInstant is an xs:dateTime in UTC ('Z', optional fraction); other zone designators are rejected by "
               "valid_instance and appear only as the inst_ok=false shape",
               "xsd_ok / inst_ok (outcome of the XML-schema validation of the re-serialised element and of valid_instance) are "
               "inputs of the model; the harness supplies them from the shape it rendered",
               "single metadata source; which certificates metadata yields for an issuer is property C03",
               "base64 canonicity and percent-encoding of the detached signature are property C15"]

NOW = spaccept.NOW
REDIRECT, POST, SOAP = world.BINDING_HTTP_REDIRECT, world.BINDING_HTTP_POST, world.BINDING_SOAP
ARTIFACT, URI, PAOS = world.BINDING_HTTP_ARTIFACT, world.BINDING_URI, world.BINDING_PAOS
BINDINGS5 = [REDIRECT, POST, SOAP, ARTIFACT, URI]
SHORT = {REDIRECT: "redirect", POST: "post", SOAP: "soap", ARTIFACT: "artifact", URI: "uri", None: "post"}

SHA1 = "http://www.w3.org/2000/09/xmldsig#rsa-sha1"
SHA224 = "http://www.w3.org/2001/04/xmldsig-more#rsa-sha224"
SHA256 = "http://www.w3.org/2001/04/xmldsig-more#rsa-sha256"
SHA384 = "http://www.w3.org/2001/04/xmldsig-more#rsa-sha384"
SHA512 = "http://www.w3.org/2001/04/xmldsig-more#rsa-sha512"
DSA = "http://www.w3.org/2000/09/xmldsig#dsa-sha1"

KEYNUM = {"sp": 1, "attacker": 2, "other": 3, "idp2": 4}
E1, E2, E3, E4 = ("https://peer1.example.org/ent.xml", "https://peer2.example.org/ent.xml",
                  "https://peer3.example.org/ent.xml", "https://peer4.example.org/ent.xml")
E5 = "https://peer5.example.org/ent.xml"     # in metadata, but only with an encryption key: no signing certificate
EU = "https://unknown.example.org/ent.xml"
ISSUERS = {"E1": E1, "E2": E2, "E3": E3, "E4": E4, "E5": E5, "EU": EU, "none": None, "E1pad": " " + E1 + "\n"}
MD = {"E1": ["sp"], "E2": ["attacker"], "E3": ["attacker", "other"], "E4": ["other", "attacker"], "E5": []}

SERVICE = {"AuthnRequest": "single_sign_on_service", "LogoutRequest": "single_logout_service",
           "AttributeQuery": "attribute_service", "AuthnQuery": "authn_query_service",
           "ManageNameIDRequest": "manage_name_id_service"}
PASSES_DETACHED = {"AuthnRequest", "LogoutRequest"}
RK = [("idp", "AuthnRequest"), ("idp", "LogoutRequest"), ("idp", "AttributeQuery"), ("idp", "AuthnQuery"),
      ("idp", "ManageNameIDRequest"), ("sp", "LogoutRequest"), ("sp", "ManageNameIDRequest"), ("aa", "AttributeQuery")]
RECEIVER_HOST = {"idp": "https://idp.example.org", "sp": "https://sp.example.org", "aa": "https://idp.example.org"}

# ---------------------------------------------------------------------------- fixtures of this property
def cert_b64(keyname):
    return fixtures.cert_b64(keyname)


def entity_descriptor(eid, keynames):
    kd = ("<md:KeyDescriptor use=\"%s\"><ds:KeyInfo><ds:X509Data><ds:X509Certificate>%s</ds:X509Certificate>"
          "</ds:X509Data></ds:KeyInfo></md:KeyDescriptor>")
    kds = "".join(kd % ("signing", cert_b64(k)) for k in keynames) or kd % ("encryption", cert_b64("other"))
    host = eid.rsplit("/", 1)[0]
    return ("<md:EntityDescriptor %s entityID=\"%s\"><md:SPSSODescriptor protocolSupportEnumeration=\"%s\">%s%s%s"
            "</md:SPSSODescriptor></md:EntityDescriptor>" % (
                world.MD_NS, eid, world.PROTO, kds,
                world.endpoint("SingleLogoutService", SOAP, host + "/slo/soap"),
                world.endpoint("AssertionConsumerService", POST, host + "/acs/post", 1)))


def metadata_docs():
    return [world.default_idp_md(), world.default_other_md()] + [entity_descriptor(ISSUERS[e], MD[e]) for e in sorted(MD)]


# ---------------------------------------------------------------------------- endpoint configurations
def url(rcv, kind, what):
    return "%s/%s/%s" % (RECEIVER_HOST[rcv], SERVICE[kind], what)


def epl_for(rcv, kind, epcfg):
    """[(context, [endpoint spec])] for the service under test; spec = (url, binding) or bare url."""
    u = lambda w: url(rcv, kind, w)  # noqa: E731
    allb = lambda w: [(u(w) if w else u(SHORT[b]), b) for b in BINDINGS5]  # noqa: E731
    if epcfg == "default":
        return [(rcv, allb(None))]
    if epcfg == "bare":
        return [(rcv, [u("bare")])]
    if epcfg == "none":
        return []
    if epcfg == "two":
        return [(rcv, allb(None) + allb("second") + [u("bare")])]
    if epcfg == "otherb":
        return [(rcv, [(u("paos"), PAOS)])]
    if epcfg == "fallback":      # nothing usable in the own role: an idp falls back to aa, aq, pdp in that order
        return [("aa", [(u("paos"), PAOS)]), ("aq", allb("fb")), ("pdp", allb("pdp"))]
    if epcfg == "ownbare_fb":    # a bare own endpoint wins over a matching one of another role
        return [(rcv, [u("bare")]), ("aa" if rcv != "aa" else "aq", allb("fb"))]
    if epcfg == "foreign_role":  # only a role the receiver falls back to when it is an idp
        return [("pdp", allb("pdp"))]
    raise ValueError(epcfg)


EPCFGS = ["default", "bare", "none", "two", "otherb", "fallback", "ownbare_fb", "foreign_role"]


def dest_value(case):
    rcv, kind, b = case["rcv"], case["kind"], case["binding"]
    u = lambda w: url(rcv, kind, w)  # noqa: E731
    prim = u(SHORT.get(b, "post"))
    d = case["dest"]
    table = {
        "absent": None, "empty": "", "primary": prim,
        "otherbinding": u("soap") if SHORT.get(b, "post") != "soap" else u("post"),
        "second": u("second"), "bare": u("bare"), "fb": u("fb"), "pdp": u("pdp"), "paos": u("paos"),
        "foreign": "https://evil.example.com/%s/post" % SERVICE[kind],
        "longer": prim + "/x", "shorter": prim[:-1], "upper": prim.upper(), "padded": " " + prim,
    }
    return table[d]


DESTS = ["absent", "empty", "primary", "otherbinding", "second", "bare", "fb", "pdp", "paos", "foreign", "longer", "shorter",
         "upper", "padded"]

# ---------------------------------------------------------------------------- receivers
_rcv = {}
CONTEXTS = ("idp", "sp", "aa", "aq", "pdp")


def _build(rcv, vcert, only_md):
    """Security context, metadata and key material are built once per (receiver type, validate_certificate,
    only_use_keys_in_metadata); see configure() for the per-case settings."""
    common = {"metadata_xml": metadata_docs(), "only_use_keys_in_metadata": only_md}
    if vcert:
        common["validate_certificate"] = True
    if rcv in ("idp", "aa"):
        from saml2.config import IdPConfig
        from saml2.server import Server

        conf = world.idp_config(**common)
        base = conf["service"]["idp"]
        conf["service"] = {"idp": {"endpoints": {}, "policy": base["policy"], "name": "verif idp"}}
        if rcv == "aa":
            conf["service"]["aa"] = {"endpoints": {}, "policy": base["policy"]}
        c = IdPConfig()
        c.load(copy.deepcopy(conf))
        return Server(config=c, stype=rcv)
    from saml2.client import Saml2Client
    from saml2.config import SPConfig

    conf = world.sp_config(**common)
    conf["service"] = {"sp": {"endpoints": {}, "idp": [world.IDP_ID]}}
    c = SPConfig()
    c.load(copy.deepcopy(conf))
    return Saml2Client(config=c)


def configure(r, case):
    """Per-case configuration: every service section goes through Config.load_special (the loader
    Config.load uses for service sections, incl. its "true"/"false" conversion); accepted_time_diff is
    set the way Config.load sets common arguments."""
    cfg = r.config
    for ctx in CONTEXTS:
        cfg.setattr(ctx, "endpoints", None)
    cfg.setattr("idp", "want_authn_requests_signed", None)
    cfg.setattr("idp", "want_authn_requests_only_with_valid_cert", None)
    sections = {}
    for ctx, specs in epl_for(case["rcv"], case["kind"], case["epcfg"]):
        sections.setdefault(ctx, {"endpoints": {}})["endpoints"][SERVICE[case["kind"]]] = [
            tuple(s) if isinstance(s, (tuple, list)) else s for s in specs]
    if case["must"] is not None:
        sections.setdefault("idp", {})["want_authn_requests_signed"] = case["must"]
    if case["ovc"] is not None:
        sections.setdefault("idp", {})["want_authn_requests_only_with_valid_cert"] = case["ovc"]
    for ctx in sorted(sections):
        cfg.load_special(copy.deepcopy(sections[ctx]), ctx)
    cfg.accepted_time_diff = case["slack"]


def receiver(case):
    env.install_standin()
    spaccept.CLOCK.install()
    speedups()
    key = (case["rcv"], bool(case["vcert"]), bool(case["only_md"]))
    r = _rcv.get(key)
    if r is None:
        r = _rcv[key] = _build(*key)
    configure(r, case)
    return r


# ---------------------------------------------------------------------------- rendering one case
HASHES = None


def _hashes():
    global HASHES
    if HASHES is None:
        from cryptography.hazmat.primitives import hashes

        HASHES = {SHA1: hashes.SHA1, SHA224: hashes.SHA224, SHA256: hashes.SHA256, SHA384: hashes.SHA384,
                  SHA512: hashes.SHA512}
    return HASHES


_keys = {}


def private_key(path):
    """loading (and validating) an RSA private key costs ~50 ms: load each fixture key once per process"""
    k = _keys.get(path)
    if k is None:
        from cryptography.hazmat.primitives import serialization

        with open(path, "rb") as f:
            k = _keys[path] = serialization.load_pem_private_key(f.read(), password=None)
    return k


def speedups():
    """the stand-in reloads the signing key on every call; give it the same per-process cache (pure function of the file)"""
    m = env.standin()
    if getattr(m, "_c07_cached", False) is False:
        m._load_privkey = private_key
        m._c07_cached = True


def detached(keyname, enc, rs, sa):
    """RSA PKCS#1 v1.5 over SAMLRequest=..[&RelayState=..]&SigAlg=.. ; the digest is the one `sa` names
    (SHA-256 for a SigAlg the table does not have)."""
    from cryptography.hazmat.primitives.asymmetric import padding

    parts = [urlencode({"SAMLRequest": enc})]
    if rs is not None:
        parts.append(urlencode({"RelayState": rs}))
    parts.append(urlencode({"SigAlg": sa}))
    octets = "&".join(parts).encode("ascii")
    key = private_key(fixtures.key_path(keyname))
    h = _hashes().get(sa, _hashes()[SHA256])
    return base64.b64encode(key.sign(octets, padding.PKCS1v15(), h())).decode("ascii")


def issue_instant(case):
    sch = case["schema"]
    t = NOW + case["offset"]
    if sch == "tz":
        return env.iso(t)[:-1] + "+00:00"
    if sch == "garbage":
        return "yesterday"
    return env.iso(t, case.get("frac"))


def render_xml(case, tweak=False):
    """The request element; tweak=True renders a different document (for 'signature over another message')."""
    kind = case["actual"] or case["kind"]
    q = {"id": "q-1", "version": case["version"], "issue_instant": issue_instant(case),
         "destination": dest_value(case), "issuer": ISSUERS[case["issuer"]]}
    if kind == "AuthnRequest":
        q.update(acs_url="https://peer.example.org/acs/" + ("other" if tweak else "post"), protocol_binding=POST)
    else:
        q["name_id"] = "subject-9" if tweak else "subject-1"
    e = case["env"]
    if e:
        tr = (render.ENVELOPED, render.EXC_C14N)
        c14n = render.EXC_C14N
        if e["shape"] == "transforms3":
            tr = (render.ENVELOPED, render.EXC_C14N, render.EXC_C14N)
        if e["shape"] == "c14n":
            c14n = "http://www.w3.org/TR/2001/REC-xml-c14n-20010315"
        ki = ""
        if e["ki"]:
            ki = ("<ds:KeyInfo><ds:X509Data><ds:X509Certificate>%s</ds:X509Certificate></ds:X509Data></ds:KeyInfo>"
                  % cert_b64(e["signer"]))
        q["sig_template"] = render.signature_template("q-1", None, c14n=c14n, transforms=tr, extra_children=ki)
    xml = render.request(kind, q)
    if case["schema"] == "extra":
        xml = xml.replace(" ID=", ' foo="bar" ID=', 1)
    if e:
        xml = render.sign_xml(xml, e["signer"], render.ELEM[kind], "q-1")
        if e["state"] == "tamper":
            if kind == "AuthnRequest":
                xml = render.tamper_text(xml, "acs/", "acz/")
            else:
                xml = render.tamper_text(xml, "subject-", "subjekt-")
        elif e["state"] == "sigvalue":
            xml = render.corrupt_signature_value(xml)
        if e["shape"] == "object":
            # the stand-in re-serialises with whatever prefixes ElementTree has registered
            m = re.search(r"</((?:[\w.-]+:)?)Signature>", xml)
            obj = "<%sObject>x</%sObject>" % (m.group(1), m.group(1))
            xml = xml[:m.start()] + obj + xml[m.start():]
    return xml


def proper_wire(binding):
    return {REDIRECT: "deflate", POST: "base64", SOAP: "soap", ARTIFACT: "base64", URI: "xml", None: "xml"}.get(binding, "base64")


def encode(xml, wire):
    if wire == "deflate":
        return render.deflate_b64(xml)
    if wire == "base64":
        return render.b64(xml)
    if wire == "soap":
        return render.soap_envelope(xml)
    if wire == "xml":
        return xml
    if wire == "notb64":
        return "A"
    raise ValueError(wire)


VERDICT = {"Accept": 0, "UnknownBinding": 1, "UnravelError": 2, "IncorrectlySigned": 3, "NotValid": 4,
           "VersionMismatch": 5, "OtherError": 6, "Stale": 7}


def observe(case):
    rcv = receiver(case)
    wire = case["wire"] or proper_wire(case["binding"])
    xml = render_xml(case)
    enc = encode(xml, wire)
    d = case["det"]
    kw = {}
    passed = {"rs": None, "sa": None, "sg": None}
    if d:
        signed_doc = enc if not d["otherdoc"] else encode(render_xml(case, tweak=True), wire)
        if d["signer"] == "garbage":
            sg = "!!not base64!!"
        elif d["signer"] == "garbage2":
            sg = base64.b64encode(b"\x01" * 256).decode()
        else:
            sg = detached(d["signer"], signed_doc, d["rs_signed"], d["sa_signed"])
        passed = {"rs": d["rs"], "sa": d["sa"], "sg": sg if d["pass_sig"] else None}
        if case["kind"] in PASSES_DETACHED:
            kw = {"relay_state": d["rs"], "sigalg": d["sa"], "signature": passed["sg"]}
    kind, b = case["kind"], case["binding"]
    fn = {"AuthnRequest": "parse_authn_request", "LogoutRequest": "parse_logout_request",
          "AttributeQuery": "parse_attribute_query", "AuthnQuery": "parse_authn_query",
          "ManageNameIDRequest": "parse_manage_name_id_request"}[kind]
    exc = None
    try:
        res = getattr(rcv, fn)(enc, b, **kw)
        if res is None:
            v = "Stale"
        elif getattr(res, "message", None) is not None:
            v = "Accept"
        else:
            v = "EmptyObject"
    except Exception as e:  # noqa
        from saml2.validate import NotValid

        exc = type(e).__name__
        # valid_instance raises NotValid or (required attribute missing) MustValueError
        v = "NotValid" if isinstance(e, NotValid) or exc == "MustValueError" else exc
    return {"verdict": v, "code": VERDICT.get(v, 99), "exc": exc}


# ---------------------------------------------------------------------------- abstraction -> Coq
def abstract_xsd_inst(case):
    sch = case["schema"]
    xsd = sch not in ("extra", "garbage")
    inst = sch not in ("tz", "garbage")
    return xsd, inst


BINDING_CONST = {REDIRECT: "BINDING_HTTP_REDIRECT", POST: "BINDING_HTTP_POST", SOAP: "BINDING_SOAP", URI: "BINDING_URI",
                 ARTIFACT: "BINDING_HTTP_ARTIFACT"}
ALG_CONST = {SHA1: "c07_sha1", SHA256: "c07_sha256", DSA: "c07_dsa"}


def cqb(b):
    """binding -> Coq term (constants of C07.Model where they exist)"""
    return Raw(BINDING_CONST[b]) if b in BINDING_CONST else cq(b)


def cqa(a):
    return Raw(ALG_CONST[a]) if a in ALG_CONST else cq(a)


def opt(term):
    return "None" if term is None else "(Some %s)" % term


def epl_name(rcv, kind, epcfg):
    return "c07_ep_%s_%s_%s" % (rcv, kind, epcfg)


def coq_epl(rcv, kind, epcfg):
    out = []
    for ctx, specs in epl_for(rcv, kind, epcfg):
        sp = [Raw("(EP %s %s)" % (cq(s[0]), cqb(s[1]))) if isinstance(s, (tuple, list)) else Raw("(Bare %s)" % cq(s))
              for s in specs]
        out.append(Raw("(%s, %s, %s)" % (cq(ctx), cq(SERVICE[kind]), cq(sp))))
    return cq(out)


def preamble():
    """constant tables of the cases (endpoint configurations, metadata, algorithm URIs), defined once per case file"""
    lines = ["Import ListNotations.", "Open Scope string_scope."]
    for a, n in sorted(ALG_CONST.items(), key=lambda t: t[1]):
        lines.append("Definition %s := %s." % (n, cq(a)))
    mdl = [Raw("(%s, %s)" % (cq(ISSUERS[e]), cq([nat(KEYNUM[k]) for k in MD[e]]))) for e in sorted(MD)]
    lines.append("Definition c07_md : list (string * list nat) := %s." % cq(mdl))
    for rcv, kind in RK:
        for epcfg in EPCFGS:
            lines.append("Definition %s : list (string * string * list epspec) := %s." % (
                epl_name(rcv, kind, epcfg), coq_epl(rcv, kind, epcfg)))
    return "\n".join(lines)


def nat(n):
    return Raw("%d%%nat" % n)


def coq_case(case, obs):
    # CertHandler.verify_cert: returns True when validate_certificate is off; when it is on (and no
    # certificate generation is configured, which cannot be on Python 3) it raises AttributeError for every
    # certificate (finding C07-F1): no certificate passes
    valid = "None" if not case["vcert"] else "(Some [])"
    xsd, inst = abstract_xsd_inst(case)
    e = case["env"]
    if e:
        envs = "(Some (%s, %s, %s, %s))" % (nat(KEYNUM[e["signer"]]), cq(e["state"] != "ok"), cq(e["shape"] == "ok"),
                                          cq([nat(KEYNUM[e["signer"]])] if e["ki"] else []))
    else:
        envs = "None"
    d = case["det"]
    rs = sa = sg = "None"
    if d:
        rs, sa = cq_opt(d["rs"]), opt(cqa(d["sa"]) if d["sa"] is not None else None)
        if not d["pass_sig"]:
            sg = "None"
        elif d["signer"] in ("garbage", "garbage2"):
            sg = "(Some None)"
        else:
            sg = "(Some (Some (%s, %s, %s, %s)))" % (nat(KEYNUM[d["signer"]]), cq(bool(d["otherdoc"])), cq_opt(d["rs_signed"]),
                                                     cqa(d["sa_signed"]))
    wire = {"deflate": "WDeflate", "base64": "WBase64", "soap": "WSoap", "xml": "WXml", "notb64": "WNotB64"}[
        case["wire"] or proper_wire(case["binding"])]
    issuer = ISSUERS[case["issuer"]]
    return "C07.Corr.mk %s %s %s %s %s %s c07_md %s %s %s %s %s %s %s %s %s %s %s %s %s %s %s %s %s" % (
        cq(case["rcv"]), epl_name(case["rcv"], case["kind"], case["epcfg"]), cq_opt(_b(case["must"])), cq_opt(_b(case["ovc"])),
        cq_opt(case["slack"]), cq(bool(case["only_md"])), valid, cq(NOW), case["kind"],
        opt(cqb(case["binding"]) if case["binding"] is not None else None), wire, case["actual"] or case["kind"],
        cq(case["version"]), cq_opt(dest_value(case)), cq(NOW + case["offset"]), cq_opt(issuer if issuer else None),
        cq(xsd), cq(inst), envs, rs, sa, sg, nat(obs["code"]))


def _b(v):
    """configuration value -> what load_special stores"""
    if v == "true":
        return True
    if v == "false":
        return False
    return v


# ---------------------------------------------------------------------------- generation
def issuer_key(issuer, which=0):
    ks = MD.get(issuer.replace("pad", "")) or ["sp"]
    return ks[min(which, len(ks) - 1)]


def env_state(name, issuer):
    """named enveloped-signature states relative to the issuer's metadata"""
    k = issuer_key(issuer)
    foreign = "other" if "other" not in MD.get(issuer.replace("pad", ""), []) else "sp"
    t = {
        "absent": None,
        "valid": {"signer": k, "state": "ok", "shape": "ok", "ki": False},
        "valid_ki": {"signer": k, "state": "ok", "shape": "ok", "ki": True},
        "tamper": {"signer": k, "state": "tamper", "shape": "ok", "ki": False},
        "sigvalue": {"signer": k, "state": "sigvalue", "shape": "ok", "ki": True},
        "untrusted": {"signer": "idp2", "state": "ok", "shape": "ok", "ki": False},
        "untrusted_ki": {"signer": "idp2", "state": "ok", "shape": "ok", "ki": True},
        "otherent": {"signer": foreign, "state": "ok", "shape": "ok", "ki": True},
        "object": {"signer": k, "state": "ok", "shape": "object", "ki": False},
        "transforms3": {"signer": k, "state": "ok", "shape": "transforms3", "ki": False},
    }
    return t[name]


ENVS = ["absent", "valid", "valid_ki", "tamper", "sigvalue", "untrusted", "untrusted_ki", "otherent", "object", "transforms3"]


def det_state(name, issuer):
    k = issuer_key(issuer)
    foreign = "other" if "other" not in MD.get(issuer.replace("pad", ""), []) else "sp"
    good = {"signer": k, "otherdoc": False, "rs_signed": "rs-1", "sa_signed": SHA256, "rs": "rs-1", "sa": SHA256,
            "pass_sig": True}
    t = {
        "absent": None,
        "valid": {},
        "valid_norelay": {"rs_signed": None, "rs": None},
        "valid_sha1": {"sa_signed": SHA1, "sa": SHA1},
        "altmsg": {"otherdoc": True},
        "altrelay": {"rs": "rs-2"},
        "droprelay": {"rs": None},
        "addrelay": {"rs_signed": None, "rs": ""},
        "altsigalg": {"sa": SHA1},
        "unsupported": {"sa_signed": DSA, "sa": DSA},
        "garbage": {"signer": "garbage"},
        "garbage2": {"signer": "garbage2"},
        "otherkey": {"signer": "idp2"},
        "otherent": {"signer": foreign},
        "nosig": {"pass_sig": False},
        "nosigalg": {"sa": None},
    }
    if t[name] is None:
        return None
    g = dict(good)
    g.update(t[name])
    return g


DETS = ["absent", "valid", "valid_norelay", "valid_sha1", "altmsg", "altrelay", "droprelay", "addrelay", "altsigalg",
        "unsupported", "garbage", "garbage2", "otherkey", "otherent", "nosig", "nosigalg"]
DETS_SHORT = ["absent", "valid", "garbage"]
REQS = [(None, None), (False, None), (True, None), (None, True)]      # (want_authn_requests_signed, only_valid_cert)
VERSIONS = ["2.0", "1.1", "2.1", "2", "2.0 ", "", "1.0"]
SLACKS = [None, 0, 180, -60]


def offsets(slack):
    s = slack or 0
    w = 86400 + s
    return [0, 3600, -3600, w - 1, w, w + 1, -(w - 1), -w, -(w + 1), 86400, -86400, 10 ** 7, -10 ** 7]


def base(rng=None, **over):
    c = {"rcv": "idp", "kind": "AuthnRequest", "actual": None, "binding": POST, "wire": None, "must": None, "ovc": None,
         "vcert": False, "only_md": True, "slack": None, "epcfg": "default", "issuer": "E1", "env": None, "det": None,
         "envname": "absent", "detname": "absent", "dest": "primary", "version": "2.0", "offset": 0, "frac": None,
         "schema": "ok", "tag": "base"}
    c.update(over)
    return c


def signed_as_required(c):
    """make the signature dimensions valid for the requirement of case c (in place)"""
    req = c["must"] in (True, "true") or c["ovc"] in (True, "true")
    c["envname"], c["detname"] = "absent", "absent"
    if req and c["binding"] == REDIRECT:
        c["detname"] = "valid"
    elif req:
        c["envname"] = "valid"
    c["env"] = env_state(c["envname"], c["issuer"])
    c["det"] = det_state(c["detname"], c["issuer"])
    return c


def fill_mostly_valid(c, rng, p=0.75):
    """other dimensions: valid with probability p, otherwise any value"""
    pick = lambda good, alln: good if rng.random() < p else rng.choice(alln)  # noqa: E731
    c["issuer"] = pick("E1", ["E1", "E2", "E3", "E4", "E1pad", "E5", "EU"])
    c["only_md"] = pick(True, [True, False])
    c["vcert"] = False
    c["slack"] = pick(None, SLACKS)
    c["epcfg"] = pick("default", EPCFGS)
    c["dest"] = pick("primary", DESTS)
    c["version"] = pick("2.0", VERSIONS)
    c["offset"] = pick(0, offsets(c["slack"]))
    return c


def pairwise(dims, rng, tries=40):
    """greedy covering array: rows over dims (dict name -> values) covering every pair of values of every two dimensions"""
    names = sorted(dims)
    uncovered = set()
    for i, a in enumerate(names):
        for b in names[i + 1:]:
            for va in range(len(dims[a])):
                for vb in range(len(dims[b])):
                    uncovered.add((a, va, b, vb))
    rows = []
    while uncovered:
        best, bestn = None, -1
        seed_pair = next(iter(sorted(uncovered)))
        for _ in range(tries):
            row = {n: rng.randrange(len(dims[n])) for n in names}
            row[seed_pair[0]], row[seed_pair[2]] = seed_pair[1], seed_pair[3]
            n = sum(1 for i, a in enumerate(names) for b in names[i + 1:] if (a, row[a], b, row[b]) in uncovered)
            if n > bestn:
                best, bestn = row, n
        for i, a in enumerate(names):
            for b in names[i + 1:]:
                uncovered.discard((a, best[a], b, best[b]))
        rows.append({n: dims[n][best[n]] for n in names})
    return rows


def sig_case(rng, rk, req, binding, envname, detname, tag):
    c = base(rcv=rk[0], kind=rk[1], binding=binding, must=req[0], ovc=req[1], tag=tag)
    fill_mostly_valid(c, rng)
    c["envname"], c["detname"] = envname, detname
    c["env"] = env_state(envname, c["issuer"])
    c["det"] = det_state(detname, c["issuer"])
    return c


def generate(ctx):
    rng = ctx.rng
    cases = []
    # ---- block sig
    full = []
    for rk in RK:
        for req in REQS:
            for envname in ENVS:
                for detname in DETS:
                    full.append((rk, req, REDIRECT, envname, detname))
                for b in (POST, SOAP):
                    for detname in DETS_SHORT:
                        full.append((rk, req, b, envname, detname))
    if ctx.thorough:
        for t in full:
            cases.append(sig_case(rng, *t, tag="sig"))
    else:
        rows = pairwise({"rk": RK, "req": REQS, "env": ENVS, "det": DETS, "binding": [REDIRECT, POST, SOAP]}, rng)
        for r in rows:
            cases.append(sig_case(rng, r["rk"], r["req"], r["binding"], r["env"], r["det"], "sig-pair"))
        # all other dimensions valid: the signature dimensions alone decide (AuthnRequest + LogoutRequest at the idp, complete)
        for rk in RK[:2]:
            for req in REQS:
                for envname in ENVS:
                    for detname in DETS:
                        c = base(rcv=rk[0], kind=rk[1], binding=REDIRECT, must=req[0], ovc=req[1], tag="sig-core",
                                 envname=envname, detname=detname)
                        c["env"], c["det"] = env_state(envname, "E1"), det_state(detname, "E1")
                        cases.append(c)
                    for b in (POST, SOAP):
                        c = base(rcv=rk[0], kind=rk[1], binding=b, must=req[0], ovc=req[1], tag="sig-core", envname=envname)
                        c["env"] = env_state(envname, "E1")
                        cases.append(c)
        for t in rng.sample(full, 500):
            cases.append(sig_case(rng, *t, tag="sig"))
    # ---- block addr: endpoint configuration x Destination x binding ; Version x IssueInstant x skew
    for rk in (RK if ctx.thorough else [RK[0], RK[2], RK[5], RK[7]]):
        for epcfg in EPCFGS:
            for dest in DESTS:
                for b in (REDIRECT, POST, SOAP):
                    req = rng.choice(REQS)
                    c = base(rcv=rk[0], kind=rk[1], binding=b, epcfg=epcfg, dest=dest, must=req[0], ovc=req[1], tag="addr")
                    cases.append(signed_as_required(c))
    for slack in SLACKS:
        for off in offsets(slack) + [86399 + (slack or 0)]:
            for ver in (VERSIONS if ctx.thorough else ["2.0", rng.choice(VERSIONS[1:])]):
                rk = rng.choice(RK)
                req = rng.choice(REQS)
                c = base(rcv=rk[0], kind=rk[1], binding=rng.choice([REDIRECT, POST, SOAP]), slack=slack, offset=off,
                         version=ver, must=req[0], ovc=req[1], tag="time")
                if off == 86399 + (slack or 0):
                    c["frac"] = "999"
                cases.append(signed_as_required(c))
    for ver in VERSIONS:
        for rk in RK:
            for signed in (False, True):
                c = base(rcv=rk[0], kind=rk[1], binding=POST, version=ver, tag="version")
                if signed:
                    c["envname"], c["env"] = "valid", env_state("valid", "E1")
                cases.append(c)
    # ---- block key: whose key, which certificate, opt-ins
    for issuer in ["E1", "E2", "E3", "E4", "E5", "EU", "none"]:
        for signer in ["sp", "attacker", "other", "idp2"]:
            for ki in (False, True):
                for only_md in (True, False):
                    for vcert in (False, True):
                        for ovc in (None, True):
                            for state in ("ok", "tamper"):
                                if not ctx.thorough and rng.random() > 0.45:
                                    continue
                                c = base(issuer=issuer, only_md=only_md, vcert=vcert, ovc=ovc, must=rng.choice([None, True]),
                                         binding=rng.choice([POST, SOAP, REDIRECT]), tag="key", envname="key")
                                c["env"] = {"signer": signer, "state": state, "shape": "ok", "ki": ki}
                                cases.append(c)
    for issuer in ["E1", "E2", "E3", "E4", "E5", "EU", "none", "E1pad"]:
        for signer in ["sp", "attacker", "other", "idp2"]:
            for vcert in (False, True):
                c = base(issuer=issuer, vcert=vcert, must=True, binding=REDIRECT, tag="key-det", detname="key")
                c["det"] = det_state("valid", "E1")
                c["det"]["signer"] = signer
                cases.append(c)
    # ---- block wire: binding x transport encoding x kind mismatch
    for b in [REDIRECT, POST, SOAP, ARTIFACT, URI, None, PAOS, "urn:example:binding"]:
        for wire in ["deflate", "base64", "soap", "xml", "notb64"]:
            if b in (POST, ARTIFACT) and wire in ("xml", "soap"):
                continue      # outcome depends on the bytes (see Model.unravel); not part of the correspondence
            for actual in (None, "LogoutRequest"):
                for must in (None, True):
                    c = base(binding=b, wire=wire, actual=actual, must=must, tag="wire", dest=rng.choice(["primary", "absent"]))
                    signed_as_required(c)
                    cases.append(c)
    for rk in RK:
        for b in (POST, SOAP, REDIRECT):
            other = "AuthnRequest" if rk[1] != "AuthnRequest" else "AttributeQuery"
            c = base(rcv=rk[0], kind=rk[1], binding=b, actual=other, tag="kind")
            cases.append(c)
    for b in (None, URI, ARTIFACT):
        for dest in DESTS:
            c = base(binding=b, dest=dest, epcfg=rng.choice(["default", "two"]), tag="wire-dest")
            cases.append(c)
    # ---- block schema: validity shapes x signed/unsigned x requirement
    for sch in ["ok", "extra", "tz", "garbage"]:
        for envname in ("absent", "valid", "tamper"):
            for must in (None, True):
                for b in (POST, REDIRECT):
                    c = base(schema=sch, must=must, binding=b, tag="schema", envname=envname)
                    c["env"] = env_state(envname, "E1")
                    if must and b == REDIRECT:
                        c["detname"], c["det"] = "valid", det_state("valid", "E1")
                    cases.append(c)
    # ---- configuration spellings
    for must in ("true", "false"):
        for ovc in (None, "true", "false", False):
            for envname in ("absent", "valid"):
                c = base(must=must, ovc=ovc, tag="spelling", envname=envname)
                c["env"] = env_state(envname, "E1")
                cases.append(c)
    # ---- seeded random over everything
    for _ in range(12000 if ctx.thorough else 300):
        rk = rng.choice(RK)
        req = rng.choice(REQS)
        c = sig_case(rng, rk, req, rng.choice([REDIRECT, POST, SOAP]), rng.choice(ENVS), rng.choice(DETS), "random")
        fill_mostly_valid(c, rng, p=0.5)
        c["vcert"] = rng.random() < 0.2
        c["env"] = env_state(c["envname"], c["issuer"])
        c["det"] = det_state(c["detname"], c["issuer"])
        cases.append(c)
    return cases


# ---------------------------------------------------------------------------- evidence helpers
def offset_class(case):
    w = 86400 + (case["slack"] or 0)
    o = case["offset"]
    if abs(o) == w:
        return "edge+" if o > 0 else "edge-"
    if abs(o) < w:
        return "near-edge" if abs(o) >= w - 1 else "inside"
    return "just-outside" if abs(o) == w + 1 else "outside"


def nontrivial(case, obs):
    req = "cert-only" if case["ovc"] in (True, "true") else ("required" if case["must"] in (True, "true") else "optional")
    key = (case["rcv"], case["kind"], str(case["binding"]), req, case["envname"], case["detname"], case["dest"],
           case["epcfg"], case["version"], offset_class(case), case["schema"], case["wire"], case["actual"], obs["verdict"])
    trivial = (req == "optional" and case["envname"] == "absent" and case["detname"] == "absent" and case["dest"] == "primary"
               and case["version"] == "2.0" and case["offset"] == 0 and case["schema"] == "ok" and not case["wire"]
               and not case["actual"] and case["epcfg"] == "default")
    return None if trivial else key


def histogram(cases, observed):
    h = {"by_tag": {}, "verdict": {}, "kind": {}, "binding": {}, "requirement": {}, "enveloped": {}, "detached": {},
         "destination": {}, "version": {}, "offset": {}, "epcfg": {}, "issuer": {}, "unexpected_exceptions": {}}

    def inc(d, k):
        d[str(k)] = d.get(str(k), 0) + 1

    for c, o in zip(cases, observed):
        inc(h["by_tag"], c["tag"])
        inc(h["verdict"], o["verdict"])
        inc(h["kind"], c["rcv"] + ":" + c["kind"])
        inc(h["binding"], SHORT.get(c["binding"], c["binding"]) if c["binding"] else "None")
        inc(h["requirement"], "%s/%s" % (c["must"], c["ovc"]))
        inc(h["enveloped"], c["envname"])
        inc(h["detached"], c["detname"])
        inc(h["destination"], c["dest"])
        inc(h["version"], repr(c["version"]))
        inc(h["offset"], offset_class(c))
        inc(h["epcfg"], c["epcfg"])
        inc(h["issuer"], c["issuer"])
        if o["code"] == 99:
            inc(h["unexpected_exceptions"], o["verdict"])
    return h


def explain_term(t):
    return "C07.Corr.explain (%s)" % t


IMPORTS = "From Verif Require Import C07.Model C07.Spec C07.Corr.\n" + preamble()
