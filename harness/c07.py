"""C07 — receivers enforce request signatures and addressing.

Every case is a request rendered by the independent renderer, signed (enveloped through the xmlsec1
stand-in, detached with the `cryptography` library), encoded for a binding and handed to the real
entry point (Server.parse_authn_request / parse_attribute_query / parse_authn_query,
Entity.parse_logout_request / parse_manage_name_id_request) of a receiver built from a real
configuration.  Observed: the verdict (object returned / None / exception class).  Coq evaluates the
model C07.Model.parse_request on the abstract input and the boolean spec on the observed verdict."""
import ast
import base64
import copy
import json
import re
import zlib
from urllib.parse import urlencode

from harness import env, fixtures, render, spaccept, world
from harness.common import Raw, cq, cq_opt

PID = "C07"
PARALLEL = 12
SHARD = 800      # cases per Coq file: every file elaborates the constant tables of the preamble once, and 16 files run at a time
CASE_TYPE = "C07.Corr.tcase"
RUNNER = "C07.Corr.run"
FINDING_CLASSES = {2: "C07-F2"}
RULE = ("block sig: complete product receiver/request class(11: every class of request.SERVICE2REQUEST at its entry point) x "
        "requirement(unset,False,True,cert-only)(4) x [Redirect x enveloped state(10) x detached state(16) | {POST,SOAP} x "
        "enveloped state(10) x detached{absent,valid,garbage}] with the remaining dimensions (issuer entity, "
        "only_use_keys_in_metadata, validate_certificate, skew, endpoint configuration, Destination, Version, IssueInstant) "
        "drawn mostly-valid from the seeded PRNG; quick tier: pairwise-complete covering array of the five dimensions + the "
        "COMPLETE product with all other dimensions valid (every class x requirement x enveloped state x {POST, SOAP}; on "
        "Redirect x all 16 detached states for the classes whose entry point takes them, x {absent, valid, garbage} for the "
        "others) + a seeded sample of the full product; thorough: the full product.  block addr: complete product endpoint "
        "configuration(8) x Destination class(14) x binding(3) and Version(7) x IssueInstant offset(15 incl. both window edges "
        "+-1 s, with fraction) x skew(4), each with all signature dimensions valid-as-required; every (skew, offset) also in "
        "four process time zones (TZ=JST-9, EST5, UTC0, a half-hour zone with DST; time.tzset() around the call).  block key: "
        "issuer entity(7) x signer(4) x KeyInfo(2) x only_use_keys_in_metadata(2) x validate_certificate(2) x cert-only(2) x "
        "content altered(2).  block wire: binding(8 incl. unknown, None) x transport encoding(5) x kind mismatch; block "
        "schema: validity shapes x signed/unsigned.  block sigalg: SigAlg as RECEIVED (5 supported + 17 that name nothing "
        "verifiable: DSA / ECDSA / RSA-MD5 / RSA-RIPEMD160 / RSA-PSS / HMAC identifiers, a digest and a c14n identifier, a "
        "supported identifier in upper case / with blanks / fragment only / https, 'none', 'None', '0', '') x Signature value "
        "(made with the sender's metadata key over exactly what is received | made under another SigAlg that was then "
        "replaced | other key | other message | 256 octets of nothing | 'AAAA' | no base64 | '') x entry point that takes a "
        "detached signature(3; complete for AuthnRequest at the IdP) x requirement (True; certificate-only; spelled as a text "
        "and loaded with the whole configuration; not required) x RelayState present / absent.  block instant: how "
        "IssueInstant is WRITTEN: zone designator(23: Z, none, z, +-00:00, +-01:00, +05:30, -03:30, +-13:59, +-14:00, beyond "
        "14:00 up to +-99:00, minutes 60, no colon, hours only, 'UTC', offset followed by Z) x instants placed so that the "
        "INSTANT and the WRITTEN date and time fall on the same / on different sides of either window edge (instant now, on / "
        "next to either edge, 36 h off; written time on / next to either edge) x skew(2), with receiver / class(11), binding, "
        "requirement (signed as required), fraction of a second (none, digits, a bare '.') and process time zone rotating; "
        "zone spellings also in 20 % of the random requests.  block lives (a case = the life of a process, observed in a process of "
        "its own): metadata generations G0..G6 (requester's key rolled over / both keys in either order / signing key "
        "withdrawn / entity removed / old key given to another entity); (1) roll-over on one long-lived receiver, for every "
        "signature path(8) x generation pair: probe every signer(3), reload (Entity.reload_metadata | MetadataStore.reload), "
        "probe, failed reload, probe, reload back, probe; (2) two receiver objects with different metadata in one process, "
        "probes interleaved, each reloaded in turn; (3) embedded-certificate fallback across reloads; (4) two receivers with "
        "different requirement / endpoints, both orders; (5) seeded random walks over 1-3 receivers of any type: any request, "
        "reloads, failed reloads, time zones; (6) receivers BUILT with the requirement in their configuration (every spelling "
        "that says yes + some that do not, through <Role>Config.load | config_factory | Config().load), next to one built "
        "without: unsigned + every signer, reload, again.  block spelling (the requirement AS WRITTEN): 49 spellings of an "
        "option value (absent, None, True/False, 1/0/2/-1, true/false/yes/no/on/off/1/0 in several capitalisations and with "
        "blanks, '', ' ', texts that say neither) (A) as want_authn_requests_signed x signature path(5; thorough: all 33) x "
        "{unsigned, signed as required, signature that does not verify}, (B) as want_authn_requests_only_with_valid_cert x "
        "want_authn_requests_signed x enveloped {absent, valid, altered, untrusted key} on POST/SOAP and detached {absent, "
        "valid} x enveloped {absent, altered} on Redirect; the loading route (load_special on the live Config | whole dict "
        "through <Role>Config.load | config_factory | Config().load) rotates; 40 % of the random requests and the random "
        "walks draw spellings and routes too; what Config.getattr answers for both options after loading is observed and "
        "compared with Model.load_special_val.  non-trivial = distinct (spelling of both options, loading route, receiver, class, binding, requirement, enveloped "
        "class, detached class, signer, destination class, version, offset class, time zone, schema shape, verdict); a life "
        "counts when it has a change of state or a second receiver, distinct by its sequence of (operation, request key, verdict)")


def regenerate_tables(ctx):
    """Translators.  v1: Request._verify as it reads NOW -> coq/gen/C07Src.v; C07/Source.v proves it equal to the model's
    version / Destination tests (the result of issue_instant_ok() is a parameter).  v2: Request.sender,
    Request._do_redirect_sig_check, SecurityContext.correctly_signed_message, Entity._parse_request -> coq/gen/C07Src2.v and
    Request._loads -> coq/gen/C07Src2l.v; C07/Source2.v proves each equal to the model function it mirrors."""
    import os
    from harness import common, py2coq, py2coq2
    v1 = py2coq.regenerate(os.path.join(common.GEN, "C07Src.v"), [
        (os.path.join(env.SRC, "saml2", "request.py"), "Request._verify",
         {"name": "src_request_verify", "params": ["self"], "extra_params": [("issue_instant_ok", "pyval")],
          "calls": {"self.issue_instant_ok": lambda a: "issue_instant_ok"}})])
    v2 = py2coq2.regenerate(os.path.join(common.GEN, "C07Src2.v"), source2_items())
    v2l = regenerate_loads(os.path.join(common.GEN, "C07Src2l.v"))
    v2c = regenerate_load_special(os.path.join(common.GEN, "C07Src2c.v"))
    out = dict(v1)
    for k in ("obligations", "discharged"):
        out[k] = v1.get(k, 0) + v2[k] + v2l[k] + v2c[k]
    out["untranslatable"] = (list(v1.get("untranslatable", [])) + list(v2["untranslatable"]) + list(v2l["untranslatable"])
                             + list(v2c["untranslatable"]))
    out["translated"] = list(v1.get("translated", [])) + list(v2["translated"]) + list(v2l["translated"]) + list(v2c["translated"])
    out["changed"] = bool(v1.get("changed")) or bool(v2["changed"]) or bool(v2l["changed"]) or bool(v2c["changed"])
    out["source2"], out["source2_loads"], out["source2_load_special"] = v2, v2l, v2c
    return out


# ---------------------------------------------------------------------------- translator v2: what is translated, and how
REDIRECT_URN = "urn:oasis:names:tc:SAML:2.0:bindings:HTTP-Redirect"


def _kwlist(pairs):
    return "[%s]" % "; ".join('("%s", %s)' % (k, v) for k, v in pairs)


def source2_items():
    """[(source file, qualified name, spec)] for harness/py2coq2.py.  External calls (XML parsing, xmlsec1, RSA, metadata
    and configuration lookups, object construction) become extra parameters of the Gallina definitions; C07/Source2.v
    quantifies over them (Section variables + hypotheses)."""
    import os

    req = os.path.join(env.SRC, "saml2", "request.py")
    ent = os.path.join(env.SRC, "saml2", "entity.py")
    sig = os.path.join(env.SRC, "saml2", "sigver.py")
    sigerr = {"SignatureError": ["SigverError", "SAMLError", "Exception"]}
    return [
        # who sent it: the Issuer text, stripped (AttributeError when there is no Issuer)
        (req, "Request.sender", {"name": "src2_sender", "params": ["self"], "attr_errors": True}),
        # the detached signature verifies under SOME signing certificate metadata has for the sender; certificates that
        # are no certificates are skipped, any other failure propagates
        (req, "Request._do_redirect_sig_check", {
            "name": "src2_redirect_sig_check", "params": ["self", "_saml_msg"], "attr_errors": True,
            "extra_params": [("md_certs", "pyval -> pyval"), ("verify_sig", "pyval -> pyval -> pyval")],
            "ignore_calls": ["logger.debug", "logger.warning"],
            "calls": {"self.sender": lambda a: "(src2_sender v_self)" if not a else "PErr",
                      "self.sec.metadata.certs":
                          lambda a: "(md_certs %s)" % a[0] if a[1:] == ['(PStr "any")', '(PStr "signing")'] else "PErr",
                      "verify_redirect_signature": lambda a: "(verify_sig %s %s)" % (a[0], a[2]) if len(a) == 3 else "PErr"}}),
        # signature present => _check_signature decides; absent => error exactly when it must be there; wrong class => TypeError
        (sig, "SecurityContext.correctly_signed_message", {
            "name": "src2_correctly_signed_message",
            "params": ["self", "decoded_xml", "msgtype", "must", "origdoc", "only_valid_cert"],
            "extra_params": [("parse", "pyval -> pyval -> pyval"), ("check_sig", "pyval -> pyval -> pyval -> pyval -> pyval")],
            "globals": {"saml": "PNone", "samlp": "PNone"}, "exc_parents": sigerr,
            "calls": {"getattr": lambda a: "PNone" if len(a) == 3 else "PErr",
                      "_func": lambda a: "(parse v_attr %s)" % a[0] if len(a) == 1 else "PErr",
                      "class_name": lambda a: '(PStr "cls")',
                      "err_msg.format": lambda a, kw: '(PStr "")',
                      "self._check_signature":
                          lambda a, kw: "(check_sig %s %s %s %s)" % (a[0], a[1], kw["must"], kw["only_valid_cert"])
                          if len(a) == 4 and sorted(kw) == ["must", "only_valid_cert"] else "PErr"}}),
        # receiver addresses (own role, then aa / aq / pdp for an idp), clock skew, must / only_valid_cert from the idp
        # section, what is handed to Request.loads, verify() honoured
        (ent, "Entity._parse_request", {
            "name": "src2_parse_request",
            "params": ["self", "enc_request", "request_cls", "service", "binding", "relay_state", "sigalg", "signature"],
            "extra_params": [("endpoint", "pyval -> pyval -> pyval -> pyval"), ("cfg_getattr", "pyval -> pyval -> pyval"),
                             ("unravel", "pyval -> pyval -> pyval -> pyval"), ("mk_request", "pyval -> pyval -> pyval -> pyval"),
                             ("loads", "pyval -> list (string * pyval) -> pyval"), ("verify", "pyval -> pyval")],
            "attr_errors": True, "globals": {"logger": '(PObj [("__class__", PStr "Logger"); ("debug", PNone)])'},
            "ignore_calls": ["_log_debug", "logger.error"],
            "calls": {"self.config.endpoint": lambda a: "(endpoint %s %s %s)" % tuple(a) if len(a) == 3 else "PErr",
                      "self.config.getattr": lambda a: "(cfg_getattr %s %s)" % tuple(a) if len(a) == 2 else "PErr",
                      "self.unravel": lambda a: "(unravel %s %s %s)" % tuple(a) if len(a) == 3 else "PErr",
                      "request_cls": lambda a, kw: "(mk_request %s %s v_request_cls)" % (a[1], kw["timeslack"])
                      if len(a) == 3 and sorted(kw) == ["timeslack"] else "PErr",
                      "_request.loads": lambda a, kw: "(loads v__request %s)" % _kwlist(
                          [("xmlstr", a[0]), ("binding", a[1])] + sorted(kw.items())) if len(a) == 2 else "PErr",
                      "_request.verify": lambda a: "(verify v__request)" if not a else "PErr"}}),
    ]


class _RaiseBound(ast.NodeTransformer):
    """py2coq2 refuses `raise name` for a local name.  Request._loads builds its exception once
    (`incorrectly_signed = IncorrectlySigned("...")`) and raises it from five places.  This transformer rewrites
    `raise name [from e]` into `raise Cls(<constants>) [from e]` when -- and only when -- `name` is assigned exactly once in
    the function, at the top level of its body, from a call of a bare class name with constant arguments.  Anything else
    is left alone (and then refused by the translator: fail-closed)."""

    def __init__(self, fn):
        stores = {}
        for n in ast.walk(fn):
            if isinstance(n, ast.Name) and isinstance(n.ctx, (ast.Store, ast.Del)):
                stores[n.id] = stores.get(n.id, 0) + 1
            if isinstance(n, ast.ExceptHandler) and n.name:
                stores[n.name] = stores.get(n.name, 0) + 1
        self.bound = {}
        for s in fn.body:
            if (isinstance(s, ast.Assign) and len(s.targets) == 1 and isinstance(s.targets[0], ast.Name)
                    and isinstance(s.value, ast.Call) and isinstance(s.value.func, ast.Name) and not s.value.keywords
                    and all(isinstance(a, ast.Constant) for a in s.value.args) and stores.get(s.targets[0].id) == 1
                    and s.targets[0].id not in [a.arg for a in fn.args.args]):
                self.bound[s.targets[0].id] = s.value

    def visit_Raise(self, node):
        if isinstance(node.exc, ast.Name) and node.exc.id in self.bound:
            return ast.copy_location(ast.Raise(exc=self.bound[node.exc.id], cause=node.cause), node)
        return node


def loads_spec():
    return {"name": "src2_loads",
            "params": ["self", "xmldata", "binding", "origdoc", "must", "only_valid_cert", "relay_state", "sigalg", "signature"],
            "extra_params": [("signature_check", "pyval -> pyval -> pyval -> pyval -> pyval"),
                             ("redirect_sig_check", "pyval -> pyval -> pyval"), ("valid_instance", "pyval -> pyval")],
            "globals": {"BINDING_HTTP_REDIRECT": "(PStr %s)" % cq(REDIRECT_URN)},
            "ignore_calls": ["logger.debug", "logger.error", "logger.info"],
            "exc_parents": {"NotValid": ["Exception"], "IncorrectlySigned": ["SAMLError", "Exception"]},
            "calls": {"IncorrectlySigned": lambda a: "PNone",      # the instance itself is only ever raised (see _RaiseBound)
                      "self.signature_check": lambda a, kw: "(signature_check %s %s %s %s)" % (
                          a[0], kw["origdoc"], kw["must"], kw["only_valid_cert"])
                      if len(a) == 1 and sorted(kw) == ["must", "only_valid_cert", "origdoc"] else "PErr",
                      "self._do_redirect_sig_check": lambda a: "(redirect_sig_check v_self %s)" % a[0] if len(a) == 1 else "PErr",
                      "valid_instance": lambda a: "(valid_instance %s)" % a[0] if len(a) == 1 else "PErr"}}


def regenerate_loads(gen_path):
    """Request._loads -> coq/gen/C07Src2l.v, through py2coq2.translate_def after _RaiseBound (fail-closed like
    py2coq2.regenerate: what cannot be translated becomes a poisoned definition)."""
    import os
    from harness import common, py2coq2

    q, spec = "Request._loads", loads_spec()
    failed = []
    try:
        with open(os.path.join(env.SRC, "saml2", "request.py")) as f:
            fn = py2coq2.find_function(ast.parse(f.read()), q)
        fn = ast.fix_missing_locations(_RaiseBound(fn).visit(fn))
        body = py2coq2.translate_def(fn, spec, "saml2/request.py:%s (raise of the pre-built exception rewritten by harness/c07.py)" % q)
    except (py2coq2.Untranslatable, OSError, SyntaxError) as e:
        failed.append("%s: %s" % (q, e))
        body = py2coq2.poison(q, spec, str(e))
    changed = common.write_if_changed(gen_path, py2coq2.HEADER + body)
    return {"translated": [q], "untranslatable": failed, "changed": changed, "obligations": 1, "discharged": 1 - len(failed)}


def _same(node, text):
    return ast.dump(node) == ast.dump(ast.parse(text).body[0])


def load_special_slice():
    """The statements of Config.load_special through which the value of an option passes between the configuration dict
    and Config.setattr, cut out as a pure function (fail-closed: every statement around the cut must have exactly the
    expected shape, else Untranslatable):
        for arg in SPEC[typ]: try: _val = cnf[arg] / except KeyError: pass / else: <CUT>; self.setattr(typ, arg, _val)
        ->  def load_special_value(_val): <CUT>; return _val"""
    import os
    from harness import py2coq2

    U = py2coq2.Untranslatable
    with open(os.path.join(env.SRC, "saml2", "config.py")) as f:
        fn = py2coq2.find_function(ast.parse(f.read()), "Config.load_special")
    body = [b for b in fn.body if not (isinstance(b, ast.Expr) and isinstance(b.value, ast.Constant))]
    loop = body[0] if body else None
    if not (isinstance(loop, ast.For) and isinstance(loop.target, ast.Name) and loop.target.id == "arg"
            and ast.dump(loop.iter) == ast.dump(ast.parse("SPEC[typ]").body[0].value)
            and not loop.orelse and len(loop.body) == 1 and isinstance(loop.body[0], ast.Try)):
        raise U("Config.load_special: the loop over SPEC[typ] has another shape")
    t = loop.body[0]
    if not (len(t.body) == 1 and _same(t.body[0], "_val = cnf[arg]") and len(t.handlers) == 1
            and ast.dump(t.handlers[0]) == ast.dump(ast.parse("try:\n pass\nexcept KeyError:\n pass").body[0].handlers[0])
            and not t.finalbody and t.orelse and _same(t.orelse[-1], "self.setattr(typ, arg, _val)")):
        raise U("Config.load_special: the try statement around cnf[arg] has another shape")
    for rest in body[1:]:
        if not (_same(rest, "self.context = typ") or _same(rest, "self.context = self.def_context")):
            raise U("Config.load_special: unexpected statement after the loop")
    f1 = ast.parse("def load_special_value(_val):\n pass").body[0]
    f1.body = list(t.orelse[:-1]) + [ast.parse("return _val").body[0]]
    f1.lineno, f1.end_lineno = t.orelse[0].lineno, t.orelse[-1].end_lineno
    return ast.fix_missing_locations(f1)


def regenerate_load_special(gen_path):
    """the cut of load_special_slice -> coq/gen/C07Src2c.v (C07/Source2c.v proves it equal to Model.load_special_val)"""
    from harness import common, py2coq2

    q, spec = "Config.load_special", {"name": "src2_load_special_value", "params": ["_val"]}
    failed = []
    try:
        body = py2coq2.translate_def(load_special_slice(), spec,
                                     "saml2/config.py:Config.load_special (the else block in front of self.setattr, cut out by "
                                     "harness/c07.py:load_special_slice)")
    except (py2coq2.Untranslatable, OSError, SyntaxError, AttributeError, IndexError) as e:
        failed.append("%s: %s" % (q, e))
        body = py2coq2.poison(q, spec, str(e))
    changed = common.write_if_changed(gen_path, py2coq2.HEADER + body)
    return {"translated": [q], "untranslatable": failed, "changed": changed, "obligations": 1, "discharged": 1 - len(failed)}


TRUSTED = ["source-to-Gallina translator harness/py2coq.py + coq/theories/Base/Py.v (Request._verify is re-translated from the source "
           "text on every run; c07_source_request_verify proves it equal to the model)",
           "translator v2 harness/py2coq2.py + coq/theories/Base/Py2.v (semantics and trusted base: notes/translator_v2.md); "
           "re-translated on every run and proved equal to the model function they mirror (C07/Source2.v, theorems "
           "c07_source2_*): request.py Request.sender, Request._do_redirect_sig_check, Request._loads (after the syntactic "
           "rewrite `raise <name bound once to Cls(consts)>` -> `raise Cls(consts)` of harness/c07.py:_RaiseBound), "
           "sigver.py SecurityContext.correctly_signed_message, entity.py Entity._parse_request; their external calls "
           "(XML parsing, _check_signature, verify_redirect_signature, metadata.certs, Config.endpoint / getattr, unravel, "
           "Request construction, valid_instance) are universally quantified functions under the hypotheses of each theorem",
           "xmlsec1 stand-in (harness/standin/xmlsec1.py) for enveloped signatures; RSA PKCS#1 v1.5 via `cryptography` for "
           "detached ones", "renderer harness/render.py, metadata templates harness/world.py",
           "translator v2 on the cut of Config.load_special between `_val = cnf[arg]` and `self.setattr(typ, arg, _val)` "
           "(harness/c07.py:load_special_slice, fail-closed on any other shape of the surrounding loop / try) -> "
           "coq/gen/C07Src2c.v; C07/Source2c.v proves it equal to Model.load_special_val for every value (c07_source2_load_special, "
           "c07_source2_stored); that Config.load / config_factory hand every service section to load_special and that "
           "setattr / getattr store and fetch by (context, name) is tied by the correspondence only (loading routes)",
           "abstraction in harness/c07.py: fixture key pair / certificate <-> number, concrete text <-> (version, destination, "
           "issue instant, issuer, schema flags), exception class <-> verdict",
           "lives: each life is observed in a child of a pristine copy of the observing process (os.fork before the first "
           "request); the receivers' own private keys are loaded once per process "
           "(saml2.cryptography.asymmetric.load_pem_private_key memoised on the PEM octets); the virtual clock's now() "
           "without zone is local wall time (local extension of env.VClock)"]
ASSUMPTIONS = ["an option value SAYS yes when it is True, a number other than 0, or one of true / yes / on / 1 in any capitalisation "
               "with blanks around it ignored; it says no when it is absent, None, False, 0 or one of false / no / off / 0 / '' "
               "(the vocabulary of client_base.py since 6bdc97cd); a text that says neither demands nothing (C07/Spec.v: "
               "says_yes, says_no, spec_src); only ASCII spellings are generated",
               "ideal signatures (hypotheses everify_spec / dverify_spec of C07/Proofs.v); real RSA runs in the correspondence",
               "IssueInstant: the instant the text DENOTES is what the window clause is about (C07/Spec.v: denoted): the written "
               "date and time minus the written offset; 'Z' (RFC 3339: or 'z') and no designator are UTC (SAML core 1.3.3); an "
               "offset beyond +-14:00 and a text that is no zone designator denote no instant, and such a request must not be "
               "processed.  The model takes the written fields for UTC and refuses every spelling with an offset "
               "(Model.zone_read); harness/c07.py:ZONES says which spelling is which zone term and whether it passes the "
               "XML-schema validation of a signed message; a fraction of a second is dropped",
               "a detached signature is valid only under a SigAlg that names a signature algorithm the receiver can verify "
               "(C07/Spec.v: SIG_ALGS, the five RSA PKCS#1 v1.5 identifiers, exact text); every fixture key is an RSA key",
               "xsd_ok / inst_ok (outcome of the XML-schema validation of the re-serialised element and of valid_instance) are "
               "inputs of the model; the harness supplies them from the shape it rendered",
               "single metadata source; which certificates metadata yields for an issuer is property C03",
               "lives: a reload of well-formed metadata succeeds, a failed reload leaves the metadata as it was "
               "(MetadataStore.reload), nothing else is remembered between requests (Model.run_life); the correspondence "
               "checks all three on every life",
               "the verdict does not depend on the time zone of the process (no such input in the model; checked by the "
               "correspondence)",
               "base64 canonicity and percent-encoding of the detached signature are property C15"]

NOW = spaccept.NOW
REDIRECT, POST, SOAP = world.BINDING_HTTP_REDIRECT, world.BINDING_HTTP_POST, world.BINDING_SOAP
ARTIFACT, URI, PAOS = world.BINDING_HTTP_ARTIFACT, world.BINDING_URI, world.BINDING_PAOS
BINDINGS5 = [REDIRECT, POST, SOAP, ARTIFACT, URI]
SHORT = {REDIRECT: "redirect", POST: "post", SOAP: "soap", ARTIFACT: "artifact", URI: "uri", None: "post"}

SHA1 = "http://www.w3.org/2000/09/xmldsig#rsa-sha1"
SHA224 = "http://www.w3.org/2001/04/xmldsig-more#rsa-sha224"
SHA256 = "http://www.w3.org/2001/04/xmldsig-more#rsa-sha256"
SHA384 = "http://www.w3.org/2001/04/xmldsig-more#rsa-sha384"
SHA512 = "http://www.w3.org/2001/04/xmldsig-more#rsa-sha512"
DSA = "http://www.w3.org/2000/09/xmldsig#dsa-sha1"
SUPPORTED_ALGS = [SHA1, SHA224, SHA256, SHA384, SHA512]
# SigAlg values that name nothing the receiver can verify a detached signature with: other algorithm families, RSA with
# a digest / padding outside sigver.SIGNER_ALGS, XML-signature identifiers that are no signature algorithm, misspellings
# of a supported identifier (case, blanks, fragment only, the digest identifier), no identifier at all
UNSUPPORTED_ALGS = [
    DSA, "http://www.w3.org/2001/04/xmldsig-more#ecdsa-sha256", "http://www.w3.org/2001/04/xmldsig-more#rsa-md5",
    "http://www.w3.org/2001/04/xmldsig-more#rsa-ripemd160", "http://www.w3.org/2007/05/xmldsig-more#sha256-rsa-MGF1",
    "http://www.w3.org/2000/09/xmldsig#hmac-sha1", "http://www.w3.org/2001/04/xmlenc#sha256",
    "http://www.w3.org/2001/10/xml-exc-c14n#", SHA256.upper(), SHA256 + " ", " " + SHA1, "rsa-sha256",
    SHA256.replace("http:", "https:"), "none", "None", "", "0",
]

KEYNUM = {"sp": 1, "attacker": 2, "other": 3, "idp2": 4}
E1, E2, E3, E4 = ("https://peer1.example.org/ent.xml", "https://peer2.example.org/ent.xml",
                  "https://peer3.example.org/ent.xml", "https://peer4.example.org/ent.xml")
E5 = "https://peer5.example.org/ent.xml"     # in metadata, but only with an encryption key: no signing certificate
EU = "https://unknown.example.org/ent.xml"
ISSUERS = {"E1": E1, "E2": E2, "E3": E3, "E4": E4, "E5": E5, "EU": EU, "none": None, "E1pad": " " + E1 + "\n"}
MD = {"E1": ["sp"], "E2": ["attacker"], "E3": ["attacker", "other"], "E4": ["other", "attacker"], "E5": []}
# metadata generations of the lives (what a receiver's metadata says about the requesters at some moment): G0 is MD; the
# others roll E1's key over (new key only / both during the overlap / both in the other order), withdraw its signing key,
# remove it from the federation, or give its OLD key to another entity
GENS = {
    "G0": MD,
    "G1": dict(MD, E1=["other"]),
    "G2": dict(MD, E1=["sp", "other"]),
    "G3": dict(MD, E1=["other", "sp"]),
    "G4": dict(MD, E1=[]),
    "G5": {k: v for k, v in MD.items() if k != "E1"},
    "G6": dict(MD, E1=["other"], E2=["sp"]),
}

SERVICE = {"AuthnRequest": "single_sign_on_service", "LogoutRequest": "single_logout_service",
           "AttributeQuery": "attribute_service", "AuthnQuery": "authn_query_service",
           "ManageNameIDRequest": "manage_name_id_service", "AuthzDecisionQuery": "authz_service",
           "AssertionIDRequest": "assertion_id_request_service", "NameIDMappingRequest": "name_id_mapping_service"}
# every request class of request.SERVICE2REQUEST and the entry point that parses it (ArtifactResolve has an entry point,
# Entity.parse_artifact_resolve, that does not go through _parse_request at all: see notes/C07.md)
ENTRY = {"AuthnRequest": "parse_authn_request", "LogoutRequest": "parse_logout_request",
         "AttributeQuery": "parse_attribute_query", "AuthnQuery": "parse_authn_query",
         "ManageNameIDRequest": "parse_manage_name_id_request", "AuthzDecisionQuery": "parse_authz_decision_query",
         "AssertionIDRequest": "parse_assertion_id_request", "NameIDMappingRequest": "parse_name_id_mapping_request"}
PASSES_DETACHED = {"AuthnRequest", "LogoutRequest"}
RK = [("idp", "AuthnRequest"), ("idp", "LogoutRequest"), ("idp", "AttributeQuery"), ("idp", "AuthnQuery"),
      ("idp", "ManageNameIDRequest"), ("sp", "LogoutRequest"), ("sp", "ManageNameIDRequest"), ("aa", "AttributeQuery"),
      ("idp", "AuthzDecisionQuery"), ("idp", "AssertionIDRequest"), ("idp", "NameIDMappingRequest")]
RCV_KIND = {"idp": "AuthnRequest", "aa": "AttributeQuery", "sp": "LogoutRequest"}
RECEIVER_HOST = {"idp": "https://idp.example.org", "sp": "https://sp.example.org", "aa": "https://idp.example.org"}

# ---------------------------------------------------------------------------- fixtures of this property
def cert_b64(keyname):
    return fixtures.cert_b64(keyname)


def entity_descriptor(eid, keynames):
    kd = ("<md:KeyDescriptor use=\"%s\"><ds:KeyInfo><ds:X509Data><ds:X509Certificate>%s</ds:X509Certificate>"
          "</ds:X509Data></ds:KeyInfo></md:KeyDescriptor>")
    kds = "".join(kd % ("signing", cert_b64(k)) for k in keynames) or kd % ("encryption", cert_b64("other"))
    host = eid.rsplit("/", 1)[0]
    return ("<md:EntityDescriptor %s entityID=\"%s\"><md:SPSSODescriptor protocolSupportEnumeration=\"%s\">%s%s%s"
            "</md:SPSSODescriptor></md:EntityDescriptor>" % (
                world.MD_NS, eid, world.PROTO, kds,
                world.endpoint("SingleLogoutService", SOAP, host + "/slo/soap"),
                world.endpoint("AssertionConsumerService", POST, host + "/acs/post", 1)))


def metadata_docs(gen="G0"):
    md = GENS[gen]
    return [world.default_idp_md(), world.default_other_md()] + [entity_descriptor(ISSUERS[e], md[e]) for e in sorted(md)]


# ---------------------------------------------------------------------------- endpoint configurations
def url(rcv, kind, what):
    return "%s/%s/%s" % (RECEIVER_HOST[rcv], SERVICE[kind], what)


def epl_for(rcv, kind, epcfg):
    """[(context, [endpoint spec])] for the service under test; spec = (url, binding) or bare url."""
    u = lambda w: url(rcv, kind, w)  # noqa: E731
    allb = lambda w: [(u(w) if w else u(SHORT[b]), b) for b in BINDINGS5]  # noqa: E731
    if epcfg == "default":
        return [(rcv, allb(None))]
    if epcfg == "bare":
        return [(rcv, [u("bare")])]
    if epcfg == "none":
        return []
    if epcfg == "two":
        return [(rcv, allb(None) + allb("second") + [u("bare")])]
    if epcfg == "otherb":
        return [(rcv, [(u("paos"), PAOS)])]
    if epcfg == "fallback":      # nothing usable in the own role: an idp falls back to aa, aq, pdp in that order
        return [("aa", [(u("paos"), PAOS)]), ("aq", allb("fb")), ("pdp", allb("pdp"))]
    if epcfg == "ownbare_fb":    # a bare own endpoint wins over a matching one of another role
        return [(rcv, [u("bare")]), ("aa" if rcv != "aa" else "aq", allb("fb"))]
    if epcfg == "foreign_role":  # only a role the receiver falls back to when it is an idp
        return [("pdp", allb("pdp"))]
    raise ValueError(epcfg)


EPCFGS = ["default", "bare", "none", "two", "otherb", "fallback", "ownbare_fb", "foreign_role"]


def dest_value(case):
    rcv, kind, b = case["rcv"], case["kind"], case["binding"]
    u = lambda w: url(rcv, kind, w)  # noqa: E731
    prim = u(SHORT.get(b, "post"))
    d = case["dest"]
    table = {
        "absent": None, "empty": "", "primary": prim,
        "otherbinding": u("soap") if SHORT.get(b, "post") != "soap" else u("post"),
        "second": u("second"), "bare": u("bare"), "fb": u("fb"), "pdp": u("pdp"), "paos": u("paos"),
        "foreign": "https://evil.example.com/%s/post" % SERVICE[kind],
        "longer": prim + "/x", "shorter": prim[:-1], "upper": prim.upper(), "padded": " " + prim,
    }
    return table[d]


DESTS = ["absent", "empty", "primary", "otherbinding", "second", "bare", "fb", "pdp", "paos", "foreign", "longer", "shorter",
         "upper", "padded"]

# ---------------------------------------------------------------------------- receivers
_rcv = {}
CONTEXTS = ("idp", "sp", "aa", "aq", "pdp")


WS, OVC = "want_authn_requests_signed", "want_authn_requests_only_with_valid_cert"
PYNONE = {"py": "None"}        # a configuration value: the key is there and its value is None (None in a case = no key)
HOWS = ["special", "load", "factory", "base"]


def written(v):
    """(the key is in the section?, the Python value) of a configuration value of a case"""
    if v is None:
        return False, None
    if isinstance(v, dict):
        return True, None
    return True, v


def reads(v):
    """how a configuration value READS (the vocabulary of C07/Spec.v): 'yes' / 'no' / 'other'"""
    present, val = written(v)
    if not present or val is None or val is False or (isinstance(val, int) and not isinstance(val, bool) and val == 0):
        return "no"
    if val is True or (isinstance(val, int) and not isinstance(val, bool)):
        return "yes"
    w = val.strip(" \t\n\r\x0b\x0c").lower()
    return "yes" if w in ("true", "yes", "on", "1") else ("no" if w in ("false", "no", "off", "0", "") else "other")


def sections_for(case, options=True):
    """the service sections of a case: endpoints of the service under test per context, and the two options of the idp
    section as the case writes them"""
    sections = {}
    for ctx, specs in epl_for(case["rcv"], case["kind"], case["epcfg"]):
        sections.setdefault(ctx, {"endpoints": {}})["endpoints"][SERVICE[case["kind"]]] = [
            tuple(s) if isinstance(s, (tuple, list)) else s for s in specs]
    if options:
        for name, v in ((WS, case["must"]), (OVC, case["ovc"])):
            present, val = written(v)
            if present:
                sections.setdefault("idp", {})[name] = val
    return sections


def _build(rcv, vcert, only_md, gen="G0", case=None, how="load"):
    """Security context, metadata and key material are built once per (receiver type, validate_certificate,
    only_use_keys_in_metadata); see configure() for the per-case settings.  A life builds receivers of its own.
    With `case`: the service sections of the case (endpoints, the two options, accepted_time_diff) are part of the
    configuration dict the receiver is BUILT from, loaded the way `how` says: the role's class .load(dict),
    config_factory(role, dict), or the base class Config().load(dict)."""
    common = {"metadata_xml": metadata_docs(gen), "only_use_keys_in_metadata": only_md}
    if vcert:
        common["validate_certificate"] = True
    if case is not None and case["slack"] is not None:
        common["accepted_time_diff"] = case["slack"]
    extra = sections_for(case) if case is not None else {}
    from saml2 import config as cfgmod

    def load(cls, typ, conf):
        if how == "factory":
            return cfgmod.config_factory(typ, copy.deepcopy(conf))
        c = cfgmod.Config() if how == "base" else cls()
        c.load(copy.deepcopy(conf))
        if how == "base":
            c.context = c.def_context = typ
        return c

    if rcv in ("idp", "aa"):
        from saml2.server import Server

        conf = world.idp_config(**common)
        base = conf["service"]["idp"]
        conf["service"] = {"idp": {"endpoints": {}, "policy": base["policy"], "name": "verif idp"}}
        if rcv == "aa":
            conf["service"]["aa"] = {"endpoints": {}, "policy": base["policy"]}
        for ctx, sec in extra.items():
            conf["service"].setdefault(ctx, {}).update(sec)
        return Server(config=load(cfgmod.IdPConfig, "idp", conf), stype=rcv)
    from saml2.client import Saml2Client

    conf = world.sp_config(**common)
    conf["service"] = {"sp": {"endpoints": {}, "idp": [world.IDP_ID]}}
    for ctx, sec in extra.items():
        conf["service"].setdefault(ctx, {}).update(sec)
    return Saml2Client(config=load(cfgmod.SPConfig, "sp", conf))


def configure(r, case):
    """Per-case configuration: every service section goes through Config.load_special (the loader
    Config.load uses for service sections, incl. its "true"/"false" conversion); accepted_time_diff is
    set the way Config.load sets common arguments.  how = "built": the two options are the ones the receiver was
    built with (they came through Config.load once, when the process started) and are left alone."""
    cfg = r.config
    for ctx in CONTEXTS:
        cfg.setattr(ctx, "endpoints", None)
    built = case.get("how") == "built"
    if not built:
        cfg.setattr("idp", WS, None)
        cfg.setattr("idp", OVC, None)
    sections = sections_for(case, options=not built)
    for ctx in sorted(sections):
        cfg.load_special(copy.deepcopy(sections[ctx]), ctx)
    cfg.accepted_time_diff = case["slack"]


def got_value(v):
    """what Config.getattr answered for an option, as a configuration value of the abstraction (None = None)"""
    if v is None or isinstance(v, (bool, int, str)):
        return v
    return {"other": type(v).__name__}


def got_options(r):
    return [got_value(r.config.getattr(WS, "idp")), got_value(r.config.getattr(OVC, "idp"))]


def setup():
    env.install_standin()
    spaccept.CLOCK.install()
    local_clock()
    speedups()
    pristine()


def local_clock():
    """LOCAL extension of env.VClock (env.py is shared, read-only): its datetime stand-in answers now() without a zone
    with the UTC wall time, which would hide a change from utcnow() to now() inside time_util from the time-zone
    dimension.  Here now() without a zone is what it really is: the wall time of the process time zone."""
    import saml2.time_util as tu

    if getattr(tu.datetime, "_c07_local", False):
        return
    clock = spaccept.CLOCK

    class LocalVDateTime(tu.datetime):
        _c07_local = True

        @classmethod
        def now(cls, tz=None):
            return cls.fromtimestamp(clock.now, tz)

        @classmethod
        def today(cls):
            return cls.fromtimestamp(clock.now)

    tu.datetime = LocalVDateTime


def receiver(case):
    setup()
    how = case.get("how", "special")
    if how != "special":
        # the whole configuration (service sections with the options of the case in them) is loaded: a receiver of its own
        return _build(case["rcv"], bool(case["vcert"]), bool(case["only_md"]), "G0", case, how)
    key = (case["rcv"], bool(case["vcert"]), bool(case["only_md"]))
    r = _rcv.get(key)
    if r is None:
        r = _rcv[key] = _build(*key)
    configure(r, case)
    return r


# ---------------------------------------------------------------------------- rendering one case
HASHES = None


def _hashes():
    global HASHES
    if HASHES is None:
        from cryptography.hazmat.primitives import hashes

        HASHES = {SHA1: hashes.SHA1, SHA224: hashes.SHA224, SHA256: hashes.SHA256, SHA384: hashes.SHA384,
                  SHA512: hashes.SHA512}
    return HASHES


_keys = {}


def private_key(path):
    """loading (and validating) an RSA private key costs ~50 ms: load each fixture key once per process"""
    k = _keys.get(path)
    if k is None:
        from cryptography.hazmat.primitives import serialization

        with open(path, "rb") as f:
            k = _keys[path] = serialization.load_pem_private_key(f.read(), password=None)
    return k


def speedups():
    """the stand-in reloads the signing key on every call; give it the same per-process cache (pure function of the file).
    Building a receiver loads its OWN private key twice (33 ms each, 90 % of the cost of a Server object); a life builds
    receivers of its own, so saml2.cryptography.asymmetric.load_pem_private_key is memoised per process on the PEM
    octets (the receiver's own key plays no part in checking a request)."""
    m = env.standin()
    if getattr(m, "_c07_cached", False) is False:
        m._load_privkey = private_key
        m._c07_cached = True
        import saml2.cryptography.asymmetric as asym

        real, memo = asym.load_pem_private_key, {}

        def load_pem_private_key(data, password=None):
            k = (bytes(data), password)
            if k not in memo:
                memo[k] = real(data, password)
            return memo[k]

        asym.load_pem_private_key = load_pem_private_key


_det = {}


def detached(keyname, enc, rs, sa):
    """RSA PKCS#1 v1.5 over SAMLRequest=..[&RelayState=..]&SigAlg=.. ; the digest is the one `sa` names
    (SHA-256 for a SigAlg the table does not have)."""
    from cryptography.hazmat.primitives.asymmetric import padding

    parts = [urlencode({"SAMLRequest": enc})]
    if rs is not None:
        parts.append(urlencode({"RelayState": rs}))
    parts.append(urlencode({"SigAlg": sa}))
    octets = "&".join(parts).encode("ascii")
    memo = (keyname, octets)
    if memo not in _det:
        if len(_det) > 4000:
            _det.clear()
        key = private_key(fixtures.key_path(keyname))
        h = _hashes().get(sa, _hashes()[SHA256])
        _det[memo] = base64.b64encode(key.sign(octets, padding.PKCS1v15(), h())).decode("ascii")
    return _det[memo]


# How the time zone of IssueInstant is WRITTEN (xs:dateTime: 'Z', nothing, '+hh:mm' / '-hh:mm' up to 14:00):
# text -> (minutes east of UTC by which the written date and time are ahead of the instant, C07.Model.zone term, does
# the text pass the XML-schema validation of a signed message).  The instant of a case is NOW + offset whatever the zone:
# the date and time fields are written as that instant's local time in the zone.
def _zoff(m):
    return "(ZOff (%d)%%Z)" % m


ZONES = {
    "Z": (0, "ZUtc", True), "": (0, "ZNone", True),
    "+00:00": (0, _zoff(0), True), "-00:00": (0, _zoff(0), True),
    "+01:00": (60, _zoff(60), True), "-01:00": (-60, _zoff(-60), True),
    "+05:30": (330, _zoff(330), True), "-03:30": (-210, _zoff(-210), True),
    "+13:59": (839, _zoff(839), True), "-13:59": (-839, _zoff(-839), True),
    "+14:00": (840, _zoff(840), True), "-14:00": (-840, _zoff(-840), True),
    # no xs:dateTime: an offset beyond 14:00, minutes beyond 59, no colon, hours only, lower case, a zone name
    "+14:01": (841, _zoff(841), False), "-14:30": (-870, _zoff(-870), False), "+24:00": (1440, _zoff(1440), False),
    "+99:00": (5940, _zoff(5940), False), "-99:00": (-5940, _zoff(-5940), False),
    "+05:60": (360, "ZBad", False), "+0100": (60, "ZBad", False), "-01": (-60, "ZBad", False),
    "UTC": (0, "ZBad", False), "+01:00Z": (60, "ZBad", False),
    # lower case: no xs:dateTime (the schema validation of a signed message refuses it) but UTC all the same (RFC 3339
    # 5.6: 'Z' may be lower case); strptime matches the literal of the format without regard to case
    "z": (0, "ZUtc", False),
}
ZONES_LEGAL = [z for z, t in ZONES.items() if t[2]]


def zone_of(case):
    if case["schema"] == "tz":
        return "+00:00"
    return case.get("zone", "Z")


def written_time(case):
    """the date and time fields of IssueInstant as written, read as UTC (epoch seconds)"""
    return NOW + case["offset"] + 60 * ZONES[zone_of(case)][0]


def issue_instant(case):
    if case["schema"] == "garbage":
        return "yesterday"
    import time

    text = time.strftime("%Y-%m-%dT%H:%M:%S", time.gmtime(written_time(case)))
    if case.get("frac") is not None:          # "" = a bare '.', which the pattern of str_to_time lets through
        text += "." + case["frac"]
    return text + zone_of(case)


def elem(kind):
    return render.ELEM.get(kind) or "urn:oasis:names:tc:SAML:2.0:protocol:" + kind


def render_request(kind, q):
    """render.request knows five request classes; the other three of request.SERVICE2REQUEST are rendered here (LOCAL
    helper: render.py is shared)"""
    if kind in render.ELEM:
        return render.request(kind, q)
    issuer = "" if q.get("issuer") is None else "<saml:Issuer>%s</saml:Issuer>" % render.escape(q["issuer"])
    common = "%s%s%s%s" % (render.attr("ID", q.get("id")), render.attr("Version", q.get("version", "2.0")),
                           render.attr("IssueInstant", q.get("issue_instant")), render.attr("Destination", q.get("destination")))
    nid = render.name_id(q.get("name_id", "subject-1"))
    extra = ""
    if kind == "AuthzDecisionQuery":
        extra = render.attr("Resource", "urn:example:resource")
        body = ('<saml:Subject>%s</saml:Subject><saml:Action Namespace="urn:oasis:names:tc:SAML:1.0:action:rwedc">Read'
                "</saml:Action>" % nid)
    elif kind == "AssertionIDRequest":
        body = "<saml:AssertionIDRef>_%s</saml:AssertionIDRef>" % render.escape(q.get("name_id", "subject-1"))
    elif kind == "NameIDMappingRequest":
        body = nid + '<samlp:NameIDPolicy AllowCreate="true" Format="%s"/>' % render.NAMEID_TRANSIENT
    else:
        raise ValueError(kind)
    return "<samlp:%s %s%s%s>%s%s%s</samlp:%s>" % (kind, render.REQ_NS, common, extra, issuer, q.get("sig_template", ""), body,
                                                  kind)


_xml = {}


def render_xml(case, tweak=False):
    """memo of _render_xml: rendering + enveloped signing is a pure function of these fields (the same signed document is
    presented under many configurations / detached states / steps of a life)"""
    key = json.dumps([case["actual"] or case["kind"], case["version"], issue_instant(case), dest_value(case), case["issuer"],
                      case["env"], case["schema"], tweak], sort_keys=True)
    x = _xml.get(key)
    if x is None:
        if len(_xml) > 4000:
            _xml.clear()
        x = _xml[key] = _render_xml(case, tweak)
    return x


def _render_xml(case, tweak=False):
    """The request element; tweak=True renders a different document (for 'signature over another message')."""
    kind = case["actual"] or case["kind"]
    q = {"id": "q-1", "version": case["version"], "issue_instant": issue_instant(case),
         "destination": dest_value(case), "issuer": ISSUERS[case["issuer"]]}
    if kind == "AuthnRequest":
        q.update(acs_url="https://peer.example.org/acs/" + ("other" if tweak else "post"), protocol_binding=POST)
    else:
        q["name_id"] = "subject-9" if tweak else "subject-1"
    e = case["env"]
    if e:
        tr = (render.ENVELOPED, render.EXC_C14N)
        c14n = render.EXC_C14N
        if e["shape"] == "transforms3":
            tr = (render.ENVELOPED, render.EXC_C14N, render.EXC_C14N)
        if e["shape"] == "c14n":
            c14n = "http://www.w3.org/TR/2001/REC-xml-c14n-20010315"
        ki = ""
        if e["ki"]:
            ki = ("<ds:KeyInfo><ds:X509Data><ds:X509Certificate>%s</ds:X509Certificate></ds:X509Data></ds:KeyInfo>"
                  % cert_b64(e["signer"]))
        q["sig_template"] = render.signature_template("q-1", None, c14n=c14n, transforms=tr, extra_children=ki)
    xml = render_request(kind, q)
    if case["schema"] == "extra":
        xml = xml.replace(" ID=", ' foo="bar" ID=', 1)
    if e:
        xml = render.sign_xml(xml, e["signer"], elem(kind), "q-1")
        if e["state"] == "tamper":
            if kind == "AuthnRequest":
                xml = render.tamper_text(xml, "acs/", "acz/")
            else:
                xml = render.tamper_text(xml, "subject-", "subjekt-")
        elif e["state"] == "sigvalue":
            xml = render.corrupt_signature_value(xml)
        if e["shape"] == "object":
            # the stand-in re-serialises with whatever prefixes ElementTree has registered
            m = re.search(r"</((?:[\w.-]+:)?)Signature>", xml)
            obj = "<%sObject>x</%sObject>" % (m.group(1), m.group(1))
            xml = xml[:m.start()] + obj + xml[m.start():]
    return xml


def proper_wire(binding):
    return {REDIRECT: "deflate", POST: "base64", SOAP: "soap", ARTIFACT: "base64", URI: "xml", None: "xml"}.get(binding, "base64")


def encode(xml, wire):
    if wire == "deflate":
        return render.deflate_b64(xml)
    if wire == "base64":
        return render.b64(xml)
    if wire == "soap":
        return render.soap_envelope(xml)
    if wire == "xml":
        return xml
    if wire == "notb64":
        return "A"
    raise ValueError(wire)


VERDICT = {"Accept": 0, "UnknownBinding": 1, "UnravelError": 2, "IncorrectlySigned": 3, "NotValid": 4,
           "VersionMismatch": 5, "OtherError": 6, "Stale": 7}


TZS = [None, "JST-9", "EST5", "UTC0", "NST3:30NDT,M3.2.0,M11.1.0"]


class process_tz:
    """the time zone of the PROCESS around one call (os.environ["TZ"] + time.tzset(), restored afterwards); the model has
    no such input: the IssueInstant window (and everything else) must not depend on it"""

    def __init__(self, tz):
        self.tz = tz

    def __enter__(self):
        if self.tz is None:
            return
        import os
        import time

        self.old = os.environ.get("TZ")
        os.environ["TZ"] = self.tz
        time.tzset()

    def __exit__(self, *a):
        if self.tz is None:
            return
        import os
        import time

        if self.old is None:
            os.environ.pop("TZ", None)
        else:
            os.environ["TZ"] = self.old
        time.tzset()


def wire_form(case):
    """what the requester sends: (text handed to the entry point, keyword arguments of the entry point) -- made by the
    independent renderer, memoised"""
    wire = case["wire"] or proper_wire(case["binding"])
    xml = render_xml(case)
    enc = encode(xml, wire)
    d = case["det"]
    kw = {}
    if d:
        signed_doc = enc if not d["otherdoc"] else encode(render_xml(case, tweak=True), wire)
        if d["signer"] in NOT_A_SIGNATURE:
            sg = NOT_A_SIGNATURE[d["signer"]]
        else:
            sg = detached(d["signer"], signed_doc, d["rs_signed"], d["sa_signed"])
        if case["kind"] in PASSES_DETACHED:
            kw = {"relay_state": d["rs"], "sigalg": d["sa"], "signature": sg if d["pass_sig"] else None}
    return enc, kw


# Signature values that nobody's key made: no base64 at all, well-formed base64 of the right length, a few octets, nothing
NOT_A_SIGNATURE = {"garbage": "!!not base64!!", "garbage2": base64.b64encode(b"\x01" * 256).decode(), "short": "AAAA",
                   "empty": ""}


def observe_request(rcv, case, wire=None):
    """one request handed to the entry point of its class on the (configured) receiver object"""
    enc, kw = wire or wire_form(case)
    kind, b = case["kind"], case["binding"]
    exc = None
    try:
        with process_tz(case.get("tz")):
            res = getattr(rcv, ENTRY[kind])(enc, b, **kw)
        if res is None:
            v = "Stale"
        elif getattr(res, "message", None) is not None:
            v = "Accept"
        else:
            v = "EmptyObject"
    except Exception as e:  # noqa
        from saml2.validate import NotValid

        exc = type(e).__name__
        # valid_instance raises NotValid or (required attribute missing) MustValueError
        v = "NotValid" if isinstance(e, NotValid) or exc == "MustValueError" else exc
    return {"verdict": v, "code": VERDICT.get(v, 99), "exc": exc, "got": got_options(rcv)}


# A life is the life of a PROCESS.  Whatever state the code under test keeps between requests -- in objects, classes
# or modules -- must be born and die with the life: then the observation is a function of the case alone (the worker
# processes of the driver's pool see many cases each), a failing life replays on its own, and a life cannot disturb the
# single requests that share its worker.  So every process that observes cases keeps a PRISTINE copy of itself (forked
# before it has handed any request to the code under test, receivers' own keys loaded) and every life runs in a child
# of that pristine copy.  Requests are rendered and signed in the observing process (renderer and keys are the
# harness's own; the memos live there) and handed over with the case.
_pristine = None


def _send(fd, obj):
    import os
    import struct

    data = json.dumps(obj).encode()
    data = struct.pack("!I", len(data)) + data
    while data:
        data = data[os.write(fd, data):]


def _recv(fd):
    import os
    import struct

    def rd(n):
        out = b""
        while len(out) < n:
            b = os.read(fd, n - len(out))
            if not b:
                return None
            out += b
        return out

    h = rd(4)
    if h is None:
        return None
    body = rd(struct.unpack("!I", h)[0])
    return None if body is None else json.loads(body.decode())


def pristine():
    """(fd to write a job to, fd to read the result from) of this process's pristine copy; made on first use, which
    setup() places before the first request of the process"""
    global _pristine
    import os

    if _pristine is not None and _pristine[0] == os.getpid():
        return _pristine[1:]
    for t in ("idp", "sp"):
        _build(t, False, True)       # loads the receivers' own private keys (memoised, see speedups)
    job_r, job_w = os.pipe()
    res_r, res_w = os.pipe()
    if os.fork() == 0:
        try:
            os.close(job_w)
            os.close(res_r)
            while True:
                job = _recv(job_r)
                if job is None:         # the observing process is gone
                    break
                pid = os.fork()
                if pid == 0:
                    try:
                        _send(res_w, _observe_life(job["case"], job["wires"]))
                    except BaseException as e:  # noqa
                        _send(res_w, {"crash": "%s: %s" % (type(e).__name__, e)})
                    finally:
                        os._exit(0)
                os.waitpid(pid, 0)
        finally:
            os._exit(0)
    os.close(job_r)
    os.close(res_w)
    _pristine = (os.getpid(), job_w, res_r)
    return _pristine[1:]


def observe_life(case):
    setup()
    job_w, res_r = pristine()
    wires = [wire_form(o["c"]) if o["op"] == "req" else None for o in case["ops"]]
    _send(job_w, {"case": case, "wires": wires})
    out = _recv(res_r)
    if out is None or "crash" in out:
        raise RuntimeError("life was not observed: %r" % (out,))
    return out


def _observe_life(case, wires):
    """receivers of its own (never shared with another case), built from their first metadata generation, and the
    operations in order"""
    rcvs = []
    for r in case["rcvs"]:
        try:
            rcvs.append(_build(r["rcv"], False, bool(r["only_md"]), r["gen"],
                               dict(base(), rcv=r["rcv"], kind=RCV_KIND[r["rcv"]], epcfg="none", must=r["must"], ovc=r["ovc"])
                               if "must" in r else None, r.get("how", "load")))
        except Exception as e:  # noqa
            rcvs.append(e)
    steps = []
    for o, w in zip(case["ops"], wires):
        r = rcvs[o["r"]]
        if isinstance(r, Exception):
            steps.append(refused(r) if o["op"] == "req" else {"reload": type(r).__name__})
            continue
        if o["op"] == "req":
            try:
                configure(r, o["c"])
            except Exception as e:  # noqa
                steps.append(refused(e))
                continue
            steps.append(observe_request(r, o["c"], w))
            continue
        if o["op"] == "reload":
            conf = {"inline": metadata_docs(o["gen"])}
        else:
            conf = {"inline": ["<md:EntityDescriptor"]} if o["how"] == "xml" else {"nosuchtype": ["x"]}
        try:
            if o.get("via", "entity") == "entity":
                ok = bool(r.reload_metadata(conf))
            else:
                r.metadata.reload(conf)
                ok = True
        except Exception as e:  # noqa
            ok = type(e).__name__
        steps.append({"reload": ok})
    return {"steps": steps}


def refused(e):
    """the configuration of the case could not be loaded: no receiver, nothing is processed"""
    return {"verdict": "ConfigRefused", "code": 99, "exc": type(e).__name__, "got": [{"other": "unloaded"}] * 2}


def observe(case):
    if "ops" in case:
        return observe_life(case)
    try:
        r = receiver(case)
    except Exception as e:  # noqa
        return refused(e)
    return observe_request(r, case)


# ---------------------------------------------------------------------------- abstraction -> Coq
def abstract_xsd_inst(case):
    sch = case["schema"]
    # a bare '.' after the seconds is no xs:dateTime either (str_to_time lets it through)
    xsd = sch not in ("extra", "garbage") and ZONES[zone_of(case)][2] and case.get("frac") != ""
    inst = sch != "garbage"          # the zone of IssueInstant is a field of its own (Model.zone_read)
    return xsd, inst


def coq_zone(case):
    if case["schema"] == "garbage":
        return "ZBad"
    if zone_of(case) == "z" and case.get("frac") is not None:
        # strptime reads 'z' for the 'Z' of its format; after a fraction only the pattern of str_to_time applies, and
        # that wants the capital: refused.  Classified with the spellings that are no zone designator (fail-closed).
        return "ZBad"
    return ZONES[zone_of(case)][1]


BINDING_CONST = {REDIRECT: "BINDING_HTTP_REDIRECT", POST: "BINDING_HTTP_POST", SOAP: "BINDING_SOAP", URI: "BINDING_URI",
                 ARTIFACT: "BINDING_HTTP_ARTIFACT"}
ALG_CONST = {SHA1: "c07_sha1", SHA256: "c07_sha256", DSA: "c07_dsa", SHA224: "c07_sha224", SHA384: "c07_sha384",
             SHA512: "c07_sha512"}


def cqb(b):
    """binding -> Coq term (constants of C07.Model where they exist)"""
    return Raw(BINDING_CONST[b]) if b in BINDING_CONST else cq(b)


def cqa(a):
    return Raw(ALG_CONST[a]) if a in ALG_CONST else cq(a)


def opt(term):
    return "None" if term is None else "(Some %s)" % term


def epl_name(rcv, kind, epcfg):
    return "c07_ep_%s_%s_%s" % (rcv, kind, epcfg)


def coq_epl(rcv, kind, epcfg):
    out = []
    for ctx, specs in epl_for(rcv, kind, epcfg):
        sp = [Raw("(EP %s %s)" % (cqs(s[0]), cqb(s[1]))) if isinstance(s, (tuple, list)) else Raw("(Bare %s)" % cqs(s))
              for s in specs]
        out.append(Raw("(%s, %s, %s)" % (cq(ctx), cq(SERVICE[kind]), cq(sp))))
    return cq(out)


def _str_consts():
    """the strings that occur in most cases (primary / second endpoint of every service and binding, entity ids, clock):
    Coq spends most of a case file's time elaborating string literals, so they are defined once per file"""
    t = {}
    for rcv, kind in RK:
        for w in sorted(set(SHORT.values())) + ["second"]:
            t[url(rcv, kind, w)] = "c07_u_%s_%s_%s" % (rcv, kind, w)
    for n, e in sorted(ISSUERS.items()):
        if e is not None:
            t[e] = "c07_i_" + n
    t["rs-1"] = "c07_rs1"
    t["2.0"] = "c07_v20"
    for r in ("idp", "sp", "aa"):
        t[r] = "c07_r_" + r
    return t


def cqs(v):
    """cq for strings, through the constants of the preamble"""
    if isinstance(v, str) and v in STR_CONST:
        return Raw(STR_CONST[v])
    return cq(v)


def cqs_opt(v):
    return "None" if v is None else "(Some %s)" % cqs(v)


def preamble():
    """constant tables of the cases (endpoint configurations, metadata, algorithm URIs, frequent strings), defined once per
    case file"""
    lines = ["Import ListNotations.", "Open Scope string_scope."]
    for v, n in sorted(STR_CONST.items(), key=lambda t: t[1]):
        lines.append("Definition %s := %s." % (n, cq(v)))
    lines.append("Definition c07_now := %s." % cq(NOW))
    for a, n in sorted(ALG_CONST.items(), key=lambda t: t[1]):
        lines.append("Definition %s := %s." % (n, cq(a)))
    for g in sorted(GENS):
        mdl = [Raw("(%s, %s)" % (cq(ISSUERS[e]), cq([nat(KEYNUM[k]) for k in GENS[g][e]]))) for e in sorted(GENS[g])]
        lines.append("Definition c07_md_%s : list (string * list nat) := %s." % (g, cq(mdl)))
    lines.append("Definition c07_md := c07_md_G0.")
    for rcv, kind in RK:
        for epcfg in EPCFGS:
            lines.append("Definition %s : list (string * string * list epspec) := %s." % (
                epl_name(rcv, kind, epcfg), coq_epl(rcv, kind, epcfg)))
    return "\n".join(lines)


def nat(n):
    return Raw("%d%%nat" % n)


def coq_case(case, obs):
    if "ops" not in case:
        return "C07.Corr.One (%s)" % coq_request(case, obs, "c07_md")
    ops = []
    for o, st in zip(case["ops"], obs["steps"]):
        if o["op"] == "req":
            # the metadata argument of a request inside a life is ignored by the model (Model.run_life supplies the current one)
            ops.append("C07.Corr.LReq %s (%s)" % (nat(o["r"]), coq_request(o["c"], st, "[]")))
        elif o["op"] == "reload":
            # a reload of well-formed metadata is a Reload in the model whatever the real call answered: a refused
            # reload then shows in the following requests
            ops.append("C07.Corr.LReload %s c07_md_%s" % (nat(o["r"]), o["gen"]))
        else:
            ops.append("C07.Corr.LReloadFailed %s" % nat(o["r"]))
    return "C07.Corr.Life [%s] [%s]" % ("; ".join("c07_md_" + r["gen"] for r in case["rcvs"]), ";\n ".join(ops))


def coq_request(case, obs, mdterm):
    # CertHandler.verify_cert: returns True when validate_certificate is off; when it is on (and no
    # certificate generation is configured, which cannot be on Python 3) it raises AttributeError for every
    # certificate (finding C07-F1): no certificate passes
    valid = "None" if not case["vcert"] else "(Some [])"
    xsd, inst = abstract_xsd_inst(case)
    e = case["env"]
    if e:
        envs = "(Some (%s, %s, %s, %s))" % (nat(KEYNUM[e["signer"]]), cq(e["state"] != "ok"), cq(e["shape"] == "ok"),
                                          cq([nat(KEYNUM[e["signer"]])] if e["ki"] else []))
    else:
        envs = "None"
    d = case["det"]
    rs = sa = sg = "None"
    if d:
        rs, sa = cqs_opt(d["rs"]), opt(cqa(d["sa"]) if d["sa"] is not None else None)
        if not d["pass_sig"]:
            sg = "None"
        elif d["signer"] in NOT_A_SIGNATURE:
            sg = "(Some None)"
        else:
            sg = "(Some (Some (%s, %s, %s, %s)))" % (nat(KEYNUM[d["signer"]]), cq(bool(d["otherdoc"])), cqs_opt(d["rs_signed"]),
                                                     cqa(d["sa_signed"]))
    wire = {"deflate": "WDeflate", "base64": "WBase64", "soap": "WSoap", "xml": "WXml", "notb64": "WNotB64"}[
        case["wire"] or proper_wire(case["binding"])]
    issuer = ISSUERS[case["issuer"]]
    return "C07.Corr.mk %s %s %s %s %s %s %s %s %s %s %s %s %s %s %s %s %s %s %s %s %s %s %s %s" % (
        cqs(case["rcv"]), epl_name(case["rcv"], case["kind"], case["epcfg"]),
        "%s %s %s %s" % (cq_cval(case["must"]), cq_cval(case["ovc"]), cq_got(obs["got"][0]), cq_got(obs["got"][1])),
        cq_opt(case["slack"]), cq(bool(case["only_md"])), mdterm, valid, "c07_now", case["kind"],
        opt(cqb(case["binding"]) if case["binding"] is not None else None), wire, case["actual"] or case["kind"],
        cqs(case["version"]), cqs_opt(dest_value(case)),
        "c07_now" if written_time(case) == NOW else cq(written_time(case)), coq_zone(case),
        cqs_opt(issuer if issuer else None),
        cq(xsd), cq(inst), envs, rs, sa, sg, nat(obs["code"]))


def _cval(present, val):
    if not present:
        return "CAbsent"
    if val is None:
        return "CNone"
    if isinstance(val, bool):
        return "(CBool %s)" % cq(val)
    if isinstance(val, int):
        return "(CInt (%d)%%Z)" % val
    if isinstance(val, str):
        return "(CStr %s)" % cq(val)
    return '(CStr "<%s>")' % type(val).__name__


def cq_cval(v):
    """configuration value of a case (as written) -> C07.Model.cval"""
    return _cval(*written(v))


def cq_got(v):
    """what Config.getattr answered -> C07.Model.cval (None: CAbsent, see Corr.getattr_of); a value of another type
    (or no configuration at all) is a text no loader of the model produces"""
    if isinstance(v, dict):
        return '(CStr "<%s>")' % v["other"]
    return _cval(v is not None, v)


# ---------------------------------------------------------------------------- generation
def issuer_key(issuer, which=0):
    ks = MD.get(issuer.replace("pad", "")) or ["sp"]
    return ks[min(which, len(ks) - 1)]


def env_state(name, issuer):
    """named enveloped-signature states relative to the issuer's metadata"""
    k = issuer_key(issuer)
    foreign = "other" if "other" not in MD.get(issuer.replace("pad", ""), []) else "sp"
    t = {
        "absent": None,
        "valid": {"signer": k, "state": "ok", "shape": "ok", "ki": False},
        "valid_ki": {"signer": k, "state": "ok", "shape": "ok", "ki": True},
        "tamper": {"signer": k, "state": "tamper", "shape": "ok", "ki": False},
        "sigvalue": {"signer": k, "state": "sigvalue", "shape": "ok", "ki": True},
        "untrusted": {"signer": "idp2", "state": "ok", "shape": "ok", "ki": False},
        "untrusted_ki": {"signer": "idp2", "state": "ok", "shape": "ok", "ki": True},
        "otherent": {"signer": foreign, "state": "ok", "shape": "ok", "ki": True},
        "object": {"signer": k, "state": "ok", "shape": "object", "ki": False},
        "transforms3": {"signer": k, "state": "ok", "shape": "transforms3", "ki": False},
    }
    return t[name]


ENVS = ["absent", "valid", "valid_ki", "tamper", "sigvalue", "untrusted", "untrusted_ki", "otherent", "object", "transforms3"]


def det_state(name, issuer):
    k = issuer_key(issuer)
    foreign = "other" if "other" not in MD.get(issuer.replace("pad", ""), []) else "sp"
    good = {"signer": k, "otherdoc": False, "rs_signed": "rs-1", "sa_signed": SHA256, "rs": "rs-1", "sa": SHA256,
            "pass_sig": True}
    t = {
        "absent": None,
        "valid": {},
        "valid_norelay": {"rs_signed": None, "rs": None},
        "valid_sha1": {"sa_signed": SHA1, "sa": SHA1},
        "altmsg": {"otherdoc": True},
        "altrelay": {"rs": "rs-2"},
        "droprelay": {"rs": None},
        "addrelay": {"rs_signed": None, "rs": ""},
        "altsigalg": {"sa": SHA1},
        "unsupported": {"sa_signed": DSA, "sa": DSA},
        # ... a SigAlg the receiver has no verifier for, with a signature that was made under another SigAlg / by nobody
        "unsupported_alt": {"sa": DSA},
        "unsupported_forged": {"sa": "http://www.w3.org/2001/04/xmldsig-more#ecdsa-sha256", "signer": "short"},
        "noalg_forged": {"sa": "", "signer": "garbage2"},
        "noalg_alt": {"sa": "none"},
        "emptysig": {"signer": "empty"},
        "garbage": {"signer": "garbage"},
        "garbage2": {"signer": "garbage2"},
        "otherkey": {"signer": "idp2"},
        "otherent": {"signer": foreign},
        "nosig": {"pass_sig": False},
        "nosigalg": {"sa": None},
    }
    if t[name] is None:
        return None
    g = dict(good)
    g.update(t[name])
    return g


DETS = ["absent", "valid", "valid_norelay", "valid_sha1", "altmsg", "altrelay", "droprelay", "addrelay", "altsigalg",
        "unsupported", "garbage", "garbage2", "otherkey", "otherent", "nosig", "nosigalg"]
DETS_SHORT = ["absent", "valid", "garbage"]
# further named states for the seeded random requests and walks (not part of the complete products over DETS)
DETS_RANDOM = DETS + ["unsupported_alt", "unsupported_forged", "noalg_forged", "noalg_alt", "emptysig"]
REQS = [(None, None), (False, None), (True, None), (None, True)]      # (want_authn_requests_signed, only_valid_cert)
VERSIONS = ["2.0", "1.1", "2.1", "2", "2.0 ", "", "1.0"]
SLACKS = [None, 0, 180, -60]


def offsets(slack):
    s = slack or 0
    w = 86400 + s
    return [0, 3600, -3600, w - 1, w, w + 1, -(w - 1), -w, -(w + 1), 86400, -86400, 10 ** 7, -10 ** 7]


def base(rng=None, **over):
    c = {"rcv": "idp", "kind": "AuthnRequest", "actual": None, "binding": POST, "wire": None, "must": None, "ovc": None,
         "vcert": False, "only_md": True, "slack": None, "epcfg": "default", "issuer": "E1", "env": None, "det": None,
         "envname": "absent", "detname": "absent", "dest": "primary", "version": "2.0", "offset": 0, "frac": None,
         "schema": "ok", "zone": "Z", "tz": None, "how": "special", "tag": "base"}
    c.update(over)
    return c


def signed_as_required(c):
    """make the signature dimensions valid for the requirement of case c (in place)"""
    req = reads(c["must"]) == "yes" or reads(c["ovc"]) == "yes"
    c["envname"], c["detname"] = "absent", "absent"
    if req and c["binding"] == REDIRECT:
        c["detname"] = "valid"
    elif req:
        c["envname"] = "valid"
    c["env"] = env_state(c["envname"], c["issuer"])
    c["det"] = det_state(c["detname"], c["issuer"])
    return c


def fill_mostly_valid(c, rng, p=0.75):
    """other dimensions: valid with probability p, otherwise any value"""
    pick = lambda good, alln: good if rng.random() < p else rng.choice(alln)  # noqa: E731
    c["issuer"] = pick("E1", ["E1", "E2", "E3", "E4", "E1pad", "E5", "EU"])
    c["only_md"] = pick(True, [True, False])
    c["vcert"] = False
    c["slack"] = pick(None, SLACKS)
    c["epcfg"] = pick("default", EPCFGS)
    c["dest"] = pick("primary", DESTS)
    c["version"] = pick("2.0", VERSIONS)
    c["offset"] = pick(0, offsets(c["slack"]))
    return c


def pairwise(dims, rng, tries=40):
    """greedy covering array: rows over dims (dict name -> values) covering every pair of values of every two dimensions"""
    names = sorted(dims)
    uncovered = set()
    for i, a in enumerate(names):
        for b in names[i + 1:]:
            for va in range(len(dims[a])):
                for vb in range(len(dims[b])):
                    uncovered.add((a, va, b, vb))
    rows = []
    while uncovered:
        best, bestn = None, -1
        seed_pair = next(iter(sorted(uncovered)))
        for _ in range(tries):
            row = {n: rng.randrange(len(dims[n])) for n in names}
            row[seed_pair[0]], row[seed_pair[2]] = seed_pair[1], seed_pair[3]
            n = sum(1 for i, a in enumerate(names) for b in names[i + 1:] if (a, row[a], b, row[b]) in uncovered)
            if n > bestn:
                best, bestn = row, n
        for i, a in enumerate(names):
            for b in names[i + 1:]:
                uncovered.discard((a, best[a], b, best[b]))
        rows.append({n: dims[n][best[n]] for n in names})
    return rows


def sig_case(rng, rk, req, binding, envname, detname, tag):
    c = base(rcv=rk[0], kind=rk[1], binding=binding, must=req[0], ovc=req[1], tag=tag)
    fill_mostly_valid(c, rng)
    c["envname"], c["detname"] = envname, detname
    c["env"] = env_state(envname, c["issuer"])
    c["det"] = det_state(detname, c["issuer"])
    return c


# how an option can be written in a configuration (Python module, JSON or YAML file read into a dict): the Boolean, a
# number, or a text in any capitalisation / with blanks around it; None = the key is absent, PYNONE = the value None
SPELL_YES = [True, 1, 2, -1, "true", "True", "TRUE", "tRue", " true", "true ", "True\n", "yes", "Yes", "YES", "on", "On",
             "1", " 1 "]
SPELL_NO = [None, PYNONE, False, 0, "false", "False", "FALSE", "fAlse", " false ", "false\t", "no", "No", "off", "OFF", "0",
            "", " "]
SPELL_OTHER = ["t", "f", "y", "n", "maybe", "None", "null", "required", "truee", "tru", "2", "-1", "enabled", "nein"]
SPELLINGS = SPELL_YES + SPELL_NO + SPELL_OTHER
SPELL_PATHS = [("idp", "AuthnRequest", POST), ("idp", "AuthnRequest", REDIRECT), ("idp", "LogoutRequest", SOAP),
               ("aa", "AttributeQuery", SOAP), ("sp", "LogoutRequest", POST)]


def gen_spellings(rng, thorough):
    """The requirement as WRITTEN x the way the configuration is LOADED x signature state.
    (A) every spelling as want_authn_requests_signed (certificate-only option absent) x signature path x
        {unsigned, signed as a requirement wants it, signature that does not verify};
    (B) every spelling as want_authn_requests_only_with_valid_cert x want_authn_requests_signed {absent, False, True}
        x enveloped {absent, valid, content altered, untrusted key with KeyInfo} over POST / SOAP and x detached
        {absent, valid} x enveloped {absent, content altered} over Redirect.
    The loading route (load_special on a live Config | <Role>Config.load of the whole dict | config_factory |
    Config().load) rotates, so that every spelling meets every route in each block."""
    out = []
    n = 0
    paths = SPELL_PATHS if not thorough else [(r, k, b) for r, k in RK for b in (POST, REDIRECT, SOAP)]
    for v in SPELLINGS:
        for rcv, kind, b in paths:
            for st in ("unsigned", "good", "bad"):
                n += 1
                c = base(rcv=rcv, kind=kind, binding=b, must=v, how=HOWS[n % len(HOWS)], tag="spelling")
                if st != "unsigned":
                    if b == REDIRECT:
                        c["detname"] = "valid" if st == "good" else "altmsg"
                    else:
                        c["envname"] = "valid" if st == "good" else "tamper"
                c["env"], c["det"] = env_state(c["envname"], "E1"), det_state(c["detname"], "E1")
                out.append(c)
    for v in SPELLINGS:
        for must in ((None, False, True) if thorough else (None, rng.choice([False, True, "False", "True"]))):
            full = thorough or must is None
            for rcv, kind, b in [("idp", "AuthnRequest", POST), ("idp", "LogoutRequest", SOAP)][:2 if full else 1]:
                for envname in (("absent", "valid", "tamper", "untrusted_ki") if full and b == POST else ("absent", "tamper")):
                    n += 1
                    c = base(rcv=rcv, kind=kind, binding=b, must=must, ovc=v, how=HOWS[n % len(HOWS)], tag="spelling-ovc",
                             envname=envname)
                    c["env"] = env_state(envname, "E1")
                    out.append(c)
            if not full:
                continue
            for detname in ("absent", "valid"):
                for envname in ("absent", "tamper"):
                    n += 1
                    c = base(binding=REDIRECT, must=must, ovc=v, how=HOWS[n % len(HOWS)], tag="spelling-ovc",
                             envname=envname, detname=detname)
                    c["env"], c["det"] = env_state(envname, "E1"), det_state(detname, "E1")
                    out.append(c)
    return out


# what the Signature parameter is, relative to the SigAlg that is received
SIG_VALUES = ["own", "altered", "otherkey", "altmsg", "garbage2", "short", "garbage", "empty"]


def sigalg_case(rk, req, sa, value, rs="rs-1", how="special"):
    """a Redirect request of E1 whose SigAlg parameter is `sa` and whose Signature is: made with E1's metadata key over
    exactly what is received (own; the digest is the one `sa` names, SHA-256 when it names none), made under another
    SigAlg which was then replaced by `sa` (altered), made with a key that is not E1's / over another message, or a
    value nobody's key made (NOT_A_SIGNATURE)"""
    c = base(rcv=rk[0], kind=rk[1], binding=REDIRECT, must=req[0], ovc=req[1], how=how, tag="sigalg",
             detname="alg-%s-%s" % (value, "supported" if sa in SUPPORTED_ALGS else "unsupported"))
    d = det_state("valid", "E1")
    d.update(sa=sa, sa_signed=sa, rs=rs, rs_signed=rs)
    if value == "altered":
        d["sa_signed"] = SHA256 if sa != SHA256 else SHA1
    elif value == "otherkey":
        d["signer"] = "idp2"
    elif value == "altmsg":
        d["otherdoc"] = True
    elif value != "own":
        d["signer"] = value
    c["det"] = d
    return c


def gen_sigalg(rng, thorough):
    """SigAlg as RECEIVED (the five supported identifiers + UNSUPPORTED_ALGS) x the Signature value (SIG_VALUES) x entry
    point that takes a detached signature x requirement (incl. certificate-only, spelled as a text and loaded with the
    whole configuration, not required at all) x RelayState present / absent"""
    out = []
    algs = SUPPORTED_ALGS + UNSUPPORTED_ALGS
    paths = [("idp", "AuthnRequest"), ("idp", "LogoutRequest"), ("sp", "LogoutRequest")]
    for i, rk in enumerate(paths):
        for sa in algs:
            for v in SIG_VALUES:
                if thorough or i == 0 or v in ("own", "altered") or (v == "short" and sa in UNSUPPORTED_ALGS):
                    out.append(sigalg_case(rk, (True, None), sa, v))
    for rk in (paths if thorough else paths[:1]):
        for sa in algs:
            for v in (SIG_VALUES if thorough else ("own", "short")):
                out.append(sigalg_case(rk, (None, True), sa, v))
            if sa in UNSUPPORTED_ALGS:
                out.append(sigalg_case(rk, (True, None), sa, "own", rs=None))
                out.append(sigalg_case(rk, (rng.choice(["True", "yes", 1, " on "]), None), sa, rng.choice(["short", "altered"]),
                                       how=rng.choice(HOWS[1:])))
        for sa in (algs if thorough else [SHA256, DSA, ""]):
            for req in ((None, None), (False, None)):
                for v in ("own", "short"):
                    out.append(sigalg_case(rk, req, sa, v))
    return out


def instant_case(rng, n, slack, zone, off, tag="instant"):
    """a request, valid and signed as its receiver requires, issued at NOW + off with IssueInstant written in `zone`;
    receiver / request class, binding, requirement, fraction of a second and process time zone rotate"""
    rk = RK[n % len(RK)]
    b = [POST, REDIRECT, SOAP][(n // 2) % 3]
    req = REQS[(n // 3) % len(REQS)]
    if b == REDIRECT and rk[1] not in PASSES_DETACHED and req != (None, None) and req != (False, None):
        b = POST        # the query entry points take no detached signature: nothing is processed there anyway
    c = base(rcv=rk[0], kind=rk[1], binding=b, slack=slack, offset=off, zone=zone, must=req[0], ovc=req[1], tag=tag,
             frac=[None, None, "0", "999999", None, "5", ""][n % 7], tz=TZS[n % 9] if n % 9 < len(TZS) else None)
    return signed_as_required(c)


def gen_instants(rng, thorough):
    """How IssueInstant is WRITTEN: every zone spelling of ZONES x instants chosen so that the INSTANT and the WRITTEN
    date and time fall on different sides of the window in every combination: the instant now / just outside either
    edge / on either edge / a day and a half off, and the written time on / next to either edge"""
    out = []
    n = 0
    for slack in (SLACKS if thorough else [None, 180]):
        w = 86400 + (slack or 0)
        for zone in ZONES:
            sh = 60 * ZONES[zone][0]
            if thorough or slack is None:
                offs = [0, w + 1, -(w + 1), w, -w, w - 1, 129600, -129600, -w - sh, -(w + 1) - sh, w - sh, (w - 1) - sh]
            else:
                offs = [w + 1, -(w + 1), -w - sh, (w - 1) - sh]
            for off in sorted(set(offs)):
                n += 1
                out.append(instant_case(rng, n, slack, zone, off))
    return out


def generate(ctx):
    rng = ctx.rng
    cases = []
    # ---- block sig
    full = []
    for rk in RK:
        for req in REQS:
            for envname in ENVS:
                for detname in DETS:
                    full.append((rk, req, REDIRECT, envname, detname))
                for b in (POST, SOAP):
                    for detname in DETS_SHORT:
                        full.append((rk, req, b, envname, detname))
    if ctx.thorough:
        for t in full:
            cases.append(sig_case(rng, *t, tag="sig"))
    else:
        rows = pairwise({"rk": RK, "req": REQS, "env": ENVS, "det": DETS, "binding": [REDIRECT, POST, SOAP]}, rng)
        for r in rows:
            cases.append(sig_case(rng, r["rk"], r["req"], r["binding"], r["env"], r["det"], "sig-pair"))
        # all other dimensions valid: the signature dimensions alone decide.  Complete for EVERY receiver / request class:
        # enveloped state x {POST, SOAP} x requirement, and on Redirect enveloped state x detached state x requirement
        # (all 16 detached states for the classes whose entry point takes RelayState / SigAlg / Signature, absent /
        # valid / garbage for the others, which cannot even be handed one)
        for rk in RK:
            for req in REQS:
                for envname in ENVS:
                    for detname in (DETS if rk[1] in PASSES_DETACHED else DETS_SHORT):
                        c = base(rcv=rk[0], kind=rk[1], binding=REDIRECT, must=req[0], ovc=req[1], tag="sig-core",
                                 envname=envname, detname=detname)
                        c["env"], c["det"] = env_state(envname, "E1"), det_state(detname, "E1")
                        cases.append(c)
                    for b in (POST, SOAP):
                        c = base(rcv=rk[0], kind=rk[1], binding=b, must=req[0], ovc=req[1], tag="sig-core", envname=envname)
                        c["env"] = env_state(envname, "E1")
                        cases.append(c)
        for t in rng.sample(full, 300):
            cases.append(sig_case(rng, *t, tag="sig"))
    # ---- block sigalg: the SigAlg parameter as received x what the Signature parameter is
    cases.extend(gen_sigalg(rng, ctx.thorough))
    # ---- block instant: how IssueInstant is written (zone designator, fraction) x where instant and written time fall
    cases.extend(gen_instants(rng, ctx.thorough))
    # ---- block addr: endpoint configuration x Destination x binding ; Version x IssueInstant x skew
    for rk in (RK if ctx.thorough else [RK[0], RK[2], RK[5], RK[7]]):
        for epcfg in EPCFGS:
            for dest in DESTS:
                for b in (REDIRECT, POST, SOAP):
                    req = rng.choice(REQS)
                    c = base(rcv=rk[0], kind=rk[1], binding=b, epcfg=epcfg, dest=dest, must=req[0], ovc=req[1], tag="addr")
                    cases.append(signed_as_required(c))
    for slack in SLACKS:
        for off in offsets(slack) + [86399 + (slack or 0)]:
            for ver in (VERSIONS if ctx.thorough else ["2.0", rng.choice(VERSIONS[1:])]):
                rk = rng.choice(RK)
                req = rng.choice(REQS)
                c = base(rcv=rk[0], kind=rk[1], binding=rng.choice([REDIRECT, POST, SOAP]), slack=slack, offset=off,
                         version=ver, must=req[0], ovc=req[1], tag="time")
                if off == 86399 + (slack or 0):
                    c["frac"] = "999"
                cases.append(signed_as_required(c))
                # the same instant in every process time zone (east and west of UTC, explicit UTC, half-hour zone with DST)
                if ver == "2.0":
                    for tz in TZS[1:]:
                        cases.append(dict(copy.deepcopy(c), tz=tz, tag="time-tz"))
    for ver in VERSIONS:
        for rk in RK:
            for signed in (False, True):
                c = base(rcv=rk[0], kind=rk[1], binding=POST, version=ver, tag="version")
                if signed:
                    c["envname"], c["env"] = "valid", env_state("valid", "E1")
                cases.append(c)
    # ---- block key: whose key, which certificate, opt-ins
    for issuer in ["E1", "E2", "E3", "E4", "E5", "EU", "none"]:
        for signer in ["sp", "attacker", "other", "idp2"]:
            for ki in (False, True):
                for only_md in (True, False):
                    for vcert in (False, True):
                        for ovc in (None, True):
                            for state in ("ok", "tamper"):
                                if not ctx.thorough and rng.random() > 0.45:
                                    continue
                                c = base(issuer=issuer, only_md=only_md, vcert=vcert, ovc=ovc, must=rng.choice([None, True]),
                                         binding=rng.choice([POST, SOAP, REDIRECT]), tag="key", envname="key")
                                c["env"] = {"signer": signer, "state": state, "shape": "ok", "ki": ki}
                                cases.append(c)
    for issuer in ["E1", "E2", "E3", "E4", "E5", "EU", "none", "E1pad"]:
        for signer in ["sp", "attacker", "other", "idp2"]:
            for vcert in (False, True):
                c = base(issuer=issuer, vcert=vcert, must=True, binding=REDIRECT, tag="key-det", detname="key")
                c["det"] = det_state("valid", "E1")
                c["det"]["signer"] = signer
                cases.append(c)
    # ---- block wire: binding x transport encoding x kind mismatch
    for b in [REDIRECT, POST, SOAP, ARTIFACT, URI, None, PAOS, "urn:example:binding"]:
        for wire in ["deflate", "base64", "soap", "xml", "notb64"]:
            if b in (POST, ARTIFACT) and wire in ("xml", "soap"):
                continue      # outcome depends on the bytes (see Model.unravel); not part of the correspondence
            for actual in (None, "LogoutRequest"):
                for must in (None, True):
                    c = base(binding=b, wire=wire, actual=actual, must=must, tag="wire", dest=rng.choice(["primary", "absent"]))
                    signed_as_required(c)
                    cases.append(c)
    for rk in RK:
        for b in (POST, SOAP, REDIRECT):
            other = "AuthnRequest" if rk[1] != "AuthnRequest" else "AttributeQuery"
            c = base(rcv=rk[0], kind=rk[1], binding=b, actual=other, tag="kind")
            cases.append(c)
    for b in (None, URI, ARTIFACT):
        for dest in DESTS:
            c = base(binding=b, dest=dest, epcfg=rng.choice(["default", "two"]), tag="wire-dest")
            cases.append(c)
    # ---- block schema: validity shapes x signed/unsigned x requirement
    for sch in ["ok", "extra", "tz", "garbage"]:
        for envname in ("absent", "valid", "tamper"):
            for must in (None, True):
                for b in (POST, REDIRECT):
                    c = base(schema=sch, must=must, binding=b, tag="schema", envname=envname)
                    c["env"] = env_state(envname, "E1")
                    if must and b == REDIRECT:
                        c["detname"], c["det"] = "valid", det_state("valid", "E1")
                    cases.append(c)
    # ---- how the requirement is WRITTEN and how the configuration is loaded (see gen_spellings)
    cases.extend(gen_spellings(rng, ctx.thorough))
    # ---- seeded random over everything
    for _ in range(12000 if ctx.thorough else 300):
        rk = rng.choice(RK)
        req = rng.choice(REQS)
        c = sig_case(rng, rk, req, rng.choice([REDIRECT, POST, SOAP]), rng.choice(ENVS), rng.choice(DETS_RANDOM), "random")
        fill_mostly_valid(c, rng, p=0.5)
        if rng.random() < 0.2:
            c["zone"] = rng.choice(sorted(ZONES))
            c["frac"] = rng.choice([None, "0", "25", ""])
        c["vcert"] = rng.random() < 0.2
        c["tz"] = rng.choice(TZS) if rng.random() < 0.3 else None
        if rng.random() < 0.4:      # any spelling of either option, any way of loading
            c["must"], c["ovc"] = rng.choice(SPELLINGS), rng.choice(SPELLINGS + [None] * len(SPELLINGS))
            c["how"] = rng.choice(HOWS)
        c["env"] = env_state(c["envname"], c["issuer"])
        c["det"] = det_state(c["detname"], c["issuer"])
        cases.append(c)
    # lives are spread evenly over the list: the driver cuts it into shards / chunks of fixed length, and a life costs as
    # much as its requests
    lives = gen_lives(rng, ctx.thorough)
    out, step = [], max(1, len(cases) // max(1, len(lives)))
    for i, c in enumerate(cases):
        if i % step == 0 and lives:
            out.append(lives.pop())
        out.append(c)
    return out + lives


# ---------------------------------------------------------------------------- lives
# signature paths of the probes: (receiver type, request class, binding, which signature carries the requirement)
PATHS = [("idp", "AuthnRequest", REDIRECT, "det"), ("idp", "LogoutRequest", REDIRECT, "det"), ("idp", "AuthnRequest", POST, "env"),
         ("idp", "LogoutRequest", SOAP, "env"), ("aa", "AttributeQuery", SOAP, "env"), ("sp", "LogoutRequest", REDIRECT, "det"),
         ("sp", "ManageNameIDRequest", SOAP, "env"), ("idp", "NameIDMappingRequest", POST, "env")]
PROBE_SIGNERS = ["sp", "other", "attacker"]


def probe(path, signer, only_md=True, issuer="E1", must=True, ki=False, tz=None, ovc=None, how="special"):
    """one request of issuer E1 on a signature path, signed by `signer` (None: unsigned), everything else valid"""
    rcv, kind, b, sigkind = path
    c = base(rcv=rcv, kind=kind, binding=b, must=must, ovc=ovc, how=how, issuer=issuer, only_md=only_md, tz=tz, tag="probe",
             envname="probe", detname="probe")
    if signer is None:
        pass
    elif sigkind == "det":
        c["det"] = dict(det_state("valid", "E1"), signer=signer)
    else:
        c["env"] = {"signer": signer, "state": "ok", "shape": "ok", "ki": ki}
    return c


def probes(r, path, only_md=True, **kw):
    return [{"op": "req", "r": r, "c": probe(path, s, only_md, **kw)} for s in PROBE_SIGNERS]


def life(rcvs, ops, tag):
    return {"rcvs": rcvs, "ops": ops, "tag": tag}


def gen_lives(rng, thorough):
    out = []
    names = sorted(GENS)
    allpairs = [(a, b) for a in names for b in names if a != b]
    pairs = allpairs if thorough else [("G0", "G1"), ("G1", "G0"), ("G0", "G2"), ("G3", "G1"), ("G0", "G4"), ("G5", "G0"),
                                       ("G0", "G6"), ("G6", "G0")]
    n = 0
    # (1) key roll-over on one long-lived receiver: probe every signer, reload, probe, failed reload, probe, reload back,
    #     probe (every request is presented several times in the life)
    for path in PATHS:
        for a, b in pairs:
            n += 1
            via = ("entity", "store")[n % 2]
            P = lambda: probes(0, path)  # noqa: E731
            ops = (P() + [{"op": "reload", "r": 0, "gen": b, "via": via}] + P()
                   + [{"op": "reload_bad", "r": 0, "how": ("xml", "type")[n % 2]}] + P()
                   + [{"op": "reload", "r": 0, "gen": a, "via": via}] + P())
            out.append(life([{"rcv": path[0], "gen": a, "only_md": True}], ops, "life-rollover"))
    # (2) two receiver objects with different metadata in one process (class-level / module-level state would leak)
    for path in PATHS:
        for a, b in (pairs if thorough else pairs[:4]):
            n += 1
            via = ("entity", "store")[n % 2]
            P = lambda r: probes(r, path)  # noqa: E731
            ops = (P(0) + P(1) + P(0) + [{"op": "reload", "r": 1, "gen": a, "via": via}] + P(1) + P(0)
                   + [{"op": "reload", "r": 0, "gen": b, "via": via}] + P(1) + P(0))
            out.append(life([{"rcv": path[0], "gen": a, "only_md": True}, {"rcv": path[0], "gen": b, "only_md": True}], ops,
                            "life-two"))
    # (3) the embedded-certificate fallback (only_use_keys_in_metadata off) is usable only while metadata has no key
    for path in [p for p in PATHS if p[3] == "env"]:
        for a, b in [("G0", "G4"), ("G5", "G1"), ("G4", "G5")]:
            P = lambda: probes(0, path, only_md=False, ki=True)  # noqa: E731
            ops = P() + [{"op": "reload", "r": 0, "gen": b, "via": "entity"}] + P() + [{"op": "reload", "r": 0, "gen": a,
                                                                                         "via": "store"}] + P()
            out.append(life([{"rcv": path[0], "gen": a, "only_md": False}], ops, "life-fallback"))
    # (4) the requirement / endpoints of two receivers differ (one requires signatures, the other does not)
    #     -- in both orders: the lenient receiver first / the strict receiver first, unsigned requests first / last
    strict, lenient = [True, "True", "true", 1, "yes", "TRUE"], [None, False, "false", 0, PYNONE, ""]
    for path in PATHS:
        for order in (((0, True), (1, None)), ((1, None), (0, True))):
            for signers in ([None] + PROBE_SIGNERS, PROBE_SIGNERS + [None]):
                n += 1
                spelt = tuple((r, strict[n % len(strict)] if must else lenient[n % len(lenient)]) for r, must in order)
                ops = []
                for k in range(2):
                    for s in signers:
                        for r, must in spelt:
                            c = probe(path, s, must=must)
                            c["epcfg"] = ("default", "two")[r]
                            c["dest"] = ("primary", "second")[(r + k) % 2]
                            ops.append({"op": "req", "r": r, "c": c})
                out.append(life([{"rcv": path[0], "gen": "G0", "only_md": True}] * 2, ops, "life-config"))
    # (6) the requirement is part of the configuration the receiver was BUILT from (whole dict through <Role>Config.load |
    #     config_factory | Config().load), spelled in every way, and stays with the long-lived object: unsigned and signed
    #     probes, reload, probes again; a second receiver built without the requirement lives next to it
    spelled = SPELL_YES + ["False", "no", "", "maybe", False, PYNONE]
    k = 0
    for path in PATHS:
        for _ in range(len(spelled) if thorough else 5):
            k += 1
            v = spelled[k % len(spelled)]
            as_ovc = k % 4 == 3 and path[3] == "env"
            r0 = {"rcv": path[0], "gen": "G0", "only_md": True, "must": None if as_ovc else v, "ovc": v if as_ovc else None,
                  "how": HOWS[1 + k % 3]}
            r1 = {"rcv": path[0], "gen": "G0", "only_md": True, "must": None, "ovc": None, "how": HOWS[1 + (k + 1) % 3]}
            P = lambda: [{"op": "req", "r": r, "c": probe(path, sg, must=rc["must"], ovc=rc["ovc"], how="built")}  # noqa: E731
                         for sg in [None] + PROBE_SIGNERS for r, rc in ((0, r0), (1, r1))]
            ops = P() + [{"op": "reload", "r": 0, "gen": "G1", "via": ("entity", "store")[k % 2]}] + P()
            out.append(life([r0, r1], ops, "life-built"))
    # (5) seeded random walks: 1-3 receivers of any type, any request (mostly valid), reloads, failed reloads, time zones
    for _ in range(1500 if thorough else 70):
        rcvs = [{"rcv": rng.choice(["idp", "idp", "sp", "aa"]), "gen": rng.choice(names), "only_md": rng.random() < 0.8}
                for _ in range(rng.choice([1, 2, 2, 3]))]
        ops = []
        for _ in range(rng.randrange(4, 14)):
            r = rng.randrange(len(rcvs))
            x = rng.random()
            if x < 0.22:
                ops.append({"op": "reload", "r": r, "gen": rng.choice(names), "via": rng.choice(["entity", "store"])})
            elif x < 0.3:
                ops.append({"op": "reload_bad", "r": r, "how": rng.choice(["xml", "type"])})
            elif x < 0.65:
                path = rng.choice([p for p in PATHS if p[0] == rcvs[r]["rcv"]])
                ops.append({"op": "req", "r": r, "c": probe(path, rng.choice(PROBE_SIGNERS), rcvs[r]["only_md"],
                                                             issuer=rng.choice(["E1", "E1", "E2"]), ki=rng.random() < 0.5,
                                                             must=rng.choice([True, True, None] + SPELLINGS),
                                                             ovc=rng.choice([None] * 150 + SPELLINGS),
                                                             tz=rng.choice(TZS) if rng.random() < 0.3 else None)})
            else:
                rk = rng.choice([k for k in RK if k[0] == rcvs[r]["rcv"]])
                c = sig_case(rng, rk, rng.choice(REQS), rng.choice([REDIRECT, POST, SOAP]), rng.choice(ENVS),
                             rng.choice(DETS_RANDOM), "walk")
                if rng.random() < 0.15:
                    c["zone"] = rng.choice(sorted(ZONES))
                c["only_md"], c["vcert"] = rcvs[r]["only_md"], False
                c["tz"] = rng.choice(TZS) if rng.random() < 0.3 else None
                ops.append({"op": "req", "r": r, "c": c})
        out.append(life(rcvs, ops, "life-walk"))
    return out


# ---------------------------------------------------------------------------- replay that stands on its own
def _fails(cases, observed):
    """indexes of the cases whose observed output fails the spec (Coq evaluates)"""
    from harness import common

    terms = [coq_case(c, o) for c, o in zip(cases, observed)]
    results, _errors = common.eval_cases(PID, IMPORTS, CASE_TYPE, RUNNER, terms, tag="shrink")
    return sorted({i for i, code in results if code >= 2})


def shrink(case, ctx):
    """The driver hands over the smallest failing case.  A single request that fails only because of what its worker
    process had seen before (state kept by the code under test between requests) does not fail when replayed alone:
    it is then replaced by the smallest failing LIFE of this run -- a life is observed in a process of its own and
    replays as it is.  A failing life is cut down to its shortest failing prefix."""
    try:
        if "ops" not in case:
            alone = life([{"rcv": case["rcv"], "gen": "G0", "only_md": case["only_md"]}], [{"op": "req", "r": 0, "c": case}],
                         "alone")
            if case["vcert"] or _fails([alone], [observe(alone)]):
                return case
            from harness import common

            lives = [c for c in generate(common.Ctx(PID, ctx.tier, ctx.seed)) if "ops" in c]
            obs = [observe(c) for c in lives]
            bad = _fails(lives, obs)
            if not bad:
                return case
            case = lives[min(bad, key=lambda i: len(json.dumps(lives[i])))]
        # shortest failing prefix
        lo, hi = 1, len(case["ops"])
        while lo < hi:
            mid = (lo + hi) // 2
            pre = dict(case, ops=case["ops"][:mid])
            if _fails([pre], [observe(pre)]):
                hi = mid
            else:
                lo = mid + 1
        return dict(case, ops=case["ops"][:lo])
    except Exception:  # noqa
        return case


# ---------------------------------------------------------------------------- evidence helpers
def offset_class(case):
    w = 86400 + (case["slack"] or 0)
    o = case["offset"]
    if abs(o) == w:
        return "edge+" if o > 0 else "edge-"
    if abs(o) < w:
        return "near-edge" if abs(o) >= w - 1 else "inside"
    return "just-outside" if abs(o) == w + 1 else "outside"


def nontrivial(case, obs):
    if "ops" in case:
        # a life is non-trivial when it has a request after a change of state or a second receiver; distinct = distinct
        # sequence of (operation, what was presented, verdict)
        key = [case["tag"], [(r["rcv"], r["gen"], r["only_md"]) for r in case["rcvs"]]]
        for o, st in zip(case["ops"], obs["steps"]):
            if o["op"] == "req":
                key.append((o["r"], nontrivial(o["c"], st) or "plain", st["verdict"], o["c"].get("tz")))
            else:
                key.append((o["r"], o["op"], o.get("gen"), st["reload"]))
        return key if len(case["rcvs"]) > 1 or any(o["op"] != "req" for o in case["ops"]) else None
    req = "cert-only" if reads(case["ovc"]) == "yes" else ("required" if reads(case["must"]) == "yes" else "optional")
    if reads(case["ovc"]) == "other" or (req == "optional" and reads(case["must"]) == "other"):
        req = "unclear"
    key = (repr(case["must"]), repr(case["ovc"]), case.get("how", "special"),
           case["rcv"], case["kind"], str(case["binding"]), req, case["envname"], case["detname"], case["dest"],
           case["epcfg"], case["version"], offset_class(case), case["schema"], case["wire"], case["actual"], obs["verdict"],
           case.get("tz"), (case["env"] or {}).get("signer"), (case["det"] or {}).get("signer"),
           (case["det"] or {}).get("sa"), zone_of(case), case.get("frac"))
    trivial = (req == "optional" and case["envname"] == "absent" and case["detname"] == "absent" and case["dest"] == "primary"
               and case["version"] == "2.0" and case["offset"] == 0 and case["schema"] == "ok" and not case["wire"]
               and not case["actual"] and case["epcfg"] == "default" and zone_of(case) == "Z")
    return None if trivial else key


def histogram(cases, observed):
    h = {"by_tag": {}, "verdict": {}, "kind": {}, "binding": {}, "requirement": {}, "enveloped": {}, "detached": {},
         "destination": {}, "version": {}, "offset": {}, "epcfg": {}, "issuer": {}, "unexpected_exceptions": {},
         "time_zone": {}, "issue_instant_zone": {}, "issue_instant_vs_written": {}, "sigalg_received": {},
         "signature_value": {}, "requirement_reads": {}, "loaded_by": {}, "lives": {"lives": 0, "requests": 0, "reloads": 0, "reloads_refused": 0, "failed_reloads": 0,
                                    "receivers_per_life": {}, "ops_per_life": {}, "accepted_after_a_reload": 0,
                                    "rejected_after_a_reload": 0}}

    def inc(d, k):
        d[str(k)] = d.get(str(k), 0) + 1

    flat = []
    for c, o in zip(cases, observed):
        if "ops" not in c:
            flat.append((c, o))
            continue
        L = h["lives"]
        L["lives"] += 1
        inc(h["by_tag"], c["tag"])
        inc(L["receivers_per_life"], len(c["rcvs"]))
        inc(L["ops_per_life"], len(c["ops"]))
        reloaded = set()
        for op, st in zip(c["ops"], o["steps"]):
            if op["op"] == "req":
                L["requests"] += 1
                flat.append((dict(op["c"], tag="life-step"), st))
                if op["r"] in reloaded:
                    L["accepted_after_a_reload" if st["verdict"] == "Accept" else "rejected_after_a_reload"] += 1
            elif op["op"] == "reload":
                L["reloads"] += 1
                reloaded.add(op["r"])
                if st["reload"] is not True:
                    L["reloads_refused"] += 1
            else:
                L["failed_reloads"] += 1
    for c, o in flat:
        inc(h["time_zone"], c.get("tz"))
        inc(h["issue_instant_zone"], zone_of(c) or "(none)")
        if zone_of(c) != "Z":
            inc(h["issue_instant_vs_written"], "instant %s / written %s" % (
                offset_class(c), offset_class(dict(c, offset=written_time(c) - NOW))))
        if c["det"]:
            inc(h["sigalg_received"], "(absent)" if c["det"]["sa"] is None else (c["det"]["sa"] or "(empty)"))
            inc(h["signature_value"], c["det"]["signer"] if c["det"]["signer"] in NOT_A_SIGNATURE else
                ("key, SigAlg replaced" if c["det"]["sa"] != c["det"]["sa_signed"] else "key"))
        inc(h["by_tag"], c["tag"])
        inc(h["verdict"], o["verdict"])
        inc(h["kind"], c["rcv"] + ":" + c["kind"])
        inc(h["binding"], SHORT.get(c["binding"], c["binding"]) if c["binding"] else "None")
        inc(h["requirement"], "%r/%r" % (written(c["must"])[1] if c["must"] is not None else "absent",
                                         written(c["ovc"])[1] if c["ovc"] is not None else "absent"))
        inc(h["requirement_reads"], "%s/%s" % (reads(c["must"]), reads(c["ovc"])))
        inc(h["loaded_by"], c.get("how", "special"))
        inc(h["enveloped"], c["envname"])
        inc(h["detached"], c["detname"])
        inc(h["destination"], c["dest"])
        inc(h["version"], repr(c["version"]))
        inc(h["offset"], offset_class(c))
        inc(h["epcfg"], c["epcfg"])
        inc(h["issuer"], c["issuer"])
        if o["code"] == 99:
            inc(h["unexpected_exceptions"], o["verdict"])
    return h


def explain_term(t):
    return "C07.Corr.explain (%s)" % t


STR_CONST = _str_consts()
IMPORTS = "From Verif Require Import C07.Model C07.Spec C07.Corr.\n" + preamble()
