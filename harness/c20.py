"""C20 — redirect-binding signing uses the caller's own key under any thread interleaving.

Real threading.Thread workers run the public entry points (Entity.apply_binding /
pack.http_redirect_message with sign=True, sigver.verify_redirect_signature) of real entities with
distinct real RSA keys.  RSACrypto.get_signer, RSASigner.sign and RSASigner.verify are wrapped (from
here, no repo edit) with entry/exit gates; a deterministic scheduler lets exactly one worker run at a
time, from gate to gate, in the order given by the case's schedule.  Every produced signature is
identified against reference signatures made directly with the `cryptography` package (RSA
PKCS#1 v1.5 is deterministic) and verified under every entity's certificate.

Pool cases add two dimensions: (1) OS threads are not entities - a pool thread serves jobs of several
entities one after the other and the main thread signs too; (2) entities have a life cycle - they are
built by the real constructors from key/certificate FILES that are replaced (same / other mtime, in
place / rename / symlink) while older entities live on; signatures are verified under the certificate
each entity publishes itself."""
import base64
import hashlib
import itertools
import os
import sys
import threading
import zlib
from urllib.parse import parse_qs, urlencode, urlparse

from harness import env, fixtures, world
from harness.common import Raw, cq

PID = "C20"
PARALLEL = 6
IMPORTS = "From Verif Require Import C20.Model C20.Spec C20.Proofs C20.Corr."
CASE_TYPE = "C20.Corr.case"
RUNNER = "C20.Corr.run"
FINDING_CLASSES = {1: "C20-F1", 2: "C20-F2", 3: "C20-F3"}
RULE = ("schedules = lists of thread ids, one entry = run that real thread to its next gate.  Complete enumeration of "
        "ALL interleavings for 2 threads with all six gates (entry+exit of get_signer / sign / verify; 252 schedules per "
        "configuration) over the configurations {sign|sign same alg, sign|sign different alg, sign|verify(cert), "
        "sign|verify(own key), verify|verify, two threads of ONE entity same/different alg, via apply_binding and via "
        "http_redirect_message}, for 2 threads x 2 calls with entry gates only (252 per configuration), for the "
        "get-exit/sign-entry window, for 3 threads (entities A, B, C) with entry gates (1680 schedules, complete); seeded "
        "samples of the 756756 interleavings of 3 threads with all gates and of random programs (2-4 threads, 1-3 calls, "
        "random gate subsets, mixed and unsupported algorithms, explicit sigkey, two entities with one key pair, stutter "
        "entries).  In addition line- and bytecode-granular scheduling points (sys.settrace; results only): complete "
        "single-pre-emption schedules for 5 two-thread configurations, seeded two-pre-emption and bursty schedules.  "
        "non-trivial = distinct (configuration, schedule) where another thread's get_signer on the same algorithm runs "
        "between a get_signer and the sign/verify that uses its result (gate modes), or with >= 1 pre-emption (fine modes).  "
        "OS THREADS (pool cases): jobs (calls of one entity) are assigned to OS threads - pool threads that serve jobs of "
        "DIFFERENT entities one after the other, and the main thread (played by a fresh thread per case) that builds the "
        "entities and may sign in between; the schedule names OS threads.  Complete: all interleavings (entry gates) of a "
        "thread serving A then B beside a thread serving C for 5 configurations (same / different SigAlg, via pack, "
        "sign-then-verify-own, verify-own-then-sign), main-thread signing for A and B; every sequence of 2 and of 3 jobs "
        "over {A,B} x {sign sha256, sign sha512, verify-with-own-key} on one OS thread (length 2 also on the main thread); "
        "seeded: A,B,A / crossed assignments, all-gates interleavings, random pools (2-6 jobs, 1-3 pool threads + main).  "
        "ENTITY LIFE CYCLE (deployment cases, real files in a scratch directory, real constructors): key pair + "
        "certificate replaced at a path the configuration keeps naming, complete over {same, later, earlier mtime} x "
        "{overwritten in place, renamed over, symlink switched} x {Saml2Client, Server, bare RSACrypto} (old entity has / "
        "has not signed before the roll-over; same / different entityid), roll-back (k0,k1,k0 with one time stamp), two "
        "paths exchanging their pairs, seeded random scripts; the entities built before and after then sign "
        "concurrently and every signature is verified under the certificate each entity itself publishes "
        "(sec.my_cert).  CONFIGURATION OBJECTS (lineage cases): the Config an entity is built from is derived from the "
        "Config (or the dict) of another live entity - copy.copy + own key_file/cert_file, reload of the updated dict, the "
        "very object re-pointed; complete over {Saml2Client, Server} x {copy, reload, re-point} x {derived after / before "
        "the parent entity is built} x {other path, same path rolled over, same path same pair}; seeded: "
        "security_context(parent) in between, parent signed before, same / own entityid, chains A->B->C with the root "
        "re-pointed last, one object walking k0,k1,k0, random scripts.  CONFIGURATION SOURCES (src- cases, round 5): entities "
        "built from a dict (load / config_factory), a Config object and python configuration FILES written into a fresh "
        "scratch directory per case (load_file, config_factory(type, file), config_file= of Saml2Client / Server; absolute / "
        "relative to the working directory, with / without '.py'); complete over {same base name in two directories, two "
        "base names in one directory, two base names in two directories, the same file twice} x {entry point} x "
        "{Saml2Client, Server} (load order, third load, spelling, working directory seeded), complete over {spelling} x "
        "{working directory: scratch, tenant a, tenant b} for the same base name in two directories, every load order of "
        "three tenants with one base name, every interleaving (entry gates; quick: 8 of 20) of two such tenants signing; "
        "files edited / removed / rewritten after a load (first-loaded directory: stale; second directory: seen), key "
        "files rolled over under a module that stays, files that do not exist (the load raises since 581b4f03: a slot "
        "without entity; always asked for WITH their directory), configurations given as a package directory "
        "<dir>/<base>/__init__.py (alone, edited, before / after another tenant's file of that name, beside a file of that "
        "name, two packages, another base name), all kinds of sources in one process with all gates; loads by the main thread before the pool "
        "threads start AND while they wait at their gates; seeded random scripts.  sys.path / sys.modules / importer "
        "caches / working directory are restored after each case.  non-trivial (pool) = an OS thread serves two "
        "entities, or a path is re-installed, or a configuration object is derived / re-pointed, or a configuration "
        "file is involved")
TRUSTED = ["deterministic scheduler + gate wrappers / trace hooks in harness/c20.py (one worker runs at a time; switches "
           "only at gates, or at line / bytecode events in the fine modes)",
           "reference signatures / certificate verification done with the `cryptography` package directly",
           "identification of a signature value with (key, digest, octets) by byte equality with the reference",
           "deployment steps carried out by harness/c20.py (files written / renamed / symlinked, os.utime); a published "
           "certificate is identified with a fixture key pair by equality of its base64 body",
           "configuration modules written / edited / removed by harness/c20.py (_write_conf: CONFIG = repr of the dict of "
           "harness/world.py), importlib.invalidate_caches() after each change (what importlib's documentation asks of a "
           "program that creates modules while it runs), sys.dont_write_bytecode during a case (a pyc is validated by mtime in "
           "seconds + size: PYTHON itself would not see an edit within the second), ImportState (restoring sys.path, "
           "sys.modules, sys.path_importer_cache, the working directory); relative entries of sys.path_importer_cache are "
           "dropped at the start of a case (importlib freezes the directory of '.' when the entry is first used)",
           "source-to-Gallina translator v2 harness/py2coq2.py + coq/theories/Base/Py2.v (its trusted base: notes/translator_v2.md) "
           "and the specs in harness/c20.py:src2_items.  Re-translated from the CURRENT text on every run into coq/gen/C20Src2.v "
           "and proved equal to the model for all inputs (c20_source2_*): sigver.RSACrypto.get_signer (with the module table "
           "SIGNER_ALGS read from the text; every SigAlg str, with / without sigkey), sigver.RSASigner.sign (no key argument / "
           "explicit key), sigver.RSASigner.verify, pack.http_redirect_message (theorem: sign=True, typ SAMLRequest / SAMLResponse; "
           "SIG_ALLOWED_ALG, REQ_ORDER, RESP_ORDER read from the text), config.Config.getattr (theorem: context '' and context "
           "None), sigver.security_context (theorem: crypto_backend xmlsec1 with an existing xmlsec_binary and a key_file; any "
           "further attributes on the Config object; the Config object is returned unchanged), config.Config._load (theorem: "
           "every loader state, directory and base name: the module handed back is Source2.load_which = Model.load_module) and "
           "config.Config.load_file (name with / without '.py'; CONFIG deep-copied into self.load).  Pinned by text (ast) instead of "
           "translated: RSASigner.__init__, Signer.__init__, RSACrypto.__init__ (replaced by object displays), the "
           "sec_backend / my_cert / key_file / cert_file / crypto / metadata assignments of SecurityContext.__init__, the "
           "None defaults of get_signer(sigkey) and sign(key)",
           "hypotheses of the c20_source2 theorems about external calls: key_sign / key_verify are an ideal scheme on str "
           "messages and raise on a None key; urlencode, deflate_and_base64_encode, add_query, base64.b64encode, str.encode "
           "return a str and do not raise; os.path.exists(xmlsec_binary) is True; _get_xmlsec_cryptobackend returns an object; "
           "import_rsa_key_from_file / read_cert_from_file return the content installed at the path at the moment of the "
           "call (Model.fread) or raise OSError"]
ASSUMPTIONS = ["ideal signatures (hypothesis of c20_own_key; real RSA PKCS#1 v1.5 is executed in the correspondence)",
               "the model's atomic step is gate-to-gate: pre-emption inside get_signer/sign/verify or between two gates is "
               "not in the model; the correspondence exhibits it only by the line/bytecode samples (notes/C20.md)",
               "XML signatures (xmlsec1 path, key file per call) are outside this mechanism",
               "the model has no per-OS-thread state and reads key/certificate files by content at construction only "
               "(what the anchored code does); both are exhibited by the pool / deployment cases, the deployment script "
               "itself runs before the pool threads start (no installation concurrent with signing)",
               "a configuration object is, for the model, the path it names at the moment an entity is built from it (its "
               "origin and history are irrelevant: c20_config_origin_irrelevant); exhibited by the lineage cases.  Config "
               "objects are derived by copy.copy / dict reload / re-pointing only (copy.deepcopy of a loaded Config fails in "
               "the unchanged library: its MetadataStore holds an RSA key object)",
               "python configuration files: 'the certificate of the entity' is one its OWN file accounts for (Spec.own_source: a "
               "path that very file has named, the pair installed there when the entity is built).  A file EDITED after its "
               "first load is answered by importlib from sys.modules: the entity holds the pair its own file named BEFORE "
               "(key and certificate consistent) - modelled as it is, exhibited (src-edit-*, src-unlink-rewrite), counted in "
               "input_distribution.sources, NOT counted as a violation of C20 (no other entity's key is involved; the strict "
               "reading 'what the file says when the entity is built' is theorem c20_deploy_own_pair under no_reedit, and "
               "c20_loader_stale_not_fresh shows that hypothesis necessary).  A file that does not exist answered by another "
               "directory's module was finding C20-F3 (fixed by 581b4f03: the load raises)",
               "what is left of C20-F3, by design of 581b4f03: a file asked for by its BARE name (no directory: head == '') "
               "that is not in the working directory is still answered by whatever module of that name Python finds - it "
               "cannot be told from a module meant to be found on sys.path.  Modelled (Model.answer, `bare`), theorem "
               "c20_loader_bare_missing_refuted, hypothesis bare_present of c20_source_own_key; the registered run does not ask "
               "for it (harness no_bare_missing spells such a load with its directory); the model was validated on it offline "
               "(notes/C20.md)",
               "the process's own sys.path holds no configuration modules and no entry for the working directory ('' / '.'; "
               "dropped by ImportState for the time of a case): the model's search path starts empty.  An application directory "
               "on sys.path that holds a module of the name asked for is one more way into C20-F3",
               "not covered: os.chdir between two loads (importlib freezes the directory of a relative sys.path entry at first "
               "use - the working directory is fixed within a case, varied across cases), configuration modules that import "
               "further modules, dotted module names, removal of a package directory, a directory <dir>/<base>/ without "
               "__init__.py (namespace package: no __file__), .pyc files (bytecode writing is switched off), symlinked "
               "tenant directories (os.path.samefile), loads by two threads at the same time (importlib's import lock)"]



# ------------------------------------------------------------------------------------ translator v2: source tie
def _src(*p):
    return os.path.join(env.SRC, "saml2", *p)


def _module_tree(path):
    import ast

    with open(path) as f:
        return ast.parse(f.read())


def _module_assign(tree, name):
    import ast
    from harness.py2coq2 import Untranslatable

    hits = [n for n in tree.body if isinstance(n, ast.Assign) and len(n.targets) == 1
            and isinstance(n.targets[0], ast.Name) and n.targets[0].id == name]
    if len(hits) != 1:
        raise Untranslatable("module constant %s: %d top-level assignments" % (name, len(hits)))
    for n in ast.walk(tree):        # a table that is also assigned / mutated elsewhere in the module is not a constant
        if n not in hits and isinstance(n, (ast.Assign, ast.AugAssign, ast.AnnAssign, ast.Delete)):
            tg = n.targets if isinstance(n, (ast.Assign, ast.Delete)) else [n.target]
            for t in tg:
                base = t
                while isinstance(base, (ast.Subscript, ast.Attribute)):
                    base = base.value
                if isinstance(base, ast.Name) and base.id == name:
                    raise Untranslatable("module constant %s is written at line %d" % (name, n.lineno))
        if isinstance(n, ast.Global) and name in n.names:
            raise Untranslatable("module constant %s is declared global at line %d" % (name, n.lineno))
    return hits[0].value


def _const_eval(tree, node):
    """str constants, names of module-level str/tuple constants of `tree`, tuples of these"""
    import ast
    from harness.py2coq2 import Untranslatable

    if isinstance(node, ast.Constant) and isinstance(node.value, str):
        return node.value
    if isinstance(node, ast.Tuple):
        return tuple(_const_eval(tree, x) for x in node.elts)
    if isinstance(node, ast.Name):
        return _const_eval(tree, _module_assign(tree, node.id))
    raise Untranslatable("constant expression %s" % ast.dump(node)[:80])


def sig_allowed_term():
    """SIG_ALLOWED_ALG of xmldsig/__init__.py as it reads now -> pyval term (tuple of (short, long) pairs)"""
    from harness.py2coq2 import cstr

    tree = _module_tree(_src("xmldsig", "__init__.py"))
    v = _const_eval(tree, _module_assign(tree, "SIG_ALLOWED_ALG"))
    return "(PList [%s])" % "; ".join("PList [PStr %s; PStr %s]" % (cstr(a), cstr(b)) for a, b in v)


def signer_algs_term():
    """SIGNER_ALGS of sigver.py as it reads now -> pyval term: a dict  SigAlg URI -> RSASigner object.  Every value
    must read RSASigner(<...>.hashes.NAME()) - digest NAME, key left at its default, which must be None."""
    import ast
    from harness.py2coq2 import Untranslatable, cstr, find_function

    tree = _module_tree(_src("sigver.py"))
    xtree = _module_tree(_src("xmldsig", "__init__.py"))
    d = _module_assign(tree, "SIGNER_ALGS")
    if not isinstance(d, ast.Dict):
        raise Untranslatable("SIGNER_ALGS is not a dict display")
    init = find_function(tree, "RSASigner.__init__")
    names = [a.arg for a in init.args.args]
    if names != ["self", "digest", "key"] or len(init.args.defaults) != 1 or not (
            isinstance(init.args.defaults[0], ast.Constant) and init.args.defaults[0].value is None):
        raise Untranslatable("RSASigner.__init__ signature is not (self, digest, key=None)")
    items = []
    for k, v in zip(d.keys, d.values):
        if k is None:
            raise Untranslatable("** in SIGNER_ALGS")
        uri = _const_eval(xtree, k)
        ok = (isinstance(v, ast.Call) and isinstance(v.func, ast.Name) and v.func.id == "RSASigner" and len(v.args) == 1
              and not v.keywords and isinstance(v.args[0], ast.Call) and not v.args[0].args and not v.args[0].keywords
              and isinstance(v.args[0].func, ast.Attribute) and isinstance(v.args[0].func.value, ast.Attribute)
              and v.args[0].func.value.attr == "hashes")
        if not ok:
            raise Untranslatable("SIGNER_ALGS[%s] is not RSASigner(<...>.hashes.NAME())" % uri)
        items.append("(%s, %s)" % (cstr(uri), rsasigner_obj("(PStr %s)" % cstr(v.args[0].func.attr), "PNone")))
    return "(PObj [%s])" % "; ".join(items)


def rsasigner_obj(digest, key):
    return '(PObj [("__class__", PStr "RSASigner"); ("key", %s); ("digest", %s)])' % (key, digest)


def _default_is_none(path, qualname, param):
    """the translator does not use default values: a call that leaves `param` out is given PNone, which is only
    right while the source says `param=None`"""
    import ast
    from harness.py2coq2 import Untranslatable, find_function

    fn = find_function(_module_tree(path), qualname)
    args = fn.args.args
    defaults = [None] * (len(args) - len(fn.args.defaults)) + list(fn.args.defaults)
    for a, dflt in zip(args, defaults):
        if a.arg == param:
            if isinstance(dflt, ast.Constant) and dflt.value is None:
                return
            break
    raise Untranslatable("%s: default of %s is not None" % (qualname, param))


def _pinned(path, qualname, expected):
    """constructors the specs below replace by an object display: their text (ast.dump of the body) must be the
    pinned one, else the function that uses the display is untranslatable"""
    import ast
    from harness.py2coq2 import Untranslatable, find_function

    fn = find_function(_module_tree(path), qualname)
    got = [ast.unparse(st) for st in fn.body if not (isinstance(st, ast.Expr) and isinstance(st.value, ast.Constant))]
    if got != expected:
        raise Untranslatable("%s no longer reads %r" % (qualname, expected))


def _guarded(*checks):
    """spec['calls'] entries are evaluated at translation time: run the source guards then (fail-closed)"""
    def deco(build):
        def wrapped(*a):
            for c in checks:
                c()
            return build(*a)
        # keep the arity the translator inspects
        if build.__code__.co_argcount >= 2:
            return lambda args, kw: wrapped(args, kw)
        return lambda args: wrapped(args)
    return deco


def _secctx_obj(a, kw):
    """SecurityContext(crypto, key_file, cert_file=..., sec_backend=..., ...) as the object __init__ makes of it - the
    fields the property can see: sec_backend (stored as given), my_cert (read_cert_from_file(cert_file, cert_type),
    cert_type left at "pem"), key_file / cert_file; guarded by the pinned statements of SecurityContext.__init__"""
    import ast
    from harness.py2coq2 import Untranslatable, find_function

    fn = find_function(_module_tree(_src("sigver.py")), "SecurityContext.__init__")
    body = [ast.unparse(st) for st in fn.body]
    for need in ("self.crypto = crypto", "self.sec_backend = sec_backend", "self.key_file = key_file", "self.cert_file = cert_file",
                 "self.my_cert = read_cert_from_file(cert_file, cert_type)", "self.metadata = metadata"):
        if body.count(need) != 1:
            raise Untranslatable("SecurityContext.__init__ no longer has exactly one %r" % need)
    for st in ast.walk(fn):
        if isinstance(st, (ast.Assign, ast.AugAssign)):
            for t in (st.targets if isinstance(st, ast.Assign) else [st.target]):
                if isinstance(t, ast.Attribute) and t.attr in ("sec_backend", "my_cert", "crypto", "key_file", "cert_file", "metadata") \
                        and ast.unparse(st) not in ("self.crypto = crypto", "self.sec_backend = sec_backend", "self.key_file = key_file",
                                                    "self.cert_file = cert_file", "self.metadata = metadata",
                                                    "self.my_cert = read_cert_from_file(cert_file, cert_type)"):
                    raise Untranslatable("SecurityContext.__init__ writes %s elsewhere" % t.attr)
    names = [x.arg for x in fn.args.args]
    if names[:3] != ["self", "crypto", "key_file"]:
        raise Untranslatable("SecurityContext.__init__ positional parameters")
    if len(a) != 2 or sorted(kw) != sorted(["cert_file", "metadata", "only_use_keys_in_metadata", "cert_handler_extra_class",
                                            "generate_cert_info", "tmp_cert_file", "tmp_key_file", "validate_certificate",
                                            "enc_key_files", "encryption_keypairs", "sec_backend", "delete_tmpfiles"]):
        raise Untranslatable("SecurityContext(...) is called with other arguments than the pinned ones")
    return ('(py_bind (read_cert %s) (fun my_cert => PObj [("__class__", PStr "SecurityContext"); ("crypto", %s); '
            '("sec_backend", %s); ("key_file", %s); ("cert_file", %s); ("my_cert", my_cert); ("metadata", %s); '
            '("enc_key_files", %s)]))' % (kw["cert_file"], a[0], kw["sec_backend"], a[1], kw["cert_file"], kw["metadata"],
                                          kw["enc_key_files"]))


def _module_file(a):
    """getattr(mod, "__file__", None) -> the field "file" of the module object, None when it has none"""
    from harness.py2coq2 import Untranslatable, cstr

    if len(a) != 3 or a[1] != "(PStr %s)" % cstr("__file__") or a[2] != "PNone":
        raise Untranslatable("getattr(...) other than getattr(<module>, '__file__', None)")
    return '(p2_getattr3 %s "file" PNone)' % a[0]


def src2_items():
    """[(path, qualname, spec)] for harness.py2coq2: the decision functions of the anchored code that Model.v mirrors.
    External calls (RSA signing / verification, urlencode, DEFLATE+base64, file reads, the xmlsec1 wrapper) are extra
    parameters (Section variables of C20/Source2.v); the module tables SIGNER_ALGS / SIG_ALLOWED_ALG / REQ_ORDER /
    RESP_ORDER are read from the source text."""
    from harness.py2coq2 import cstr

    sig, pack, conf = _src("sigver.py"), _src("pack.py"), _src("config.py")
    F1, F2, F3, F4 = "pyval -> pyval", "pyval -> pyval -> pyval", "pyval -> pyval -> pyval -> pyval", \
        "pyval -> pyval -> pyval -> pyval -> pyval"

    def order(name):
        tree = _module_tree(sig)
        return "(PList [%s])" % "; ".join("PStr %s" % cstr(x) for x in
                                          [_const_eval(tree, e) for e in _module_assign(tree, name).elts])

    def lazy(f):       # a table that cannot be read makes the function untranslatable, not the harness crash
        class L(dict):
            def __init__(self, fs):
                dict.__init__(self, {k: None for k in fs})
                self.fs = fs

            def __getitem__(self, k):
                return self.fs[k]()

            def __contains__(self, k):
                return k in self.fs
        return L(f)

    mk_signer = _guarded(lambda: _pinned(sig, "RSASigner.__init__", ["Signer.__init__(self, key)", "self.digest = digest"]),
                         lambda: _pinned(sig, "Signer.__init__", ["self.key = key"]))(
        lambda a: rsasigner_obj(a[0], a[1]))
    mk_crypto = _guarded(lambda: _pinned(sig, "RSACrypto.__init__", ["self.key = key"]))(
        lambda a: '(PObj [("__class__", PStr "RSACrypto"); ("key", %s)])' % a[0])
    get_signer1 = _guarded(lambda: _default_is_none(sig, "RSACrypto.get_signer", "sigkey"))(
        lambda a: "(src2_get_signer v_backend %s PNone)" % a[0])
    sign1 = _guarded(lambda: _default_is_none(sig, "RSASigner.sign", "key"))(
        lambda a: "(src2_sign key_sign v_signer %s PNone)" % a[0])
    return [
        (sig, "RSACrypto.get_signer", {
            "name": "src2_get_signer", "params": ["self", "sigalg", "sigkey"],
            "globals": lazy({"SIGNER_ALGS": signer_algs_term}), "calls": {"RSASigner": mk_signer}}),
        (sig, "RSASigner.sign", {
            "name": "src2_sign", "params": ["self", "msg", "key"], "extra_params": [("key_sign", F3)],
            "calls": {"saml2.cryptography.asymmetric.key_sign": lambda a: "(key_sign %s %s %s)" % tuple(a)}}),
        (sig, "RSASigner.verify", {
            "name": "src2_verify", "params": ["self", "msg", "sig", "key"], "extra_params": [("key_verify", F4)],
            "calls": {"saml2.cryptography.asymmetric.key_verify": lambda a: "(key_verify %s %s %s %s)" % tuple(a)}}),
        (pack, "http_redirect_message", {
            "name": "src2_http_redirect_message",
            "params": ["message", "location", "relay_state", "typ", "sigalg", "sign", "backend"],
            "extra_params": [("key_sign", F3), ("urlencode", F1), ("deflate_b64", F1), ("add_query", F2), ("b64encode", F1),
                             ("str_encode", F2)],
            "globals": lazy({"REQ_ORDER": lambda: order("REQ_ORDER"), "RESP_ORDER": lambda: order("RESP_ORDER"),
                             "SIG_ALLOWED_ALG": sig_allowed_term}),
            "calls": {"urlencode": lambda a: "(urlencode %s)" % a[0],
                      "add_query": lambda a: "(add_query %s %s)" % (a[0], a[1]),
                      "deflate_and_base64_encode": lambda a: "(deflate_b64 %s)" % a[0],
                      "base64.b64encode": lambda a: "(b64encode %s)" % a[0],
                      "string.encode": lambda a: "(str_encode v_string %s)" % a[0],
                      "backend.get_signer": get_signer1, "signer.sign": sign1}}),
        (conf, "Config.getattr", {"name": "src2_config_getattr", "params": ["self", "attr", "context"]}),
        # the loader of python configuration files.  The interpreter's import machinery enters as functions of the
        # call (Section variables of C20/Source2.v): sys.path.insert answers None - what it does to the search is part
        # of the hypothesis about importlib.import_module, which is therefore given the directory `head` besides the
        # name; module.__file__ is the field "file" of the module object; importlib.util.module_from_spec answers
        # the module as spec.loader.exec_module (result dropped) leaves it (aliasing is not modelled)
        (conf, "Config._load", {
            "name": "src2_config_load_module", "params": ["self", "fil"], "lenient_raise_args": True,
            "extra_params": [("path_split", F1), ("sys_path", "pyval"), ("path_insert", F2), ("import_module", F2),
                             ("abspath", F1), ("path_join", F2), ("isfile", F1), ("samefile", F2), ("spec_from_file", F2),
                             ("module_from_spec", F1), ("exec_module", F2)],
            "globals": {"sys.path": "sys_path", "os.sep": '(PStr "/")'},
            "calls": {"os.path.split": lambda a: "(path_split %s)" % a[0],
                      "sys.path.insert": lambda a: "(path_insert %s %s)" % (a[0], a[1]),
                      "importlib.import_module": lambda a: "(import_module v_head %s)" % a[0],
                      "os.path.abspath": lambda a: "(abspath %s)" % a[0],
                      "os.path.join": lambda a: "(path_join %s %s)" % (a[0], a[1]),
                      "os.path.isfile": lambda a: "(isfile %s)" % a[0],
                      "os.path.samefile": lambda a: "(samefile %s %s)" % (a[0], a[1]),
                      "importlib.util.spec_from_file_location": lambda a: "(spec_from_file %s %s)" % (a[0], a[1]),
                      "importlib.util.module_from_spec": lambda a: "(module_from_spec %s)" % a[0],
                      "spec.loader.exec_module": lambda a: "(exec_module v_spec %s)" % a[0],
                      "getattr": _module_file}}),
        (conf, "Config.load_file", {
            "name": "src2_config_load_file", "params": ["self", "config_filename", "metadata_construction"],
            "extra_params": [("load_module", F2), ("deepcopy", F1), ("config_load", F2)],
            "ignore_calls": ["logger.warning", "_warn"],
            "calls": {"self._load": lambda a: "(load_module v_self %s)" % a[0],
                      "copy.deepcopy": lambda a: "(deepcopy %s)" % a[0],
                      "self.load": lambda a: "(config_load v_self %s)" % a[0]}}),
        (sig, "security_context", {
            "name": "src2_security_context", "params": ["conf"], "returns_state": ["conf"], "attr_errors": True,
            "extra_params": [("import_key", F1), ("read_cert", F1), ("path_exists", F1), ("find_xmlsec", F1),
                             ("xmlsec_backend", F2)],
            "exc_parents": {"SigverError": ["SAMLError", "Exception"], "SAMLError": ["Exception"]},
            "calls": {"get_xmlsec_binary": lambda a: "(find_xmlsec %s)" % a[0],
                      "os.path.exists": lambda a: "(path_exists %s)" % a[0],
                      "err_msg.format": lambda a, kw: '(PStr "")',
                      "_get_xmlsec_cryptobackend": lambda a, kw: "(xmlsec_backend %s %s)" % (a[0], kw["delete_tmpfiles"]),
                      "conf.getattr": lambda a: "(src2_config_getattr v_conf %s %s)" % (a[0], a[1]),
                      "import_rsa_key_from_file": lambda a: "(import_key %s)" % a[0],
                      "RSACrypto": mk_crypto,
                      "CryptoBackendXMLSecurity": lambda a: '(PObj [("__class__", PStr "CryptoBackendXMLSecurity")])',
                      "SecurityContext": _secctx_obj}}),
    ]


def regenerate_tables(ctx):
    """translator v2: the functions of src2_items() as they read NOW -> coq/gen/C20Src2.v (C20/Source2.v: theorems)"""
    from harness import common, py2coq2

    return py2coq2.regenerate(os.path.join(common.GEN, "C20Src2.v"), src2_items())


KEYNAMES = ["sp", "idp", "idp2", "other", "attacker"]
KID0 = 10  # key pair i is called 10+i on the Coq side (not to be confused with entity / algorithm numbers)
ALG_URIS = [
    "http://www.w3.org/2000/09/xmldsig#rsa-sha1",
    "http://www.w3.org/2001/04/xmldsig-more#rsa-sha224",
    "http://www.w3.org/2001/04/xmldsig-more#rsa-sha256",
    "http://www.w3.org/2001/04/xmldsig-more#rsa-sha384",
    "http://www.w3.org/2001/04/xmldsig-more#rsa-sha512",
    "http://www.w3.org/2001/04/xmldsig-more#rsa-md5",      # known to xmldsig, not allowed / no signer
    "http://example.org/bogus#alg",
]
GATES = ["ge", "gx", "se", "sx", "ve", "vx"]
GATE_COQ = {"ge": "GetEnter", "gx": "GetExit", "se": "SignEnter", "sx": "SignExit", "ve": "VerEnter", "vx": "VerExit"}
ALL = list(GATES)
ENTRY = ["ge", "se", "ve"]
DEST = "https://rcv.example.org/endpoint"
MAXMSG = 8

# ------------------------------------------------------------------------------------ gates + scheduler
_CUR = None
_installed = False


def install_gates():
    global _installed
    if _installed:
        return
    env.install_standin()
    import saml2.sigver as sv

    def wrap(cls, name, g_in, g_out):
        orig = cls.__dict__[name]

        def gated(self, *a, **kw):
            s = _CUR
            if s is not None:
                s.gate(g_in)
            r = orig(self, *a, **kw)
            if s is not None:
                s.gate(g_out)
            return r

        gated.__name__ = name
        gated.__wrapped__ = orig
        setattr(cls, name, gated)

    wrap(sv.RSACrypto, "get_signer", "ge", "gx")
    wrap(sv.RSASigner, "sign", "se", "sx")
    wrap(sv.RSASigner, "verify", "ve", "vx")
    _installed = True


_traced = None


def traced_files():
    """source files whose every line (or bytecode) is a scheduling point in the fine modes"""
    global _traced
    if _traced is None:
        import saml2.cryptography.asymmetric
        import saml2.entity
        import saml2.pack
        import saml2.sigver

        _traced = {os.path.realpath(m.__file__) for m in
                   (saml2.pack, saml2.sigver, saml2.entity, saml2.cryptography.asymmetric)}
        _traced |= {m.__file__ for m in (saml2.pack, saml2.sigver, saml2.entity, saml2.cryptography.asymmetric)}
    return _traced


class Sched:
    """One worker runs at a time; a worker stops at every enabled gate and when it ends."""

    def __init__(self, n, gon, fine=None):
        self.n = n
        self.gon = set(gon)
        self.fine = fine            # None | "line" | "opcode": gate at every line / bytecode of the traced files
        self.fine_events = 0
        # binary hand-off with plain locks (created locked): strict alternation scheduler <-> worker
        self.go = [threading.Lock() for _ in range(n)]
        for l in self.go:
            l.acquire()
        self.arrived = threading.Lock()
        self.arrived.acquire()
        self.done = [False] * n
        self.trace = []
        self.idx = {}
        self.cur = list(range(n))   # the job (logical thread) slot t is running; trace events name the job
        self.inline = set()         # slots that are not scheduled (the main thread): gates are recorded, never block

    def gate(self, label):
        t = self.idx.get(threading.get_ident())
        if t is None or label not in self.gon:
            return
        self.trace.append((self.cur[t], label))
        if t in self.inline:
            return
        self.arrived.release()
        self.go[t].acquire()

    def _global_trace(self, frame, event, arg):
        if frame.f_code.co_filename in traced_files():
            if self.fine == "opcode":
                frame.f_trace_opcodes = True
            return self._local_trace
        return None

    def _local_trace(self, frame, event, arg):
        if event == self.fine:
            t = self.idx.get(threading.get_ident())
            if t is not None:
                self.fine_events += 1
                self.arrived.release()
                self.go[t].acquire()
        return self._local_trace

    def worker(self, t, fn):
        self.idx[threading.get_ident()] = t
        self.go[t].acquire()
        try:
            if self.fine:
                sys.settrace(self._global_trace)
            fn()
        finally:
            sys.settrace(None)
            self.done[t] = True
            self.arrived.release()

    def release(self, t):
        if t >= self.n or self.done[t]:
            return False
        self.go[t].release()
        if not self.arrived.acquire(timeout=30):
            raise RuntimeError("scheduler: worker %d neither reached a gate nor ended" % t)
        return True


# ------------------------------------------------------------------------------------ keys, messages, references
_keys = {}
_pubs = {}
_ents = {}
_refsig = {}     # (kidx, d, octets) -> signature bytes
_sigmap = {}     # signature bytes -> (kidx, d, m, a)
_octmap = {}     # octets -> (m, a)
_refmsgs = set()


def _hash(d):
    from cryptography.hazmat.primitives import hashes

    return [hashes.SHA1, hashes.SHA224, hashes.SHA256, hashes.SHA384, hashes.SHA512][d]()


def privkey(kidx):
    if kidx not in _keys:
        from cryptography.hazmat.primitives import serialization

        with open(fixtures.key_path(KEYNAMES[kidx]), "rb") as f:
            _keys[kidx] = serialization.load_pem_private_key(f.read(), None)
    return _keys[kidx]


def pubkey(kidx):
    """public key taken from the CERTIFICATE file of the key pair"""
    if kidx not in _pubs:
        from cryptography import x509

        with open(fixtures.cert_path(KEYNAMES[kidx]), "rb") as f:
            _pubs[kidx] = x509.load_pem_x509_certificate(f.read()).public_key()
    return _pubs[kidx]


def msg_parts(m):
    typ = "SAMLRequest" if m % 2 == 0 else "SAMLResponse"
    relay = "" if m % 3 == 0 else "rs-%d/&=" % m
    tag = "AuthnRequest" if typ == "SAMLRequest" else "Response"
    text = '<samlp:%s xmlns:samlp="urn:oasis:names:tc:SAML:2.0:protocol" ID="id-%d" Version="2.0"/>' % (tag, m)
    return typ, relay, text


def deflate_b64(text):
    return base64.b64encode(zlib.compress(text.encode("utf-8"))[2:-4]).decode("ascii")


def octets_of(args, typ):
    order = [typ, "RelayState", "SigAlg"]
    return "&".join(urlencode({k: args[k]}) for k in order if k in args).encode("ascii")


def saml_args(m, a):
    typ, relay, text = msg_parts(m)
    args = {typ: deflate_b64(text)}
    if relay:
        args["RelayState"] = relay
    args["SigAlg"] = ALG_URIS[a]
    return typ, args


def octets(m, a):
    typ, args = saml_args(m, a)
    return octets_of(args, typ)


def refsig(kidx, d, octs):
    key = (kidx, d, octs)
    if key not in _refsig:
        from cryptography.hazmat.primitives.asymmetric import padding

        _refsig[key] = privkey(kidx).sign(octs, padding.PKCS1v15(), _hash(d))
    return _refsig[key]


def ensure_refs(msgs):
    for m in msgs:
        if m in _refmsgs:
            continue
        for a in range(len(ALG_URIS)):
            o = octets(m, a)
            _octmap[o] = (m, a)
            if a < 5:
                for k in range(len(KEYNAMES)):
                    for d in range(5):
                        _sigmap[refsig(k, d, o)] = (k, d, m, a)
        _refmsgs.add(m)


def junk_sig(n):
    out = b""
    i = 0
    while len(out) < 256:
        out += hashlib.sha512(b"junk-%d-%d" % (n, i)).digest()
        i += 1
    return out[:256]


def entity(slot, kind, kidx):
    """A real entity (Saml2Client / Server / bare RSACrypto) that signs with key pair kidx."""
    key = (slot, kind, kidx)
    if key not in _ents:
        install_gates()
        kn = KEYNAMES[kidx]
        over = {"key_file": fixtures.key_path(kn), "cert_file": fixtures.cert_path(kn),
                "entityid": "https://e%d.example.org/%s" % (slot, kind)}
        if kind == "sp":
            _ents[key] = world.make_sp(**over)
        elif kind == "idp":
            _ents[key] = world.make_idp(**over)
        else:
            import saml2.sigver as sv

            _ents[key] = sv.RSACrypto(sv.import_rsa_key_from_file(fixtures.key_path(kn)))
    return _ents[key]


def backend_of(ent, kind):
    return ent if kind == "raw" else ent.sec.sec_backend


# ------------------------------------------------------------------------------------ the calls
def do_sign(ent, kind, via, a, m):
    from saml2.pack import http_redirect_message

    typ, relay, text = msg_parts(m)
    if via == "entity" and kind != "raw":
        info = ent.apply_binding(world.BINDING_HTTP_REDIRECT, text, DEST, relay, response=(typ == "SAMLResponse"),
                                 sign=True, sigalg=ALG_URIS[a])
    else:
        info = http_redirect_message(text, DEST, relay, typ, sigalg=ALG_URIS[a], sign=True,
                                     backend=backend_of(ent, kind))
    return dict(info["headers"])["Location"]


def sig_bytes(spec):
    if spec[0] == "ref":
        _, k, d, m, a = spec
        return refsig(k, d, octets(m, a))
    return junk_sig(spec[1])


def do_verify(ent, kind, m, a, sigspec, vk, ents, certs=None):
    import saml2.sigver as sv

    typ, args = saml_args(m, a)
    saml_msg = dict(args)
    saml_msg["Signature"] = base64.b64encode(sig_bytes(sigspec)).decode("ascii")
    cert, sigkey = None, None
    if vk[0] == "cert":
        cert = certs[vk[1]] if certs is not None else fixtures.cert_b64(KEYNAMES[ents[vk[1]][1]])
    elif vk[0] == "key":
        sigkey = privkey(vk[1])
    return sv.verify_redirect_signature(saml_msg, backend_of(ent, kind), cert, sigkey)


def abstract_location(url, ents, pubs=None):
    """(m, a, identified signature, verification vector) of a signed redirect URL; the vector is taken over the
    certificates of the entities: `pubs` (public keys of the certificates the live entities publish) or, for the
    entities built from the fixture files, the fixture certificate of their key pair."""
    if pubs is None:
        pubs = [pubkey(kidx) for (_kind, kidx) in ents]
    from cryptography.hazmat.primitives.asymmetric import padding

    q = {k: v[0] for k, v in parse_qs(urlparse(url).query, keep_blank_values=True).items()}
    typ = "SAMLRequest" if "SAMLRequest" in q else "SAMLResponse"
    if "Signature" not in q or "SigAlg" not in q:
        return {"k": "unsigned"}
    sig = base64.b64decode(q["Signature"])
    args = {k: q[k] for k in (typ, "RelayState", "SigAlg") if k in q}
    octs = octets_of(args, typ)
    pl = _octmap.get(octs)
    who = _sigmap.get(sig)
    vm = []
    a = ALG_URIS.index(q["SigAlg"]) if q["SigAlg"] in ALG_URIS else 6
    for pk in pubs:
        ok = False
        if a < 5 and pk is not None:
            try:
                pk.verify(sig, octs, padding.PKCS1v15(), _hash(a))
                ok = True
            except Exception:
                ok = False
        vm.append(ok)
    return {"k": "sig", "p": list(pl) if pl else None, "s": list(who) if who else None, "vm": vm}


# ------------------------------------------------------------------------------------ programs / schedules
def allowed(a):
    return a < 5


def op_gates(op, gon):
    """gates a call passes, in order (what the model's compile says)"""
    if op[0] == "S":
        g = ["ge", "gx", "se", "sx"] if allowed(op[1]) else []
    else:
        g = ["ge", "gx"] + (["ve", "vx"] if allowed(op[2]) else [])
    return [x for x in g if x in gon]


def nseg(thread, gon):
    return 1 + sum(len(op_gates(op, gon)) for op in thread["ops"])


def interleavings(counts):
    """all sequences over thread ids with counts[t] occurrences of t"""
    def rec(rem):
        if not any(rem):
            yield []
            return
        for t, c in enumerate(rem):
            if c:
                rem[t] -= 1
                for r in rec(rem):
                    yield [t] + r
                rem[t] += 1
    return rec(list(counts))


def random_interleaving(rng, counts):
    pool = [t for t, c in enumerate(counts) for _ in range(c)]
    rng.shuffle(pool)
    return pool


def v0_sensitive(case):
    """Would the code before c928ba99 (key kept on the shared signer object) have used a foreign key
    under this schedule?  (statistics only; the verdicts are Coq's)"""
    gon = set(case["gates"])
    streams = []
    for th in case["threads"]:
        own = case["ents"][th["ent"]][1]
        st = []
        for op in th["ops"]:
            if op[0] == "S":
                if not allowed(op[1]):
                    continue
                a, want = op[1], own
                seq = [("G", "ge"), ("get", a, own), ("G", "gx"), ("G", "se"), ("use", a, want), ("G", "sx")]
            else:
                a, vk = op[2], op[4]
                k = vk[1] if vk[0] == "key" else own
                seq = [("G", "ge"), ("get", a, k), ("G", "gx")]
                if allowed(a):
                    seq += [("G", "ve")] + ([("use", a, own)] if vk[0] == "own" else []) + [("G", "vx")]
                else:
                    seq = [("G", "ge"), ("G", "gx")]
            st += [x for x in seq if x[0] != "G" or x[1] in gon]
        streams.append(st)
    pos = [0] * len(streams)
    shared = {}
    bad = False
    for t in case["sched"]:
        if t >= len(streams):
            continue
        s = streams[t]
        while pos[t] < len(s):
            x = s[pos[t]]
            pos[t] += 1
            if x[0] == "G":
                break
            if x[0] == "get":
                shared[x[1]] = x[2]
            elif shared.get(x[1]) != x[2]:
                bad = True
    return bad


def mk(tag, ents, gates, threads, sched):
    return {"tag": tag, "ents": ents, "gates": gates, "threads": threads, "sched": sched}


def T(ent, ops, via="entity"):
    return {"ent": ent, "via": via, "ops": ops}


def S(a, m):
    return ["S", a, m]


def V(m, a, sig, vk):
    return ["V", m, a, sig, vk]


def REF(k, d, m, a):
    return ["ref", k, d, m, a]


E3 = [["sp", 0], ["idp", 1], ["idp", 3]]       # A = SP with sp.key, B = IdP with idp.key, C = IdP with other.key
E2 = E3[:2]


def all_schedules(tag, ents, gates, threads, out, sample=None, rng=None):
    counts = [nseg(t, gates) for t in threads]
    if sample is None:
        for s in interleavings(counts):
            out.append(mk(tag, ents, gates, threads, s))
    else:
        seen = set()
        while len(seen) < sample:
            s = tuple(random_interleaving(rng, counts))
            if s not in seen:
                seen.add(s)
                out.append(mk(tag, ents, gates, threads, list(s)))


def random_case(rng):
    n_ent = rng.randint(2, 4)
    kinds = ["sp", "idp", "raw"]
    keys = rng.sample(range(5), n_ent)
    if rng.random() < 0.15:
        keys[-1] = keys[0]          # two entities holding the same key pair
    ents = [[rng.choice(kinds), k] for k in keys]
    n_thr = rng.randint(2, 4)
    gates = [g for g in GATES if rng.random() < 0.6] or ["gx"]
    algs = [rng.choice([0, 1, 2, 3, 4])]
    algs += [rng.choice([0, 1, 2, 3, 4])]
    threads = []
    for t in range(n_thr):
        e = rng.randrange(n_ent)
        ops = []
        for _ in range(rng.randint(1, 3)):
            a = rng.choice(algs) if rng.random() < 0.85 else rng.choice([5, 6])
            m = rng.randrange(MAXMSG)
            if rng.random() < 0.6:
                ops.append(S(a, m))
            else:
                r = rng.random()
                vk = ["cert", rng.randrange(n_ent)] if r < 0.55 else (["own"] if r < 0.8 else ["key", rng.randrange(5)])
                asked = ents[vk[1]][1] if vk[0] == "cert" else (ents[e][1] if vk[0] == "own" else vk[1])
                if rng.random() < 0.7:
                    sk = asked if rng.random() < 0.6 else rng.randrange(5)
                    sig = REF(sk, a if a < 5 and rng.random() < 0.85 else rng.randrange(5),
                              m if rng.random() < 0.85 else rng.randrange(MAXMSG), a if a < 5 else 2)
                else:
                    sig = ["junk", rng.randrange(1000)]
                ops.append(V(m, a, sig, vk))
        via = "pack" if ents[e][0] == "raw" or rng.random() < 0.3 else "entity"
        threads.append(T(e, ops, via))
    counts = [nseg(t, gates) for t in threads]
    sched = random_interleaving(rng, counts)
    # stutter entries: a non-existent thread anywhere, finished threads at the end
    for _ in range(rng.randint(0, 2)):
        sched.insert(rng.randrange(len(sched) + 1), n_thr + rng.randrange(2))
    for _ in range(rng.randint(0, 2)):
        sched.append(rng.randrange(n_thr))
    return mk("random", ents, gates, threads, sched)


BIG = 10 ** 6


def bursty(rng, n_thr, length):
    """random schedule as runs [thread, count] with run lengths 1..13"""
    runs, n = [], 0
    while n < length:
        k = rng.choice([1, 1, 1, 2, 2, 3, 5, 8, 13])
        runs.append([rng.randrange(n_thr), k])
        n += k
    return runs


def fine_case(tag, mode, ents, threads, runs):
    c = mk(tag, ents, [], threads, [])
    c["mode"] = mode
    c["runs"] = runs
    return c


def solo_len(ents, thread, mode):
    """number of scheduling points (lines / bytecodes) the thread passes when it runs alone - on the live code"""
    return observe(fine_case("probe", mode, ents, [thread], []))["fine_events"]


def fine_cases(ctx):
    """line- and bytecode-granular schedules: every source line (bytecode) of pack.py, sigver.py, entity.py and
    cryptography/asymmetric.py executed by a worker is a scheduling point; only results are compared.
    (1) complete enumeration of the single-pre-emption schedules of two threads (thread i runs k points, thread j runs
    to its end, i finishes; every k, both orders); (2) seeded two-pre-emption schedules; (3) seeded bursty schedules."""
    rng = ctx.rng
    A, B, C = 0, 1, 2
    pairs = [
        ("ss", E2, [T(A, [S(2, 0)]), T(B, [S(2, 1)])]),
        ("ss-pack", E2, [T(A, [S(2, 0)], "pack"), T(B, [S(2, 0)], "pack")]),
        ("sv-own", E2, [T(A, [S(2, 0)]), T(B, [V(0, 2, REF(1, 2, 0, 2), ["own"])])]),
        ("one-entity-s-vkey", E2, [T(A, [S(2, 0)], "pack"), T(A, [V(0, 2, REF(1, 2, 0, 2), ["key", 1])])]),
        ("one-entity-ss", E2, [T(B, [S(1, 5)]), T(B, [S(3, 5)], "pack")]),
    ]
    out = []
    for name, ents, threads in pairs:
        for mode in ("line", "opcode"):
            n = [solo_len(ents, t, mode) for t in threads]
            for i, j in ((0, 1), (1, 0)):
                ks = list(range(n[i] + 1))
                if mode == "opcode" and not ctx.thorough:
                    ks = sorted(rng.sample(ks, min(len(ks), 25)))
                for k in ks:
                    out.append(fine_case("fine-%s-preempt1" % mode, mode, ents, threads, [[i, k], [j, BIG], [i, BIG]]))
            for _ in range(400 if ctx.thorough else 25):
                i = rng.randrange(2)
                j = 1 - i
                out.append(fine_case("fine-%s-preempt2" % mode, mode, ents, threads,
                                     [[i, rng.randrange(n[i] + 1)], [j, rng.randrange(n[j] + 1)], [i, BIG], [j, BIG]]))
    cfgs = [(e, t) for _n, e, t in pairs] + [
        (E3, [T(A, [S(2, 0)]), T(B, [S(2, 1)]), T(C, [S(2, 2)], "pack")]),
        (E2, [T(A, [S(4, 2), S(4, 4)]), T(B, [S(4, 3), V(2, 4, REF(0, 4, 2, 4), ["own"])])]),
        (E2, [T(A, [S(2, 0)]), T(B, [V(0, 2, REF(1, 2, 0, 2), ["own"])]), T(A, [V(0, 2, REF(0, 2, 0, 2), ["cert", A])])]),
        (E3, [T(B, [S(0, 6)]), T(B, [S(0, 7)], "pack"), T(C, [S(0, 6)])]),
        (E2, [T(A, [S(2, 0), S(2, 2)]), T(A, [V(0, 2, REF(1, 2, 0, 2), ["key", 1]), V(2, 2, REF(0, 2, 2, 2), ["own"])])]),
    ]
    n_line, n_opcode = (6000, 1500) if ctx.thorough else (200, 50)
    for i in range(n_line + n_opcode):
        mode = "line" if i < n_line else "opcode"
        ents, threads = cfgs[i % len(cfgs)]
        per_op = 60 if mode == "line" else 260
        length = int(per_op * sum(len(t["ops"]) for t in threads) * 1.1)
        out.append(fine_case("fine-%s-bursty" % mode, mode, ents, threads, bursty(rng, len(threads), length)))
    return out


# ------------------------------------------------------------------------------------ worker pools + deployments
# A pool case: the MAIN thread carries out a deployment script (install key pair k at path p with a given mtime, in
# place / by rename / by switching a symlink; build an entity from the configuration naming path p; run a job), then
# OS worker threads serve the jobs (logical threads) assigned to them, one after the other, under the schedule.
# workers[0] = the jobs of the main thread (run by the "call" steps), workers[1:] = the pool threads.
STAMP0 = 1700000000
HOWS = ["overwrite", "rename", "symlink"]


class LoaderSim:
    """what Config._load does now, as Model.load_module V2 says it (generator-side prediction only: which entities will
    exist, so that jobs can be given to them; the verdicts are Coq's, on what the real code did)"""

    def __init__(self):
        self.files, self.pkgs, self.mods, self.spath = {}, {}, {}, []

    def load(self, d, b, bare=False):
        sp = [d] + self.spath
        self.spath = sp
        found = self.mods.get(b)
        if found is None:
            for x in sp:
                if self.pkgs.get((x, b)) is not None:
                    found = (x, True, self.pkgs[(x, b)])
                    break
                if self.files.get((x, b)) is not None:
                    found = (x, False, self.files[(x, b)])
                    break
            if found is None:
                return None
            self.mods[b] = found
        d0, pk0, c0 = found
        cnow = self.files.get((d, b))
        if cnow is not None:
            if not pk0 and d0 == d:
                return c0
            return cnow if (self.pkgs if pk0 else self.files).get((d0, b)) is not None else None
        return c0 if (bare or d0 == d) else None


def eff_spell(st, cwd):
    """spelling as the model sees it: a relative name given from within the file's own directory is BARE (4, 5)"""
    return st[5] + 2 if st[5] in (2, 3) and cwd == st[1] else st[5]


def deploy_ents(deploy, cwd=-1):
    """(kind, key pair the entity is expected to hold) per entity, in creation order; key pair None = a slot whose
    entity is expected not to come into being (file steps always have a slot)"""
    fs, ents, confs, ld = {}, [], [], LoaderSim()
    for st in deploy:
        if st[0] == "install":
            fs[st[1]] = st[2]
        elif st[0] == "create":
            ents.append([st[2], fs[st[1]]])
        elif st[0] == "factory":
            ents.append([st[2], fs[st[1]]])
        elif st[0] == "conf":
            _, p, kind, _eid, how, parent = st
            if how == 3:
                confs[parent][1] = p
            else:
                confs.append([kind, p])
        elif st[0] == "build":
            kind, p = confs[st[1]]
            ents.append([kind, fs[p]])
        elif st[0] == "write":
            ld.files[(st[1], st[2])] = (st[3], st[4])       # (path named, kind)
        elif st[0] == "writepkg":
            ld.pkgs[(st[1], st[2])] = (st[3], st[4])
        elif st[0] == "unlink":
            ld.files[(st[1], st[2])] = None
        elif st[0] == "loadfile":
            c = ld.load(st[1], st[2], eff_spell(st, cwd) >= 4)
            ents.append([st[3], fs.get(c[0]) if c is not None else None])
    return ents


FILE_STEPS = ("write", "unlink", "loadfile", "factory", "writepkg")


def has_file_steps(deploy):
    return any(st[0] in FILE_STEPS for st in deploy)


def pool_case(tag, deploy, gates, jobs, workers, sched, fixture):
    c = mk(tag, deploy_ents(deploy), gates, jobs, sched)
    c["pool"] = True
    c["deploy"] = deploy
    c["workers"] = workers
    c["fixture"] = fixture      # True: path p IS the fixture file of key pair p (never rewritten; entities are reused)
    return c


def fixture_deploy(ents, main_jobs=()):
    """the deployment that describes entities built from the fixture files (path k holds key pair k for ever)"""
    d = [["install", k, k, 0, 0] for k in sorted({k for _kind, k in ents})]
    d += [["create", k, kind, 0] for kind, k in ents]
    d += [["call", j] for j in main_jobs]
    return d


def worker_segments(case, w):
    return 1 + sum(len(op_gates(op, case["gates"])) for j in case["workers"][w] for op in case["threads"][j]["ops"])


def main_gates(case, steps):
    """gates the main thread passes in the call steps of `steps`"""
    return sum(len(op_gates(op, case["gates"])) for st in steps if st[0] == "call" for op in case["threads"][st[1]]["ops"])


def model_sched(case):
    """the worker schedule the model is run with: the main thread (worker 0) runs its jobs inline - the calls of the
    early part of the script before the pool threads start, those of the late part (case["late"] = [number of early
    steps, position in the schedule]) while the pool threads wait at their gates"""
    if not case["workers"][0]:
        return list(case["sched"])
    late = case.get("late")
    if not late:
        return [0] * worker_segments(case, 0) + list(case["sched"])
    n_early, k = late
    return ([0] * main_gates(case, case["deploy"][:n_early]) + list(case["sched"][:k])
            + [0] * (main_gates(case, case["deploy"][n_early:]) + 1) + list(case["sched"][k:]))


def _install(root, p, k, stamp, how, serial):
    import shutil

    for ext, src in ((".key", fixtures.key_path(KEYNAMES[k])), (".pem", fixtures.cert_path(KEYNAMES[k]))):
        path = os.path.join(root, "p%d%s" % (p, ext))
        if how == 0:
            if os.path.islink(path):
                os.unlink(path)
            with open(src, "rb") as f, open(path, "wb") as g:      # same inode when the file exists
                g.write(f.read())
        elif how == 1:
            shutil.copyfile(src, path + ".new")
            os.utime(path + ".new", (STAMP0 + stamp, STAMP0 + stamp))
            os.replace(path + ".new", path)
        else:
            target = os.path.join(root, "store-%d-%d%s" % (serial, k, ext))
            shutil.copyfile(src, target)
            os.symlink(target, path + ".lnk")
            os.replace(path + ".lnk", path)
        os.utime(path, (STAMP0 + stamp, STAMP0 + stamp))            # follows the symlink


def _cert_body(path):
    with open(path) as f:
        return "".join(l.strip() for l in f if "CERTIFICATE" not in l)


def _create(root, p, kind, eidmode, n):
    """the real constructors; returns (entity, certificate it publishes as base64 body)"""
    import saml2.sigver as sv

    key_file, cert_file = os.path.join(root, "p%d.key" % p), os.path.join(root, "p%d.pem" % p)
    eid = "https://e.example.org/path%d" % p if eidmode == 0 else "https://e%d.example.org/%s" % (n, kind)
    over = {"key_file": key_file, "cert_file": cert_file, "entityid": eid}
    if kind == "sp":
        e = world.make_sp(**over)
        return e, e.sec.my_cert
    if kind == "idp":
        e = world.make_idp(**over)
        return e, e.sec.my_cert
    # a bare backend has no SecurityContext: what its operator publishes is the certificate file as it is now
    return sv.RSACrypto(sv.import_rsa_key_from_file(key_file)), _cert_body(cert_file)


def _paths(root, p):
    return os.path.join(root, "p%d.key" % p), os.path.join(root, "p%d.pem" % p)


def _eid(p, kind, eidmode, n):
    return "https://e.example.org/path%d" % p if eidmode == 0 else "https://c%d.example.org/%s" % (n, kind)


def _mkconf(root, st, confs):
    """configuration OBJECTS have a life of their own.  st = ["conf", p, kind, eidmode, how, parent];
    confs = list of [kind, Config object, dict it was loaded from]; how 3 re-points confs[parent] and makes no object"""
    from saml2.config import IdPConfig, SPConfig
    import copy

    _, p, kind, eidmode, how, parent = st
    key_file, cert_file = _paths(root, p)
    if how == 0:
        d = (world.sp_config if kind == "sp" else world.idp_config)(key_file=key_file, cert_file=cert_file,
                                                                   entityid=_eid(p, kind, eidmode, len(confs)))
        env.install_standin()
        confs.append([kind, (SPConfig if kind == "sp" else IdPConfig)().load(d), d])
        return
    pkind, pconf, pdict = confs[parent]
    assert pkind == kind
    if how == 1:        # the idiom of tests/test_39_metadata.py: copy the Config, give it its own identity and key pair
        c = copy.copy(pconf)
        c.key_file, c.cert_file = key_file, cert_file
        if eidmode:
            c.entityid = _eid(p, kind, eidmode, len(confs))
        confs.append([kind, c, pdict])
    elif how == 2:      # the dict that served before is updated and loaded again
        pdict["key_file"], pdict["cert_file"] = key_file, cert_file
        if eidmode:
            pdict["entityid"] = _eid(p, kind, eidmode, len(confs))
        confs.append([kind, (SPConfig if kind == "sp" else IdPConfig)().load(pdict), pdict])
    else:               # the Config object itself is re-pointed (key roll-over without restart)
        pconf.key_file, pconf.cert_file = key_file, cert_file
        if eidmode:
            pconf.entityid = _eid(p, kind, eidmode, len(confs))


def _build(kind, conf):
    from saml2.client import Saml2Client
    from saml2.server import Server

    e = (Saml2Client if kind == "sp" else Server)(config=conf)
    return e, e.sec.my_cert


MODNAME = "c20conf_%d"      # base name b of a configuration module; the file is <root>/t<dir>/c20conf_<b>.py


def _conf_file(root, d, b):
    return os.path.join(root, "t%d" % d, (MODNAME % b) + ".py")


def _conf_pkg(root, d, b):
    return os.path.join(root, "t%d" % d, MODNAME % b, "__init__.py")


def _write_conf(root, st):
    """["write", dir, base, p, kind, eidmode]: the configuration module dir/base.py is written (or edited) - a complete
    sp / idp CONFIG naming key_file / cert_file at path p.  importlib.invalidate_caches() is what the documentation of
    importlib asks of a program that creates modules while it runs (directory listings are cached)."""
    import importlib

    _, d, b, pth, kind, eidmode = st
    key_file, cert_file = _paths(root, pth)
    conf = (world.sp_config if kind == "sp" else world.idp_config)(
        key_file=key_file, cert_file=cert_file,
        entityid=("https://t%d.example.org/%s-%d" % (d, kind, b)) if eidmode else "https://tenant.example.org/%s" % kind)
    target = _conf_pkg(root, d, b) if st[0] == "writepkg" else _conf_file(root, d, b)     # a package: <dir>/<base>/__init__.py
    os.makedirs(os.path.dirname(target), exist_ok=True)
    tmp = target + ".tmp"
    with open(tmp, "w") as f:
        f.write("# configuration of tenant directory %d, module %d\nCONFIG = %r\n" % (d, b, conf))
    os.replace(tmp, target)
    importlib.invalidate_caches()


def _unlink_conf(root, st):
    import importlib

    try:
        os.unlink(_conf_file(root, st[1], st[2]))
    except FileNotFoundError:
        pass
    importlib.invalidate_caches()


def _load_conf(root, st):
    """["loadfile", dir, base, kind, api, spell]: an entity built from the python configuration file; api 0
    <Class>Config().load_file(f) + entity(config=), 1 config_factory(type, f) + entity(config=), 2 entity(config_file=f);
    spell 0 absolute, 1 absolute + ".py", 2 relative to the working directory, 3 relative + ".py".
    Returns (entity, certificate it publishes) or (None, None) when the loader or the constructor raised."""
    from saml2.client import Saml2Client
    from saml2.config import IdPConfig, SPConfig, config_factory
    from saml2.server import Server

    _, d, b, kind, api, spell = st
    f = _conf_file(root, d, b)[:-3]
    if spell >= 2:
        f = os.path.relpath(f, os.getcwd())
    if spell % 2:
        f += ".py"
    cls = Saml2Client if kind == "sp" else Server
    try:
        if api == 0:
            e = cls(config=(SPConfig if kind == "sp" else IdPConfig)().load_file(f))
        elif api == 1:
            e = cls(config=config_factory(kind, f))
        else:
            e = cls(config_file=f)
        return e, e.sec.my_cert
    except Exception:
        return None, None


def _factory(root, st, n):
    """["factory", p, kind, eidmode]: config_factory(type, dict) - the dict is deep-copied and loaded"""
    from saml2.client import Saml2Client
    from saml2.config import config_factory
    from saml2.server import Server

    _, pth, kind, eidmode = st
    key_file, cert_file = _paths(root, pth)
    d = (world.sp_config if kind == "sp" else world.idp_config)(key_file=key_file, cert_file=cert_file,
                                                               entityid=_eid(pth, kind, eidmode, n))
    e = (Saml2Client if kind == "sp" else Server)(config=config_factory(kind, d))
    return e, e.sec.my_cert


class ImportState:
    """sys.path / sys.modules / importer caches / working directory / bytecode switch as they were, put back after a
    case: cases stay independent, nothing of the scratch directory is needed afterwards.  Relative entries ("." and
    the like) are dropped from sys.path_importer_cache at the start too: importlib FREEZES the directory of such an
    entry when it is first used, the cases are about a process whose working directory does not change."""

    def __enter__(self):
        self.path, self.cwd, self.dwb = list(sys.path), os.getcwd(), sys.dont_write_bytecode
        # the process's own sys.path names no working directory ('' under `python -c`, relative entries): the model's
        # search path starts empty - only the directories the loads themselves insert can hold configuration modules
        sys.path[:] = [x for x in sys.path if os.path.isabs(x)]
        for k in [k for k in sys.path_importer_cache if not os.path.isabs(k)]:
            del sys.path_importer_cache[k]
        self.pic = set(sys.path_importer_cache)
        sys.dont_write_bytecode = True      # no __pycache__ in the tenant directories: a pyc is validated by mtime
        return self                         # (seconds) + size only, an edit within the second would go unseen by PYTHON

    def __exit__(self, *exc):
        import importlib

        os.chdir(self.cwd)
        sys.path[:] = self.path
        for k in [k for k in sys.modules if k.startswith("c20conf_")]:
            del sys.modules[k]
        for k in [k for k in sys.path_importer_cache if k not in self.pic]:
            del sys.path_importer_cache[k]
        sys.dont_write_bytecode = self.dwb
        importlib.invalidate_caches()
        return False


_certid = {}


def cert_id(body):
    """key pair (Coq numbering) of a published certificate; 0 = none of the fixture certificates"""
    if not _certid:
        for i, kn in enumerate(KEYNAMES):
            _certid[fixtures.cert_b64(kn)] = KID0 + i
    return _certid.get("".join(str(body).split()), 0)


def pub_of_body(body):
    from cryptography import x509

    pem = "-----BEGIN CERTIFICATE-----\n%s\n-----END CERTIFICATE-----\n" % body
    return x509.load_pem_x509_certificate(pem.encode("ascii")).public_key()


def observe_pool(case):
    if has_file_steps(case["deploy"]):
        with ImportState():
            return _observe_pool(case)
    return _observe_pool(case)


def _observe_pool(case):
    global _CUR
    import shutil
    import tempfile

    install_gates()
    jobs, workers = case["threads"], case["workers"]
    msgs = set()
    for th in jobs:
        for op in th["ops"]:
            msgs.add(op[2] if op[0] == "S" else op[1])
            if op[0] == "V" and op[3][0] == "ref":
                msgs.add(op[3][3])
    ensure_refs(sorted(msgs))
    n = len(workers)
    results = [[] for _ in jobs]
    ents, kinds, certs, fixture_keys, confs = [], [], [], [], []
    s = Sched(n, case["gates"])
    s.inline.add(0)
    s.done[0] = True
    src = has_file_steps(case["deploy"])
    n_early = case["late"][0] if case.get("late") else len(case["deploy"])

    def run_job(w, j):
        th = jobs[j]
        s.cur[w] = j
        for op in th["ops"]:
            try:
                ent, kind = ents[th["ent"]], kinds[th["ent"]]
                if ent is None:
                    raise RuntimeError("no such entity")      # a slot whose entity did not come into being
                if op[0] == "S":
                    r = ("url", do_sign(ent, kind, th["via"], op[1], op[2]))
                else:
                    v = do_verify(ent, kind, op[1], op[2], op[3], op[4], None, certs)
                    r = ("none",) if v is None else ("ver", bool(v))
            except Exception:
                r = ("raise",)
            results[j].append(r)

    def body(w):
        def run():
            for j in workers[w]:
                run_job(w, j)
        return run

    root = None if case["fixture"] else tempfile.mkdtemp(prefix="c20-deploy-")
    failure = []

    def main_role(steps):
        # the process's main thread is played by a FRESH OS thread per case (ended before the pool threads start):
        # whatever a changed library may keep per OS thread cannot travel from one case to the next, so that a
        # failing case fails again when it is replayed alone
        def run():
            s.idx[threading.get_ident()] = 0
            try:
                deployment(steps)
            except BaseException as e:      # noqa: B902 - reported below, in the calling thread
                failure.append(e)
        mt = threading.Thread(target=run, daemon=True)
        mt.start()
        mt.join(120)
        if failure or mt.is_alive():
            raise RuntimeError("deployment script failed: %r" % (failure or "timeout"))

    def deployment(steps):
        for serial, st in steps:
            if st[0] == "install":
                if root:
                    _install(root, st[1], st[2], st[3], st[4], serial)
            elif st[0] == "create":
                if root:
                    e, body_ = _create(root, st[1], st[2], st[3], len(ents))
                else:
                    # entities built from the fixture files are reused between cases; two entities of one case
                    # are always two objects (occurrence number)
                    occ = sum(1 for k2, kid2 in zip(kinds, fixture_keys) if (k2, kid2) == (st[2], st[1]))
                    e = entity(100 + occ, st[2], st[1])
                    fixture_keys.append(st[1])
                    body_ = fixtures.cert_b64(KEYNAMES[st[1]]) if st[2] == "raw" else e.sec.my_cert
                ents.append(e)
                kinds.append(st[2])
                certs.append(body_)
            elif st[0] == "conf":
                _mkconf(root, st, confs)
            elif st[0] == "build":
                e, body_ = _build(confs[st[1]][0], confs[st[1]][1])
                ents.append(e)
                kinds.append(confs[st[1]][0])
                certs.append(body_)
            elif st[0] == "ctx":
                import saml2.sigver as sv

                sv.security_context(confs[st[1]][1])      # per message in response.py; the result is dropped
            elif st[0] in ("write", "writepkg"):
                _write_conf(root, st)
            elif st[0] == "unlink":
                _unlink_conf(root, st)
            elif st[0] == "loadfile":
                e, body_ = _load_conf(root, st)
                ents.append(e)
                kinds.append(st[3])
                certs.append(body_)
            elif st[0] == "factory":
                e, body_ = _factory(root, st, len(ents))
                ents.append(e)
                kinds.append(st[2])
                certs.append(body_)
            else:
                run_job(0, st[1])

    _CUR = s
    try:
        if src:
            os.makedirs(os.path.join(root, "work"))
            for st in case["deploy"]:       # the tenant directories exist, whether or not a file is (still) in them
                if st[0] in ("write", "unlink", "loadfile", "writepkg"):
                    os.makedirs(os.path.join(root, "t%d" % st[1]), exist_ok=True)
            cwd = case.get("cwd", -1)
            os.makedirs(os.path.join(root, "t%d" % max(cwd, 0)), exist_ok=True)
            os.chdir(os.path.join(root, "work") if cwd < 0 else os.path.join(root, "t%d" % cwd))
        # --- the main thread: deployment script (its early part)
        steps = list(enumerate(case["deploy"]))
        main_role(steps[:n_early])
        # --- the pool threads
        threads = [threading.Thread(target=s.worker, args=(w, body(w)), daemon=True) for w in range(1, n)]
        for t in threads:
            t.start()
        k_late = case["late"][1] if case.get("late") else len(case["sched"])
        for w in case["sched"][:k_late]:
            s.release(w)
        if case.get("late"):
            # --- the main thread again, while the pool threads wait at their gates: further entities are built
            #     (configuration files loaded) and sign
            main_role(steps[n_early:])
        for w in case["sched"][k_late:]:
            s.release(w)
        complete = all(s.done)
        counts = [len(r) for r in results]
        trace = list(s.trace)
        drained = 0
        for w in range(1, n):
            while s.release(w):
                drained += 1
        for t in threads:
            t.join(30)
    finally:
        _CUR = None
        if src:
            os.chdir("/")
        if root:
            shutil.rmtree(root, ignore_errors=True)
    pubs = [pub_of_body(b) if b is not None else None for b in certs]
    outs = []
    for j in range(len(jobs)):
        row = []
        for r in results[j][:counts[j]]:
            if r[0] == "url":
                row.append(abstract_location(r[1], None, pubs))
            elif r[0] == "ver":
                row.append({"k": "ver", "b": r[1]})
            else:
                row.append({"k": r[0]})
        outs.append(row)
    if src:
        # a slot without entity publishes nothing (0); a certificate that is none of the fixture certificates is 1
        ids = [0 if b is None else (cert_id(b) or 1) for b in certs]
    else:
        ids = [cert_id(b) for b in certs]
    return {"outs": outs, "trace": [[j, g] for j, g in trace], "complete": complete, "drained": drained, "certs": ids}


def pool_sched(rng, case, stutter=True):
    counts = [0] + [worker_segments(case, w) for w in range(1, len(case["workers"]))]
    sched = random_interleaving(rng, counts)
    if stutter and rng.random() < 0.3:
        sched.insert(rng.randrange(len(sched) + 1), rng.randrange(len(counts) + 1))     # finished / main / unknown worker
    return sched


def pool_all(tag, ents, gates, jobs, workers, out, sample=None, rng=None, main_jobs=()):
    """every interleaving of the pool threads (or a seeded sample) for entities built from the fixture files"""
    proto = pool_case(tag, fixture_deploy(ents, main_jobs), gates, jobs, workers, [], True)
    counts = [0] + [worker_segments(proto, w) for w in range(1, len(workers))]
    if sample is None:
        scheds = list(interleavings(counts))
    else:
        seen = set()
        while len(seen) < sample:
            seen.add(tuple(random_interleaving(rng, counts)))
        scheds = [list(x) for x in sorted(seen)]
    for sc in scheds:
        c = dict(proto)
        c["sched"] = sc
        out.append(c)


JOB_ALPHABET = [(e, kind) for e in (0, 1) for kind in ("s2", "s4", "vown")]


def alphabet_job(sym, m):
    e, kind = sym
    if kind == "s2":
        return T(e, [S(2, m)], "entity" if m % 2 == 0 else "pack")
    if kind == "s4":
        return T(e, [S(4, m)], "pack" if m % 2 == 0 else "entity")
    # verification with neither certificate nor key: the verifier's own key; the signature offered is the OTHER
    # entity's, so that a verifier running with a foreign signer would accept it
    return T(e, [V(m, 2, REF(E3[1 - e][1], 2, m, 2), ["own"])])


def pool_fixture_cases(ctx):
    rng = ctx.rng
    out = []
    A, B, C = 0, 1, 2
    jC = T(C, [S(2, 2)])
    # --- one pool thread serves A and then B, a second one serves C: every interleaving (entry gates)
    cfgs = [
        ("pool-AB-same", [T(A, [S(2, 0)]), T(B, [S(2, 1)]), jC], [[], [0, 1], [2]]),
        ("pool-AB-diff", [T(A, [S(2, 0)]), T(B, [S(4, 1)]), jC], [[], [0, 1], [2]]),
        ("pool-AB-pack", [T(A, [S(2, 0)], "pack"), T(B, [S(2, 1)], "pack"), T(C, [S(2, 2)], "pack")], [[], [0, 1], [2]]),
        ("pool-sign-verifyown", [T(A, [S(2, 0)]), T(B, [V(0, 2, REF(0, 2, 0, 2), ["own"])]), jC], [[], [0, 1], [2]]),
        ("pool-verifyown-sign", [T(A, [V(1, 2, REF(1, 2, 1, 2), ["own"])]), T(B, [S(2, 1)]),
                                 T(C, [V(1, 2, REF(1, 2, 1, 2), ["cert", B])])], [[], [0, 1], [2]]),
        ("pool-ABA", [T(A, [S(2, 0)]), T(B, [S(2, 1)]), T(A, [S(2, 2)]), T(B, [S(2, 3)])], [[], [0, 1, 2], [3]]),
        ("pool-cross", [T(A, [S(2, 0)]), T(B, [S(2, 1)]), T(B, [S(2, 3)]), T(A, [S(2, 2)])], [[], [0, 1], [2, 3]]),
    ]
    for tag, jobs, workers in cfgs:
        if tag in ("pool-cross", "pool-ABA") and not ctx.thorough:
            pool_all(tag, E3, ENTRY, jobs, workers, out, sample=60, rng=rng)
        else:
            pool_all(tag, E3, ENTRY, jobs, workers, out)
    pool_all("pool-AB-allgates", E3, ALL, cfgs[0][1], cfgs[0][2], out, sample=(2002 if ctx.thorough else 60), rng=rng)
    # --- the main thread (which built the entities) signs for A and B before the pool threads start
    pool_all("pool-main-AB", E3, ENTRY, [T(A, [S(2, 0)]), T(B, [S(2, 1)]), jC, T(A, [S(2, 4)])], [[0, 1], [2], [3]], out,
             main_jobs=[0, 1])
    # --- every sequence of 2 and of 3 jobs over {A, B} x {sign sha256, sign sha512, verify-own} on ONE OS thread
    #     (a pool thread, and for length 2 also the main thread), C signing concurrently on a second thread
    for length in (2, 3):
        for seq in itertools.product(JOB_ALPHABET, repeat=length):
            jobs = [alphabet_job(sym, i) for i, sym in enumerate(seq)] + [T(C, [S(2, 7)])]
            gates = ENTRY if rng.random() < 0.5 else ([g for g in GATES if rng.random() < 0.6] or ["se"])
            c = pool_case("pool-seq%d" % length, fixture_deploy(E3), gates, jobs, [[], list(range(length)), [length]], [], True)
            c["sched"] = pool_sched(rng, c)
            out.append(c)
            if length == 2:
                c = pool_case("pool-seq2-main", fixture_deploy(E3, [0, 1]), gates, jobs, [[0, 1], [2]], [], True)
                c["sched"] = pool_sched(rng, c)
                out.append(c)
    # --- random pools
    for _ in range(4000 if ctx.thorough else 150):
        out.append(random_pool_case(rng))
    return out


def random_jobs(rng, n_ent, ents, n_jobs, algs):
    jobs = []
    for _ in range(n_jobs):
        e = rng.randrange(n_ent)
        ops = []
        for _ in range(rng.choice([1, 1, 1, 2])):
            a = rng.choice(algs) if rng.random() < 0.9 else rng.choice([5, 6])
            m = rng.randrange(MAXMSG)
            if rng.random() < 0.7:
                ops.append(S(a, m))
            else:
                r = rng.random()
                vk = ["cert", rng.randrange(n_ent)] if r < 0.4 else (["own"] if r < 0.85 else ["key", rng.randrange(5)])
                asked = ents[vk[1]][1] if vk[0] == "cert" else (ents[e][1] if vk[0] == "own" else vk[1])
                if rng.random() < 0.8:
                    sk = asked if rng.random() < 0.5 else rng.choice([k for _kind, k in ents])
                    sig = REF(sk, a if a < 5 and rng.random() < 0.85 else rng.randrange(5),
                              m if rng.random() < 0.85 else rng.randrange(MAXMSG), a if a < 5 else 2)
                else:
                    sig = ["junk", rng.randrange(1000)]
                ops.append(V(m, a, sig, vk))
        via = "pack" if ents[e][0] == "raw" or rng.random() < 0.3 else "entity"
        jobs.append(T(e, ops, via))
    return jobs


def assign_jobs(rng, n_jobs, n_workers, p_main):
    """jobs -> OS threads; a job goes to the main thread with probability p_main; order within a thread shuffled"""
    workers = [[] for _ in range(n_workers + 1)]
    order = list(range(n_jobs))
    rng.shuffle(order)
    for j in order:
        w = 0 if rng.random() < p_main else 1 + rng.randrange(n_workers)
        workers[w].append(j)
    return workers


def random_pool_case(rng):
    n_ent = rng.randint(2, 3)
    keys = rng.sample(range(5), n_ent)
    if rng.random() < 0.1:
        keys[-1] = keys[0]
    ents = [[rng.choice(["sp", "idp", "raw"]), k] for k in keys]
    algs = [rng.choice([0, 1, 2, 3, 4])] * 3 + [rng.choice([0, 1, 2, 3, 4])]
    jobs = random_jobs(rng, n_ent, ents, rng.randint(2, 6), algs)
    workers = assign_jobs(rng, len(jobs), rng.randint(1, 3), 0.15)
    gates = [g for g in GATES if rng.random() < 0.6] or ["gx"]
    c = pool_case("pool-random", fixture_deploy(ents, workers[0]), gates, jobs, workers, [], True)
    c["sched"] = pool_sched(rng, c)
    return c


def rollover_case(rng, tag, deploy, n_ent_jobs=1, share=None):
    """jobs: every entity signs (same algorithm); OS threads: one per entity, or `share` = entities served by one thread"""
    ents = deploy_ents(deploy)
    a = rng.choice([0, 2, 2, 4])
    jobs = []
    for e in range(len(ents)):
        for _ in range(n_ent_jobs):
            jobs.append(T(e, [S(a, rng.randrange(MAXMSG))], "pack" if ents[e][0] == "raw" or rng.random() < 0.3 else "entity"))
    called = [st[1] for st in deploy if st[0] == "call"]
    rest = [j for j in range(len(jobs)) if j not in called]
    if share:
        workers = [called, [j for j in rest if jobs[j]["ent"] in share], [j for j in rest if jobs[j]["ent"] not in share]]
        workers = [w for i, w in enumerate(workers) if i == 0 or w]
    else:
        workers = [called] + [[j] for j in rest]
    gates = rng.choice([ENTRY, ALL, ["gx", "se"]])
    c = pool_case(tag, deploy, gates, jobs, workers, [], False)
    c["sched"] = pool_sched(rng, c)
    return c


def deployment_cases(ctx):
    """entity life cycle: key pairs are replaced at a path the configuration keeps naming (roll-over, roll-back, swap),
    with equal / later / earlier mtime, in place / by rename / by symlink switch; entities are built before and after and
    then sign concurrently.  Complete over {mtime relation} x {how} x {kind of entity} x {old entity has signed before
    the roll-over or not}; seeded random scripts in addition."""
    rng = ctx.rng
    out = []
    P, Q = 0, 1
    for dstamp in (0, 3600, -3600):
        for how in (0, 1, 2):
            for kind in ("sp", "idp", "raw"):
                for precall in ((False, True) if ctx.thorough else (rng.random() < 0.5,)):
                    k_old, k_new, k_oth = rng.sample(range(5), 3)
                    eid = rng.randrange(2)
                    d = [["install", Q, k_oth, 5000, 0], ["install", P, k_old, 5000, how], ["create", Q, "raw", 1],
                         ["create", P, kind, eid]]
                    if precall:
                        d.append(["call", 1])                 # job 1 = the old entity's job
                    d += [["install", P, k_new, 5000 + dstamp, how], ["create", P, kind, eid]]
                    share = [1, 2] if rng.random() < 0.3 else None
                    out.append(rollover_case(rng, "deploy-rollover", d, share=share))
    for how in (0, 1, 2):
        for kind in ("raw", "sp"):
            k0, k1 = rng.sample(range(5), 2)
            # roll-back: P holds k0, k1, k0 again - all with one time stamp; an entity is built after each
            d = [["install", P, k0, 5000, how], ["create", P, kind, 0], ["install", P, k1, 5000, how], ["create", P, kind, 0],
                 ["install", P, k0, 5000, how], ["create", P, kind, 0]]
            out.append(rollover_case(rng, "deploy-rollback", d))
        # two paths exchange their key pairs
        k0, k1 = rng.sample(range(5), 2)
        d = [["install", P, k0, 5000, how], ["install", Q, k1, 5000, how], ["create", P, "raw", 1], ["create", Q, "raw", 1],
             ["install", P, k1, 5000, how], ["install", Q, k0, 5000, how], ["create", P, "raw", 1], ["create", Q, "raw", 1]]
        out.append(rollover_case(rng, "deploy-swap", d, share=[0, 2]))
    for _ in range(600 if ctx.thorough else 24):
        out.append(random_deployment_case(rng))
    return out


def random_deployment_case(rng):
    n_create = rng.randint(2, 4)
    paths = [0, 1] if rng.random() < 0.5 else [0]
    deploy, fs, n_ent = [], {}, 0
    jobs_of_ent = []
    while n_ent < n_create:
        r = rng.random()
        p = rng.choice(paths)
        if p not in fs or r < 0.35:
            k = rng.randrange(5)
            deploy.append(["install", p, k, 5000 + rng.choice([0, 0, 0, 1, 3600, -3600]), rng.randrange(3)])
            fs[p] = k
        elif r < 0.85:
            kind = rng.choice(["raw", "raw", "raw", "raw", "sp", "idp"])
            deploy.append(["create", p, kind, rng.randrange(2)])
            n_ent += 1
        elif n_ent:
            deploy.append(["call-ent", rng.randrange(n_ent)])
    return finish_random_deployment(rng, "deploy-random", deploy)


def finish_random_deployment(rng, tag, deploy):
    """jobs (one signature per entity + the main thread's calls in the middle of the script), OS threads, schedule"""
    ents = deploy_ents([st for st in deploy if st[0] != "call-ent"])
    n_ent = len(ents)
    a = rng.choice([0, 2, 4])
    jobs = [T(e, [S(a, rng.randrange(MAXMSG))], "pack" if ents[e][0] == "raw" or rng.random() < 0.3 else "entity")
            for e in range(n_ent)]
    # calls of the main thread in the middle of the script: extra jobs of entities that exist at that point
    main_jobs = []
    for st in deploy:
        if st[0] == "call-ent":
            e = st[1]
            jobs.append(T(e, [S(a, rng.randrange(MAXMSG))], "pack" if ents[e][0] == "raw" else "entity"))
            st[0], st[1] = "call", len(jobs) - 1
            main_jobs.append(len(jobs) - 1)
    n_w = rng.randint(1, 3)
    workers = [main_jobs] + [[] for _ in range(n_w)]
    order = list(range(n_ent))
    rng.shuffle(order)
    for j in order:
        workers[1 + rng.randrange(n_w)].append(j)
    gates = rng.choice([ENTRY, ALL, ["gx", "se"], ["ge"]])
    c = pool_case(tag, deploy, gates, jobs, workers, [], False)
    c["sched"] = pool_sched(rng, c)
    return c


def lineage_cases(ctx):
    """configuration OBJECTS: the Config an entity is built from is derived from the Config (or the dict) of an entity
    that lives in the same process - copy.copy + own key_file/cert_file (tests/test_39_metadata.py), reload of the
    updated dict, the very object re-pointed - before or after the parent entity was built, towards another path, the
    same path after a roll-over, or the same path unchanged.  Complete over {Saml2Client, Server} x {copy, dict reload,
    re-point} x {derived after / before the parent entity is built} x {other path, same path rolled over, same path
    same pair}; seeded: security_context(parent) called in between (what response.py does per message), the parent
    has / has not signed before, same / own entityid, chains, random scripts.  All entities then sign concurrently."""
    rng = ctx.rng
    out = []
    P, Q, R = 0, 1, 2
    for kind in ("sp", "idp"):
        for how in (1, 2, 3):
            for after in (True, False):
                for target in ("other", "rolled", "same"):
                    ka, kb, kc = rng.sample(range(5), 3)
                    eid = rng.randrange(2)
                    d = [["install", P, ka, 5000, 0], ["install", Q, kb, 5000, 0], ["conf", P, kind, 1, 0, 0]]
                    to = Q if target == "other" else P
                    roll = [["install", P, kc, 5000, rng.randrange(3)]] if target == "rolled" else []
                    ctxcall = [["ctx", 0]] if rng.random() < 0.5 else []
                    if how == 3:
                        if after:
                            d += [["build", 0]] + ([["call", 0]] if rng.random() < 0.5 else []) + ctxcall + roll
                            d += [["conf", to, kind, eid, 3, 0], ["build", 0]]
                        else:       # there and back again before / between the builds
                            d += ctxcall + roll + [["conf", to, kind, eid, 3, 0], ["build", 0], ["conf", Q if to == P else P, kind, 0, 3, 0],
                                                   ["build", 0]]
                    elif after:
                        d += [["build", 0]] + ([["call", 0]] if rng.random() < 0.5 else []) + ctxcall + roll
                        d += [["conf", to, kind, eid, how, 0], ["build", 1]]
                    else:
                        d += ctxcall + roll + [["conf", to, kind, eid, how, 0]]
                        d += [["build", 1], ["build", 0]] if rng.random() < 0.5 else [["build", 0], ["build", 1]]
                    share = [0, 1] if rng.random() < 0.3 else None
                    out.append(rollover_case(rng, "lineage-%s" % ("copy", "copy", "reload", "repoint")[how], d, share=share))
    # chains: A, B derived from A, C derived from B - each with its own path and pair; the root is re-pointed last
    for kind in ("sp", "idp"):
        for _ in range(3 if ctx.thorough else 1):
            ka, kb, kc, kd = rng.sample(range(5), 4)
            h1, h2 = rng.choice([1, 2]), rng.choice([1, 2])
            d = [["install", P, ka, 5000, 0], ["install", Q, kb, 5000, 0], ["install", R, kc, 5000, 0],
                 ["conf", P, kind, 1, 0, 0], ["build", 0], ["conf", Q, kind, 1, h1, 0], ["build", 1], ["ctx", 1],
                 ["conf", R, kind, 1, h2, 1], ["build", 2], ["install", P, kd, 5000, rng.randrange(3)], ["conf", P, kind, 0, 3, 1],
                 ["build", 1], ["create", R, "raw", 1]]
            out.append(rollover_case(rng, "lineage-chain", d, share=[1, 3]))
        # one Config object walks over the pairs k0, k1, k0 (roll-over and roll-back by re-pointing); an entity after each
        k0, k1 = rng.sample(range(5), 2)
        d = [["install", P, k0, 5000, 0], ["install", Q, k1, 5000, 0], ["conf", P, kind, 0, 0, 0], ["build", 0],
             ["conf", Q, kind, 0, 3, 0], ["build", 0], ["conf", P, kind, 0, 3, 0], ["build", 0]]
        out.append(rollover_case(rng, "lineage-repoint-back", d))
    for _ in range(500 if ctx.thorough else 16):
        out.append(random_lineage_case(rng))
    return out


def random_lineage_case(rng):
    n_build = rng.randint(2, 4)
    paths = [0, 1, 2][:rng.randint(2, 3)]
    deploy, fs, confs, n_ent = [], {}, [], 0      # confs: [kind, path]
    kind = rng.choice(["sp", "idp"])              # one kind per script: a copy keeps the class of its origin
    for p in paths:
        fs[p] = rng.randrange(5)
        deploy.append(["install", p, fs[p], 5000, rng.randrange(3)])
    guard = 0
    while n_ent < n_build and guard < 60:
        guard += 1
        r = rng.random()
        if r < 0.12:
            p = rng.choice(paths)
            fs[p] = rng.randrange(5)
            deploy.append(["install", p, fs[p], 5000 + rng.choice([0, 0, 0, 1, 3600, -3600]), rng.randrange(3)])
        elif r < 0.4 or not confs:
            how = rng.choice([0, 1, 1, 2, 3, 3]) if confs else 0
            parent = rng.randrange(len(confs)) if confs else 0
            p = rng.choice(paths)
            deploy.append(["conf", p, kind, rng.randrange(2), how, parent])
            if how == 3:
                confs[parent][1] = p
            else:
                confs.append([kind, p])
        elif r < 0.75:
            deploy.append(["build", rng.randrange(len(confs))])
            n_ent += 1
        elif r < 0.85:
            deploy.append(["ctx", rng.randrange(len(confs))])
        elif r < 0.92:
            deploy.append(["create", rng.choice(paths), "raw", 1])
            n_ent += 1
        elif n_ent:
            deploy.append(["call-ent", rng.randrange(n_ent)])
    return finish_random_deployment(rng, "lineage-random", deploy)


# ------------------------------------------------------------------------------------ configuration sources
# Where an entity's configuration comes from: a dict (create: <Class>Config().load(dict); factory: config_factory(type,
# dict)), a Config object (conf / build), a python FILE <dir>/<base>.py binding CONFIG (write / unlink / loadfile:
# load_file, config_factory(type, file), config_file= of Saml2Client / Server; with / without ".py", absolute /
# relative to the working directory).  Several tenants in one process: same / different base names in the same /
# different directories, loaded in varying order, the same file twice, files edited / removed after a load, files that
# do not exist; loads by the main thread before the pool threads start and while they wait at their gates.
def src_case(rng, tag, deploy, cwd=-1, late_at=None, p_main=0.0, gates=None, n_workers=None, alg=None, sched="random"):
    """deploy: script without call steps.  One signing job per entity that is expected to exist; entities built in
    the late part (deploy[late_at:]) are called by the main thread right after they are built, the others are served
    by the pool threads (or, with probability p_main, by the main thread as well)."""
    deploy = no_bare_missing(deploy, cwd)
    ents = deploy_ents(deploy, cwd)
    a = alg if alg is not None else rng.choice([0, 2, 2, 4])
    jobs, d2, main_jobs, pool_jobs = [], [], [], []
    n_early, e = None, 0
    for i, st in enumerate(deploy):
        if late_at is not None and i == late_at:
            n_early = len(d2)
        d2.append(st)
        if st[0] in ("create", "build", "loadfile", "factory"):
            kind, k = ents[e]
            if k is not None:
                j = len(jobs)
                jobs.append(T(e, [S(a, rng.randrange(MAXMSG))], "pack" if kind == "raw" or rng.random() < 0.3 else "entity"))
                if (late_at is not None and i >= late_at) or rng.random() < p_main:
                    d2.append(["call", j])
                    main_jobs.append(j)
                else:
                    pool_jobs.append(j)
            e += 1
    if late_at is not None and n_early is None:
        n_early = len(d2)
    n_w = n_workers or rng.randint(1, 3)
    pool = [[] for _ in range(n_w)]
    for j in pool_jobs:
        pool[rng.randrange(n_w)].append(j)
    workers = [main_jobs] + ([w for w in pool if w] or [[]])
    gates = gates or rng.choice([ENTRY, ALL, ["gx", "se"], ["ge"]])
    c = pool_case(tag, d2, gates, jobs, workers, [], False)
    c["cwd"] = cwd
    c["ents"] = ents
    if sched == "random":
        c["sched"] = pool_sched(rng, c)
        if late_at is not None:
            # a stutter entry naming the main thread would, in the model, let it go on with its LATE jobs
            c["sched"] = [w for w in c["sched"] if w != 0]
            c["late"] = [n_early, rng.randrange(len(c["sched"]) + 1)]
    return c


def no_bare_missing(deploy, cwd):
    """A file asked for by its BARE name (relative spelling from within its own directory) that does not exist is
    still answered by whatever module of that name Python finds (581b4f03 leaves head == "" alone: it cannot be told
    from a module meant to be found on sys.path; Proofs.loader_bare_missing_refuted).  The registered run does not
    ask for it: such a load is spelt with its directory instead."""
    files, out = {}, []
    for st in deploy:
        if st[0] == "write":
            files[(st[1], st[2])] = True
        elif st[0] == "unlink":
            files[(st[1], st[2])] = False
        elif st[0] == "loadfile" and eff_spell(st, cwd) >= 4 and not files.get((st[1], st[2])):
            st = st[:5] + [st[5] - 2]
        out.append(st)
    return out


def _installs(rng, n):
    ks = rng.sample(range(5), n)
    return [["install", p, ks[p], 50, rng.randrange(3)] for p in range(n)]


def _ld(rng, d, b, kind, api=None, spell=None):
    return ["loadfile", d, b, kind, rng.randrange(3) if api is None else api, rng.randrange(4) if spell is None else spell]


def source_cases(ctx):
    rng = ctx.rng
    out = []
    A, B, C = 0, 1, 2
    P, Q, R = 0, 1, 2
    reps = 3 if ctx.thorough else 1
    layouts = {"same-base-two-dirs": ((A, 0), (B, 0)), "two-bases-one-dir": ((A, 0), (A, 1)),
               "two-bases-two-dirs": ((A, 0), (B, 1)), "same-file-twice": ((A, 0), (A, 0))}
    # --- two tenants: complete over layout x entry point x kind of entity; order, spelling, working directory seeded
    for name, (f1, f2) in layouts.items():
        for api in (0, 1, 2):
            for kind in ("sp", "idp"):
                for _ in range(reps):
                    d = _installs(rng, 2) + [["write", f1[0], f1[1], P, kind, 1]]
                    if f2 != f1:
                        d.append(["write", f2[0], f2[1], Q, kind, rng.randrange(2)])
                    loads = [_ld(rng, f1[0], f1[1], kind, api), _ld(rng, f2[0], f2[1], kind, api if rng.random() < 0.5 else None)]
                    if rng.random() < 0.5:
                        loads.reverse()
                    if rng.random() < 0.4:
                        loads.append(_ld(rng, loads[0][1], loads[0][2], kind))
                    late = len(d) + rng.randrange(1, len(loads)) if rng.random() < 0.3 else None
                    out.append(src_case(rng, "src-" + name, d + loads, cwd=rng.choice([-1, A, B]), late_at=late,
                                        p_main=0.2))
    # --- the same base name in two directories: complete over spelling x working directory
    for spell in range(4):
        for cwd in (-1, A, B):
            kind = rng.choice(["sp", "idp"])
            d = _installs(rng, 2) + [["write", A, 0, P, kind, 1], ["write", B, 0, Q, kind, 1]]
            loads = [_ld(rng, A, 0, kind, None, spell), _ld(rng, B, 0, kind, None, spell)]
            if rng.random() < 0.5:
                loads.reverse()
            out.append(src_case(rng, "src-spelling", d + loads, cwd=cwd))
    # --- every interleaving (entry gates) of two tenants with one base name signing with one algorithm
    kind = "sp"
    d = _installs(rng, 2) + [["write", A, 0, P, kind, 1], ["write", B, 0, Q, kind, 1], _ld(rng, A, 0, kind, 2, 1),
                             _ld(rng, B, 0, kind, 2, 1)]
    proto = src_case(rng, "src-tenants-all", d, n_workers=2, alg=2, gates=ENTRY, sched=None)
    proto["workers"] = [[], [0], [1]]
    scheds = list(interleavings([0, worker_segments(proto, 1), worker_segments(proto, 2)]))
    if not ctx.thorough:
        scheds = rng.sample(scheds, 8)
    for sc in scheds:
        c = dict(proto)
        c["sched"] = sc
        out.append(c)
    # --- three tenants, one base name, three directories: every load order; the first is loaded again at the end
    for order in itertools.permutations((A, B, C)):
        kind = rng.choice(["sp", "idp"])
        d = _installs(rng, 3) + [["write", x, 0, x, kind, 1] for x in (A, B, C)]
        loads = [_ld(rng, x, 0, kind) for x in order] + [_ld(rng, order[0], 0, kind)]
        late = len(d) + rng.randrange(1, 4) if rng.random() < 0.5 else None
        out.append(src_case(rng, "src-three-tenants", d + loads, cwd=rng.choice([-1, A, B, C]), late_at=late))
    # --- files edited / removed after a load (importlib keeps the module loaded first under a name)
    for _ in range(reps):
        kind = rng.choice(["sp", "idp"])
        W = lambda x, b, pth: ["write", x, b, pth, kind, 1]     # noqa: E731
        L = lambda x, b: _ld(rng, x, b, kind)                    # noqa: E731
        edits = [
            ("src-edit-first-loaded", 2, [W(A, 0, P), L(A, 0), W(A, 0, Q), L(A, 0)]),
            ("src-edit-second-dir", 3, [W(A, 0, P), W(B, 0, Q), L(A, 0), L(B, 0), W(B, 0, R), L(B, 0)]),
            ("src-edit-before-load", 2, [W(A, 0, P), W(A, 0, Q), L(A, 0)]),
            ("src-unlink-rewrite", 2, [W(A, 0, P), L(A, 0), ["unlink", A, 0], W(A, 0, Q), L(A, 0)]),
            ("src-edit-crossed", 3, [W(A, 0, P), W(B, 0, Q), L(A, 0), W(A, 0, R), L(B, 0), L(A, 0)]),
            ("src-own-file-removed", 1, [W(A, 0, P), L(A, 0), ["unlink", A, 0], L(A, 0)]),
            ("src-found-file-removed", 2, [W(A, 0, P), W(B, 0, Q), L(A, 0), ["unlink", A, 0], L(B, 0), L(A, 0)]),
        ]
        for tag, n, steps in edits:
            out.append(src_case(rng, tag, _installs(rng, n) + steps, cwd=rng.choice([-1, A, B])))
        # the key FILES are rolled over under a module that stays: the pair is read when the entity is built
        k0, k1 = rng.sample(range(5), 2)
        out.append(src_case(rng, "src-keyfile-rollover", [["install", P, k0, 50, 0], W(A, 0, P), L(A, 0),
                                                          ["install", P, k1, 50, rng.randrange(3)], L(A, 0)]))
        # --- configuration files that do not exist (finding C20-F3: answered by another directory's module)
        missing = [
            ("src-missing-cached-name", 1, [W(A, 0, P), L(A, 0), L(B, 0)]),
            ("src-missing-dir-on-path", 2, [W(A, 0, P), W(A, 1, Q), L(A, 0), L(B, 1)]),
            ("src-missing-first", 1, [L(B, 0), W(A, 0, P), L(A, 0)]),
            ("src-missing-third", 2, [W(A, 0, P), W(B, 0, Q), L(A, 0), L(B, 0), L(C, 0)]),
        ]
        for tag, n, steps in missing:
            out.append(src_case(rng, tag, _installs(rng, n) + steps, cwd=rng.choice([-1, A, B])))
    # --- a configuration given as a PACKAGE directory <dir>/<base>/__init__.py
    for _ in range(reps):
        kind = rng.choice(["sp", "idp"])
        W = lambda x, b, pth: ["write", x, b, pth, kind, 1]         # noqa: E731
        K = lambda x, b, pth: ["writepkg", x, b, pth, kind, 1]      # noqa: E731
        L = lambda x, b: _ld(rng, x, b, kind)                        # noqa: E731
        packages = [
            ("src-package-alone", 2, [K(A, 0, P), L(A, 0), K(A, 0, Q), L(A, 0)]),
            ("src-package-first", 2, [W(A, 0, P), K(B, 0, Q), L(B, 0), L(A, 0), L(B, 0)]),
            ("src-package-after-file", 2, [W(A, 0, P), K(B, 0, Q), L(A, 0), L(B, 0)]),
            ("src-package-and-file", 2, [K(A, 0, Q), W(A, 0, P), L(A, 0), L(A, 0)]),
            ("src-two-packages", 2, [K(A, 0, P), K(B, 0, Q), L(A, 0), L(B, 0)]),
            ("src-package-other-name", 2, [W(A, 0, P), K(B, 1, Q), L(A, 0), L(B, 1), L(A, 1)]),
        ]
        for tag, n, steps in packages:
            out.append(src_case(rng, tag, _installs(rng, n) + steps, cwd=rng.choice([-1, A, B])))
    # --- all kinds of sources in one process, all gates, loads while the pool threads wait at their gates
    for _ in range(24 if ctx.thorough else 6):
        kind = rng.choice(["sp", "idp"])
        d = _installs(rng, 4)
        pre = [["create", 0, rng.choice(["raw", kind]), 1], ["factory", 1, kind, 1], ["conf", 2, kind, 1, 0, 0], ["build", 0],
               ["write", A, 0, 3, kind, 1], ["write", B, 0, 0, kind, 1]]
        rng.shuffle(pre)
        if pre.index(["build", 0]) < pre.index(["conf", 2, kind, 1, 0, 0]):
            i, j = pre.index(["build", 0]), pre.index(["conf", 2, kind, 1, 0, 0])
            pre[i], pre[j] = pre[j], pre[i]
        loads = [_ld(rng, A, 0, kind), _ld(rng, B, 0, kind)]
        rng.shuffle(loads)
        out.append(src_case(rng, "src-mixed", d + pre + loads, cwd=rng.choice([-1, A, B]), late_at=len(d) + len(pre),
                            gates=ALL, p_main=0.15))
    for _ in range(500 if ctx.thorough else 14):
        out.append(random_source_case(rng))
    return out


def random_source_case(rng):
    kind = rng.choice(["sp", "idp"])
    n_paths = rng.randint(2, 3)
    dirs = [0, 1, 2][:rng.randint(2, 3)]
    bases = [0, 1][:rng.randint(1, 2)]
    deploy = _installs(rng, n_paths)
    files = {}
    n_ent, n_target, guard = 0, rng.randint(2, 4), 0
    first_late = None
    while n_ent < n_target and guard < 60:
        guard += 1
        r = rng.random()
        if r < 0.28 or not files:
            f = (rng.choice(dirs), rng.choice(bases))
            files[f] = True
            deploy.append(["write", f[0], f[1], rng.randrange(n_paths), kind, rng.randrange(2)])
        elif r < 0.33:
            deploy.append(["writepkg", rng.choice(dirs), rng.choice(bases), rng.randrange(n_paths), kind, 1])
        elif r < 0.38:
            f = rng.choice(sorted(files))
            files[f] = False
            deploy.append(["unlink", f[0], f[1]])
        elif r < 0.82:
            f = rng.choice(sorted(files)) if rng.random() < 0.85 else (rng.choice(dirs), rng.choice(bases))
            deploy.append(_ld(rng, f[0], f[1], kind))
            n_ent += 1
        elif r < 0.88:
            deploy.append(["factory", rng.randrange(n_paths), kind, 1])
            n_ent += 1
        elif r < 0.93:
            deploy.append(["create", rng.randrange(n_paths), "raw", 1])
            n_ent += 1
        else:
            deploy.append(["install", rng.randrange(n_paths), rng.randrange(5), 50 + rng.choice([0, 0, 1, 36]), rng.randrange(3)])
        if first_late is None and n_ent >= 1 and rng.random() < 0.2:
            first_late = len(deploy)
    return src_case(rng, "src-random", deploy, cwd=rng.choice([-1] + dirs), late_at=first_late, p_main=0.15)


def generate(ctx):
    rng = ctx.rng
    install_gates()
    ensure_refs(range(MAXMSG))
    out = []
    A, B, C = 0, 1, 2
    # --- two threads, all six gates, one call each: every interleaving (252 per configuration)
    two = [
        ("2-sign-same", E2, [T(A, [S(2, 0)]), T(B, [S(2, 1)])]),
        ("2-sign-diff", E2, [T(A, [S(0, 2)]), T(B, [S(4, 3)])]),
        ("2-sign-same-pack", [["raw", 2], ["raw", 4]], [T(A, [S(3, 4)], "pack"), T(B, [S(3, 4)], "pack")]),
        ("2-sign-verifycert", E2, [T(A, [S(2, 0)]), T(B, [V(0, 2, REF(0, 2, 0, 2), ["cert", A])])]),
        ("2-sign-verifyown", E2, [T(A, [S(2, 0)]), T(B, [V(1, 2, REF(1, 2, 1, 2), ["own"])])]),
        ("2-verify-verify", E2, [T(A, [V(3, 1, REF(1, 1, 3, 1), ["own"])]), T(B, [V(3, 1, REF(1, 1, 3, 1), ["own"])])]),
        ("2-one-entity-same", E2, [T(A, [S(2, 0)]), T(A, [S(2, 1)])]),
        ("2-one-entity-diff", E2, [T(B, [S(1, 5)], "pack"), T(B, [S(3, 5)])]),
    ]
    if ctx.thorough:
        two += [
            ("2-sign-verifykey", E2, [T(A, [S(4, 7)]), T(B, [V(7, 4, REF(0, 4, 7, 4), ["key", 0])])]),
            ("2-verifycert-verifyown", E2, [T(A, [V(2, 0, REF(1, 0, 2, 0), ["cert", B])]),
                                            T(B, [V(2, 0, REF(0, 0, 2, 0), ["own"])])]),
            ("2-sign-unsupported", E2, [T(A, [S(2, 0)]), T(B, [V(0, 5, REF(0, 2, 0, 2), ["cert", A])])]),
        ]
    for tag, ents, threads in two:
        all_schedules(tag, ents, ALL, threads, out)
    # --- two threads, two calls each, entry gates only: every interleaving (252 per configuration)
    two2 = [
        ("2x2-sign", E2, [T(A, [S(2, 0), S(2, 2)]), T(B, [S(2, 1), S(2, 3)])]),
        ("2x2-sign-verify", E2, [T(A, [S(2, 0), V(1, 2, REF(1, 2, 1, 2), ["cert", B])]),
                                 T(B, [V(0, 2, REF(0, 2, 0, 2), ["own"]), S(2, 1)])]),
        ("2x2-mixed-alg", E2, [T(A, [S(0, 4), S(4, 4)], "pack"), T(B, [S(4, 6), S(0, 6)])]),
    ]
    for tag, ents, threads in two2:
        all_schedules(tag, ents, ENTRY, threads, out)
    # --- the two gates around the critical window only
    all_schedules("2-window", E2, ["gx", "se"], [T(A, [S(2, 0), S(2, 2)]), T(B, [S(2, 1), S(2, 3)])], out)
    # --- three threads (A, B, C), one call each, entry gates: every interleaving (1680)
    thr3 = [T(A, [S(2, 0)]), T(B, [S(2, 1)]), T(C, [S(2, 2)])]
    all_schedules("3-sign-entry", E3, ENTRY, thr3, out)
    thr3m = [T(A, [S(2, 0)]), T(B, [V(0, 2, REF(0, 2, 0, 2), ["own"])]), T(C, [S(4, 2)])]
    if ctx.thorough:
        all_schedules("3-mixed-entry", E3, ENTRY, thr3m, out)
        all_schedules("3-sign-window", E3, ["gx", "se", "sx"], thr3, out)
    else:
        all_schedules("3-mixed-entry", E3, ENTRY, thr3m, out, sample=200, rng=rng)
    # --- three threads, all gates: seeded sample of the 756756 interleavings
    all_schedules("3-sign-all", E3, ALL, thr3, out, sample=(6000 if ctx.thorough else 300), rng=rng)
    all_schedules("3-mixed-all", E3, ALL, thr3m, out, sample=(3000 if ctx.thorough else 150), rng=rng)
    # --- random programs
    for _ in range(6000 if ctx.thorough else 400):
        out.append(random_case(rng))
    # --- OS threads that serve several entities; the main thread; entities built from replaced key files
    out += pool_fixture_cases(ctx)
    # --- line / bytecode granularity (results only)
    out += fine_cases(ctx)
    # building entities costs 40-100 ms each (RSA key parsing): the deployment cases are spread evenly over the list so
    # that the chunks of the fork pool stay balanced (the order of the cases means nothing)
    dep = deployment_cases(ctx) + lineage_cases(ctx) + source_cases(ctx)
    step = max(1, len(out) // (len(dep) + 1))
    for i, c in enumerate(dep):
        out.insert(min(len(out), (i + 1) * step + i), c)
    return out


# ------------------------------------------------------------------------------------ observe
def observe(case):
    global _CUR
    if case.get("pool"):
        return observe_pool(case)
    install_gates()
    ents_spec = [tuple(e) for e in case["ents"]]
    ents = [entity(i, kind, k) for i, (kind, k) in enumerate(ents_spec)]
    msgs = set()
    for th in case["threads"]:
        for op in th["ops"]:
            msgs.add(op[2] if op[0] == "S" else op[1])
            if op[0] == "V" and op[3][0] == "ref":
                msgs.add(op[3][3])
    ensure_refs(sorted(msgs))
    n = len(case["threads"])
    results = [[] for _ in range(n)]

    def body(t):
        th = case["threads"][t]
        kind = ents_spec[th["ent"]][0]
        ent = ents[th["ent"]]

        def run():
            for op in th["ops"]:
                try:
                    if op[0] == "S":
                        r = ("url", do_sign(ent, kind, th["via"], op[1], op[2]))
                    else:
                        v = do_verify(ent, kind, op[1], op[2], op[3], op[4], ents_spec)
                        r = ("none",) if v is None else ("ver", bool(v))
                except Exception:
                    r = ("raise",)
                results[t].append(r)
        return run

    fine = case.get("mode") if case.get("mode") in ("line", "opcode") else None
    s = Sched(n, case["gates"], fine)
    workers = [threading.Thread(target=s.worker, args=(t, body(t)), daemon=True) for t in range(n)]
    _CUR = s
    try:
        for w in workers:
            w.start()
        for t in case["sched"]:
            s.release(t)
        for t, cnt in case.get("runs", []):
            for _ in range(cnt):
                if not s.release(t):
                    break
        complete = all(s.done)
        counts = [len(r) for r in results]
        trace = list(s.trace)
        drained = 0
        for t in range(n):
            while s.release(t):
                drained += 1
        if fine:
            counts = [len(r) for r in results]
        for w in workers:
            w.join(30)
    finally:
        _CUR = None
    outs = []
    for t in range(n):
        row = []
        for r in results[t][:counts[t]]:
            if r[0] == "url":
                row.append(abstract_location(r[1], ents_spec))
            elif r[0] == "ver":
                row.append({"k": "ver", "b": r[1]})
            else:
                row.append({"k": r[0]})
        outs.append(row)
    if fine:
        # the gate points are lines/bytecodes, which the model does not name: only results are compared
        return {"outs": outs, "trace": [], "complete": all(s.done), "drained": 0, "fine_events": s.fine_events,
                "fine_drained": drained}
    return {"outs": outs, "trace": [[t, g] for t, g in trace], "complete": complete, "drained": drained}


# ------------------------------------------------------------------------------------ Coq terms
def cq_payload(m, a):
    return "(%d, %d)" % (m, a)


def cq_sig(spec):
    if spec[0] == "ref":
        _, k, d, m, a = spec
        return "(Sg %d %d %s)" % (KID0 + k, d, cq_payload(m, a))
    return "(Junk %d)" % spec[1]


def cq_op(op):
    if op[0] == "S":
        return "OSign %d %d" % (op[1], op[2])
    _, m, a, sig, vk = op
    v = {"cert": lambda: "(VCert %d)" % vk[1], "key": lambda: "(VKey %d)" % (KID0 + vk[1]), "own": lambda: "VOwn"}[vk[0]]()
    return "OVerify %s %s %s" % (cq_payload(m, a), cq_sig(sig), v)


def cq_res(r):
    if r["k"] == "sig":
        p = cq_payload(*r["p"]) if r["p"] else "(999, 999)"
        s = "(Sg %d %d %s)" % (KID0 + r["s"][0], r["s"][1], cq_payload(r["s"][2], r["s"][3])) if r["s"] else "(Junk 0)"
        return "XSig %s %s [%s]" % (p, s, "; ".join("true" if b else "false" for b in r["vm"]))
    if r["k"] == "ver":
        return "XVer %s" % ("true" if r["b"] else "false")
    if r["k"] == "none":
        return "XNone"
    if r["k"] == "unsigned":
        return "XSig (998, 998) (Junk 1) []"
    return "XRaise"


def coq_case(case, obs):
    keys = "[%s]" % "; ".join(str(KID0 + k if k is not None else 0) for _kind, k in case["ents"])
    gates = "[%s]" % "; ".join(GATE_COQ[g] for g in case["gates"])
    progs = "[%s]" % "; ".join("(%d, [%s])" % (th["ent"], "; ".join(cq_op(o) for o in th["ops"])) for th in case["threads"])
    sched = "[%s]" % "; ".join(str(t) for t in case["sched"])
    outs = "[%s]" % "; ".join("[%s]" % "; ".join(cq_res(r) for r in row) for row in obs["outs"])
    if case.get("mode") in ("line", "opcode"):
        return "C20.Corr.mk_fine %s %s %s %s" % (keys, progs, outs, "true" if obs["complete"] else "false")
    if case.get("pool"):
        steps = []
        for st in case["deploy"]:
            if st[0] == "install":
                steps.append("DInstall %d %d %d %d" % (st[1], KID0 + st[2], st[3], st[4]))
            elif st[0] == "create":
                steps.append("DCreate %d" % st[1])
            elif st[0] == "conf":
                steps.append("DConf %d %d %d" % (st[1], st[4], st[5]))
            elif st[0] == "build":
                steps.append("DBuild %d" % st[1])
            elif st[0] == "ctx":
                steps.append("DCtx %d" % st[1])
            elif st[0] == "write":
                steps.append("DWrite %d %d %d" % (st[1], st[2], st[3]))
            elif st[0] == "unlink":
                steps.append("DUnlink %d %d" % (st[1], st[2]))
            elif st[0] == "writepkg":
                steps.append("DWritePkg %d %d %d" % (st[1], st[2], st[3]))
            elif st[0] == "loadfile":
                steps.append("DLoadFile %d %d %d %d" % (st[1], st[2], st[4], eff_spell(st, case.get("cwd", -1))))
            elif st[0] == "factory":
                steps.append("DFactory %d" % st[1])
            else:
                steps.append("DCall %d" % st[1])
        trace = "[%s]" % "; ".join("(%d, %s)" % (t, GATE_COQ[g]) for t, g in obs["trace"])
        workers = "[%s]" % "; ".join("[%s]" % "; ".join(str(j) for j in w) for w in case["workers"])
        wsched = "[%s]" % "; ".join(str(t) for t in model_sched(case))
        return "C20.Corr.%s [%s] %s %s %s %s %s %s %s [%s]" % (
            "mk_src" if has_file_steps(case["deploy"]) else "mk_pool", "; ".join(steps), gates, progs, workers, wsched, outs, trace,
            "true" if obs["complete"] and not obs["drained"] else "false", "; ".join(str(c) for c in obs["certs"]))
    trace = "[%s]" % "; ".join("(%d, %s)" % (t, GATE_COQ[g]) for t, g in obs["trace"])
    return "C20.Corr.mk %s %s %s %s %s %s %s" % (keys, gates, progs, sched, outs, trace,
                                                  "true" if obs["complete"] and not obs["drained"] else "false")


def switches(sched):
    return sum(1 for i in range(1, len(sched)) if sched[i] != sched[i - 1])


def nontrivial(case, obs):
    if case.get("mode") in ("line", "opcode"):
        runs = [r for r in case["runs"] if r[1] > 0]
        if len(runs) < 3:
            return None
        cfg = hashlib.sha1(repr((case["ents"], case["threads"])).encode()).hexdigest()[:10]
        return [cfg, case["mode"], hashlib.sha1(repr(runs).encode()).hexdigest()[:16]]
    if case.get("pool"):
        # an OS thread (main thread included) that serves two entities one after the other, or a path whose key
        # pair is replaced before an entity is built from it
        shared = any(len({case["threads"][j]["ent"] for j in w}) > 1 for w in case["workers"])
        seen, rolled = set(), False
        for st in case["deploy"]:
            if st[0] == "install":
                rolled = rolled or st[1] in seen
                seen.add(st[1])
        derived = any(st[0] == "conf" and st[4] != 0 for st in case["deploy"])
        if not (shared or rolled or derived or has_file_steps(case["deploy"])):
            return None
        cfg = hashlib.sha1(repr((case["deploy"], case["gates"], case["threads"], case["workers"], case.get("cwd"),
                                 case.get("late"))).encode()).hexdigest()[:10]
        return [cfg, case["sched"]]
    if not v0_sensitive(case):
        return None
    cfg = hashlib.sha1(repr((case["ents"], case["gates"], case["threads"])).encode()).hexdigest()[:10]
    return [cfg, case["sched"]]


def histogram(cases, observed):
    h = {"by_tag": {}, "threads": {}, "results": {}, "schedule_len": {}, "switches": {},
         "window_interleaved(v0_sensitive)": 0, "gate_events": 0, "sig_alg": {}, "via": {},
         "fine_mode_cases": {}, "fine_mode_scheduling_points": 0, "pool_cases": {}, "deploy": {}, "sources": {}}
    for c, o in zip(cases, observed):
        if c.get("mode") in ("line", "opcode"):
            h["fine_mode_cases"][c["mode"]] = h["fine_mode_cases"].get(c["mode"], 0) + 1
            h["fine_mode_scheduling_points"] += o.get("fine_events", 0)
        h["by_tag"][c["tag"]] = h["by_tag"].get(c["tag"], 0) + 1
        n = str(len(c["threads"]))
        h["threads"][n] = h["threads"].get(n, 0) + 1
        b = str(10 * (len(c["sched"]) // 10))
        h["schedule_len"][b] = h["schedule_len"].get(b, 0) + 1
        sw = str(5 * (switches(c["sched"]) // 5))
        h["switches"][sw] = h["switches"].get(sw, 0) + 1
        if c.get("pool"):
            h["pool_cases"]["os_threads=%d" % (len(c["workers"]) - 1 + (1 if c["workers"][0] else 0))] = \
                h["pool_cases"].get("os_threads=%d" % (len(c["workers"]) - 1 + (1 if c["workers"][0] else 0)), 0) + 1
            if any(len({c["threads"][j]["ent"] for j in w}) > 1 for w in c["workers"]):
                h["pool_cases"]["an_os_thread_serves_two_entities"] = h["pool_cases"].get("an_os_thread_serves_two_entities", 0) + 1
            if c["workers"][0]:
                h["pool_cases"]["main_thread_calls"] = h["pool_cases"].get("main_thread_calls", 0) + 1
            if not c["fixture"]:
                inst = [st for st in c["deploy"] if st[0] == "install"]
                for st in inst:
                    h["deploy"]["how:" + HOWS[st[4]]] = h["deploy"].get("how:" + HOWS[st[4]], 0) + 1
                for p in {st[1] for st in inst}:
                    stamps = [st[3] for st in inst if st[1] == p]
                    for x, y in zip(stamps, stamps[1:]):
                        rel = "same-mtime" if x == y else ("later" if y > x else "earlier")
                        h["deploy"]["replace:" + rel] = h["deploy"].get("replace:" + rel, 0) + 1
                h["deploy"]["entities_built"] = h["deploy"].get("entities_built", 0) + len(c["ents"])
                for st in c["deploy"]:
                    if st[0] == "conf":
                        key = "config:" + ("fresh", "copy.copy", "dict-reload", "re-pointed")[st[4]]
                        h["deploy"][key] = h["deploy"].get(key, 0) + 1
                    elif st[0] == "ctx":
                        h["deploy"]["security_context_calls"] = h["deploy"].get("security_context_calls", 0) + 1
                if has_file_steps(c["deploy"]):
                    source_histogram(c, o, h["sources"])
        elif c.get("mode") not in ("line", "opcode") and v0_sensitive(c):
            h["window_interleaved(v0_sensitive)"] += 1
        h["gate_events"] += len(o["trace"])
        for th in c["threads"]:
            h["via"][th["via"]] = h["via"].get(th["via"], 0) + 1
            for op in th["ops"]:
                if op[0] == "S":
                    h["sig_alg"][str(op[1])] = h["sig_alg"].get(str(op[1]), 0) + 1
        for row in o["outs"]:
            for r in row:
                k = r["k"]
                if k == "sig":
                    k = "sig:" + ("".join("1" if x else "0" for x in r["vm"]))
                elif k == "ver":
                    k = "ver:%s" % r["b"]
                h["results"][k] = h["results"].get(k, 0) + 1
    return h


def source_histogram(c, o, h):
    """what the source cases exercised (statistics; the model's view of every load is recomputed here)"""
    def inc(k, n=1):
        h[k] = h.get(k, 0) + n
    inc("cases")
    inc("cwd:" + ("scratch" if c.get("cwd", -1) < 0 else "a-tenant-directory"))
    if c.get("late"):
        inc("loads_while_pool_threads_wait_at_gates")
    ld, n = LoaderSim(), 0
    for st in c["deploy"]:
        if st[0] == "write":
            inc("file:edited" if ld.files.get((st[1], st[2])) is not None else "file:written")
            ld.files[(st[1], st[2])] = (st[3], st[4])
        elif st[0] == "writepkg":
            inc("package:edited" if ld.pkgs.get((st[1], st[2])) is not None else "package:written")
            ld.pkgs[(st[1], st[2])] = (st[3], st[4])
        elif st[0] == "unlink":
            inc("file:removed")
            ld.files[(st[1], st[2])] = None
        elif st[0] == "factory":
            inc("config_factory(dict)")
            n += 1
        elif st[0] in ("create", "build"):
            n += 1
        elif st[0] == "loadfile":
            inc("api:" + ("load_file", "config_factory(file)", "config_file=")[st[4]])
            sp = eff_spell(st, c.get("cwd", -1))
            inc("spelling:" + ("absolute", "absolute.py", "relative", "relative.py", "bare", "bare.py")[sp])
            cached = ld.mods.get(st[2])
            now = ld.files.get((st[1], st[2]))
            got = ld.load(st[1], st[2], sp >= 4)
            if now is None:
                origin = ld.mods.get(st[2])
                inc("load:file-missing->" + ("raises" if got is None else
                                             "answered-by-the-package-of-that-directory" if origin and origin[0] == st[1] and origin[1] else
                                             "answered-by-its-own-earlier-module" if origin and origin[0] == st[1] else
                                             "answered-by-another-module"))
            elif got is None:
                inc("load:raises(file of the module found was removed)")
            elif cached is None:
                inc("load:first-of-its-name")
            elif cached[0] == st[1]:
                inc("load:same-file-again" + ("(stale: edited since)" if got != now else ""))
            else:
                inc("load:same-name-other-directory")
            n += 1
    inc("entities_observed", sum(1 for x in o["certs"] if x))
    inc("slots_without_entity", sum(1 for x in o["certs"] if not x))


def explain_term(term):
    return "C20.Corr.explain (%s)" % term


def shrink(case, ctx):
    return case
