"""C20 — redirect-binding signing uses the caller's own key under any thread interleaving.

Real threading.Thread workers run the public entry points (Entity.apply_binding /
pack.http_redirect_message with sign=True, sigver.verify_redirect_signature) of real entities with
distinct real RSA keys.  RSACrypto.get_signer, RSASigner.sign and RSASigner.verify are wrapped (from
here, no repo edit) with entry/exit gates; a deterministic scheduler lets exactly one worker run at a
time, from gate to gate, in the order given by the case's schedule.  Every produced signature is
identified against reference signatures made directly with the `cryptography` package (RSA
PKCS#1 v1.5 is deterministic) and verified under every entity's certificate."""
import base64
import hashlib
import itertools
import os
import sys
import threading
import zlib
from urllib.parse import parse_qs, urlencode, urlparse

from harness import env, fixtures, world
from harness.common import Raw, cq

PID = "C20"
PARALLEL = 6
IMPORTS = "From Verif Require Import C20.Model C20.Spec C20.Proofs C20.Corr."
CASE_TYPE = "C20.Corr.case"
RUNNER = "C20.Corr.run"
FINDING_CLASSES = {1: "C20-F1"}
RULE = ("schedules = lists of thread ids, one entry = run that real thread to its next gate.  Complete enumeration of "
        "ALL interleavings for 2 threads with all six gates (entry+exit of get_signer / sign / verify; 252 schedules per "
        "configuration) over the configurations {sign|sign same alg, sign|sign different alg, sign|verify(cert), "
        "sign|verify(own key), verify|verify, two threads of ONE entity same/different alg, via apply_binding and via "
        "http_redirect_message}, for 2 threads x 2 calls with entry gates only (252 per configuration), for the "
        "get-exit/sign-entry window, for 3 threads (entities A, B, C) with entry gates (1680 schedules, complete); seeded "
        "samples of the 756756 interleavings of 3 threads with all gates and of random programs (2-4 threads, 1-3 calls, "
        "random gate subsets, mixed and unsupported algorithms, explicit sigkey, two entities with one key pair, stutter "
        "entries).  In addition line- and bytecode-granular scheduling points (sys.settrace; results only): complete "
        "single-pre-emption schedules for 5 two-thread configurations, seeded two-pre-emption and bursty schedules.  "
        "non-trivial = distinct (configuration, schedule) where another thread's get_signer on the same algorithm runs "
        "between a get_signer and the sign/verify that uses its result (gate modes), or with >= 1 pre-emption (fine modes)")
TRUSTED = ["deterministic scheduler + gate wrappers / trace hooks in harness/c20.py (one worker runs at a time; switches "
           "only at gates, or at line / bytecode events in the fine modes)",
           "reference signatures / certificate verification done with the `cryptography` package directly",
           "identification of a signature value with (key, digest, octets) by byte equality with the reference"]
ASSUMPTIONS = ["ideal signatures (hypothesis of c20_own_key; real RSA PKCS#1 v1.5 is executed in the correspondence)",
               "the model's atomic step is gate-to-gate: pre-emption inside get_signer/sign/verify or between two gates is "
               "not in the model; the correspondence exhibits it only by the line/bytecode samples (notes/C20.md)",
               "XML signatures (xmlsec1 path, key file per call) are outside this mechanism"]

KEYNAMES = ["sp", "idp", "idp2", "other", "attacker"]
KID0 = 10  # key pair i is called 10+i on the Coq side (not to be confused with entity / algorithm numbers)
ALG_URIS = [
    "http://www.w3.org/2000/09/xmldsig#rsa-sha1",
    "http://www.w3.org/2001/04/xmldsig-more#rsa-sha224",
    "http://www.w3.org/2001/04/xmldsig-more#rsa-sha256",
    "http://www.w3.org/2001/04/xmldsig-more#rsa-sha384",
    "http://www.w3.org/2001/04/xmldsig-more#rsa-sha512",
    "http://www.w3.org/2001/04/xmldsig-more#rsa-md5",      # known to xmldsig, not allowed / no signer
    "http://example.org/bogus#alg",
]
GATES = ["ge", "gx", "se", "sx", "ve", "vx"]
GATE_COQ = {"ge": "GetEnter", "gx": "GetExit", "se": "SignEnter", "sx": "SignExit", "ve": "VerEnter", "vx": "VerExit"}
ALL = list(GATES)
ENTRY = ["ge", "se", "ve"]
DEST = "https://rcv.example.org/endpoint"
MAXMSG = 8

# ------------------------------------------------------------------------------------ gates + scheduler
_CUR = None
_installed = False


def install_gates():
    global _installed
    if _installed:
        return
    env.install_standin()
    import saml2.sigver as sv

    def wrap(cls, name, g_in, g_out):
        orig = cls.__dict__[name]

        def gated(self, *a, **kw):
            s = _CUR
            if s is not None:
                s.gate(g_in)
            r = orig(self, *a, **kw)
            if s is not None:
                s.gate(g_out)
            return r

        gated.__name__ = name
        gated.__wrapped__ = orig
        setattr(cls, name, gated)

    wrap(sv.RSACrypto, "get_signer", "ge", "gx")
    wrap(sv.RSASigner, "sign", "se", "sx")
    wrap(sv.RSASigner, "verify", "ve", "vx")
    _installed = True


_traced = None


def traced_files():
    """source files whose every line (or bytecode) is a scheduling point in the fine modes"""
    global _traced
    if _traced is None:
        import saml2.cryptography.asymmetric
        import saml2.entity
        import saml2.pack
        import saml2.sigver

        _traced = {os.path.realpath(m.__file__) for m in
                   (saml2.pack, saml2.sigver, saml2.entity, saml2.cryptography.asymmetric)}
        _traced |= {m.__file__ for m in (saml2.pack, saml2.sigver, saml2.entity, saml2.cryptography.asymmetric)}
    return _traced


class Sched:
    """One worker runs at a time; a worker stops at every enabled gate and when it ends."""

    def __init__(self, n, gon, fine=None):
        self.n = n
        self.gon = set(gon)
        self.fine = fine            # None | "line" | "opcode": gate at every line / bytecode of the traced files
        self.fine_events = 0
        # binary hand-off with plain locks (created locked): strict alternation scheduler <-> worker
        self.go = [threading.Lock() for _ in range(n)]
        for l in self.go:
            l.acquire()
        self.arrived = threading.Lock()
        self.arrived.acquire()
        self.done = [False] * n
        self.trace = []
        self.idx = {}

    def gate(self, label):
        t = self.idx.get(threading.get_ident())
        if t is None or label not in self.gon:
            return
        self.trace.append((t, label))
        self.arrived.release()
        self.go[t].acquire()

    def _global_trace(self, frame, event, arg):
        if frame.f_code.co_filename in traced_files():
            if self.fine == "opcode":
                frame.f_trace_opcodes = True
            return self._local_trace
        return None

    def _local_trace(self, frame, event, arg):
        if event == self.fine:
            t = self.idx.get(threading.get_ident())
            if t is not None:
                self.fine_events += 1
                self.arrived.release()
                self.go[t].acquire()
        return self._local_trace

    def worker(self, t, fn):
        self.idx[threading.get_ident()] = t
        self.go[t].acquire()
        try:
            if self.fine:
                sys.settrace(self._global_trace)
            fn()
        finally:
            sys.settrace(None)
            self.done[t] = True
            self.arrived.release()

    def release(self, t):
        if t >= self.n or self.done[t]:
            return False
        self.go[t].release()
        if not self.arrived.acquire(timeout=30):
            raise RuntimeError("scheduler: worker %d neither reached a gate nor ended" % t)
        return True


# ------------------------------------------------------------------------------------ keys, messages, references
_keys = {}
_pubs = {}
_ents = {}
_refsig = {}     # (kidx, d, octets) -> signature bytes
_sigmap = {}     # signature bytes -> (kidx, d, m, a)
_octmap = {}     # octets -> (m, a)
_refmsgs = set()


def _hash(d):
    from cryptography.hazmat.primitives import hashes

    return [hashes.SHA1, hashes.SHA224, hashes.SHA256, hashes.SHA384, hashes.SHA512][d]()


def privkey(kidx):
    if kidx not in _keys:
        from cryptography.hazmat.primitives import serialization

        with open(fixtures.key_path(KEYNAMES[kidx]), "rb") as f:
            _keys[kidx] = serialization.load_pem_private_key(f.read(), None)
    return _keys[kidx]


def pubkey(kidx):
    """public key taken from the CERTIFICATE file of the key pair"""
    if kidx not in _pubs:
        from cryptography import x509

        with open(fixtures.cert_path(KEYNAMES[kidx]), "rb") as f:
            _pubs[kidx] = x509.load_pem_x509_certificate(f.read()).public_key()
    return _pubs[kidx]


def msg_parts(m):
    typ = "SAMLRequest" if m % 2 == 0 else "SAMLResponse"
    relay = "" if m % 3 == 0 else "rs-%d/&=" % m
    tag = "AuthnRequest" if typ == "SAMLRequest" else "Response"
    text = '<samlp:%s xmlns:samlp="urn:oasis:names:tc:SAML:2.0:protocol" ID="id-%d" Version="2.0"/>' % (tag, m)
    return typ, relay, text


def deflate_b64(text):
    return base64.b64encode(zlib.compress(text.encode("utf-8"))[2:-4]).decode("ascii")


def octets_of(args, typ):
    order = [typ, "RelayState", "SigAlg"]
    return "&".join(urlencode({k: args[k]}) for k in order if k in args).encode("ascii")


def saml_args(m, a):
    typ, relay, text = msg_parts(m)
    args = {typ: deflate_b64(text)}
    if relay:
        args["RelayState"] = relay
    args["SigAlg"] = ALG_URIS[a]
    return typ, args


def octets(m, a):
    typ, args = saml_args(m, a)
    return octets_of(args, typ)


def refsig(kidx, d, octs):
    key = (kidx, d, octs)
    if key not in _refsig:
        from cryptography.hazmat.primitives.asymmetric import padding

        _refsig[key] = privkey(kidx).sign(octs, padding.PKCS1v15(), _hash(d))
    return _refsig[key]


def ensure_refs(msgs):
    for m in msgs:
        if m in _refmsgs:
            continue
        for a in range(len(ALG_URIS)):
            o = octets(m, a)
            _octmap[o] = (m, a)
            if a < 5:
                for k in range(len(KEYNAMES)):
                    for d in range(5):
                        _sigmap[refsig(k, d, o)] = (k, d, m, a)
        _refmsgs.add(m)


def junk_sig(n):
    out = b""
    i = 0
    while len(out) < 256:
        out += hashlib.sha512(b"junk-%d-%d" % (n, i)).digest()
        i += 1
    return out[:256]


def entity(slot, kind, kidx):
    """A real entity (Saml2Client / Server / bare RSACrypto) that signs with key pair kidx."""
    key = (slot, kind, kidx)
    if key not in _ents:
        install_gates()
        kn = KEYNAMES[kidx]
        over = {"key_file": fixtures.key_path(kn), "cert_file": fixtures.cert_path(kn),
                "entityid": "https://e%d.example.org/%s" % (slot, kind)}
        if kind == "sp":
            _ents[key] = world.make_sp(**over)
        elif kind == "idp":
            _ents[key] = world.make_idp(**over)
        else:
            import saml2.sigver as sv

            _ents[key] = sv.RSACrypto(sv.import_rsa_key_from_file(fixtures.key_path(kn)))
    return _ents[key]


def backend_of(ent, kind):
    return ent if kind == "raw" else ent.sec.sec_backend


# ------------------------------------------------------------------------------------ the calls
def do_sign(ent, kind, via, a, m):
    from saml2.pack import http_redirect_message

    typ, relay, text = msg_parts(m)
    if via == "entity" and kind != "raw":
        info = ent.apply_binding(world.BINDING_HTTP_REDIRECT, text, DEST, relay, response=(typ == "SAMLResponse"),
                                 sign=True, sigalg=ALG_URIS[a])
    else:
        info = http_redirect_message(text, DEST, relay, typ, sigalg=ALG_URIS[a], sign=True,
                                     backend=backend_of(ent, kind))
    return dict(info["headers"])["Location"]


def sig_bytes(spec):
    if spec[0] == "ref":
        _, k, d, m, a = spec
        return refsig(k, d, octets(m, a))
    return junk_sig(spec[1])


def do_verify(ent, kind, m, a, sigspec, vk, ents):
    import saml2.sigver as sv

    typ, args = saml_args(m, a)
    saml_msg = dict(args)
    saml_msg["Signature"] = base64.b64encode(sig_bytes(sigspec)).decode("ascii")
    cert, sigkey = None, None
    if vk[0] == "cert":
        cert = fixtures.cert_b64(KEYNAMES[ents[vk[1]][1]])
    elif vk[0] == "key":
        sigkey = privkey(vk[1])
    return sv.verify_redirect_signature(saml_msg, backend_of(ent, kind), cert, sigkey)


def abstract_location(url, ents):
    """(m, a, identified signature, verification vector) of a signed redirect URL."""
    from cryptography.hazmat.primitives.asymmetric import padding

    q = {k: v[0] for k, v in parse_qs(urlparse(url).query, keep_blank_values=True).items()}
    typ = "SAMLRequest" if "SAMLRequest" in q else "SAMLResponse"
    if "Signature" not in q or "SigAlg" not in q:
        return {"k": "unsigned"}
    sig = base64.b64decode(q["Signature"])
    args = {k: q[k] for k in (typ, "RelayState", "SigAlg") if k in q}
    octs = octets_of(args, typ)
    pl = _octmap.get(octs)
    who = _sigmap.get(sig)
    vm = []
    a = ALG_URIS.index(q["SigAlg"]) if q["SigAlg"] in ALG_URIS else 6
    for (_kind, kidx) in ents:
        ok = False
        if a < 5:
            try:
                pubkey(kidx).verify(sig, octs, padding.PKCS1v15(), _hash(a))
                ok = True
            except Exception:
                ok = False
        vm.append(ok)
    return {"k": "sig", "p": list(pl) if pl else None, "s": list(who) if who else None, "vm": vm}


# ------------------------------------------------------------------------------------ programs / schedules
def allowed(a):
    return a < 5


def op_gates(op, gon):
    """gates a call passes, in order (what the model's compile says)"""
    if op[0] == "S":
        g = ["ge", "gx", "se", "sx"] if allowed(op[1]) else []
    else:
        g = ["ge", "gx"] + (["ve", "vx"] if allowed(op[2]) else [])
    return [x for x in g if x in gon]


def nseg(thread, gon):
    return 1 + sum(len(op_gates(op, gon)) for op in thread["ops"])


def interleavings(counts):
    """all sequences over thread ids with counts[t] occurrences of t"""
    def rec(rem):
        if not any(rem):
            yield []
            return
        for t, c in enumerate(rem):
            if c:
                rem[t] -= 1
                for r in rec(rem):
                    yield [t] + r
                rem[t] += 1
    return rec(list(counts))


def random_interleaving(rng, counts):
    pool = [t for t, c in enumerate(counts) for _ in range(c)]
    rng.shuffle(pool)
    return pool


def v0_sensitive(case):
    """Would the code before c928ba99 (key kept on the shared signer object) have used a foreign key
    under this schedule?  (statistics only; the verdicts are Coq's)"""
    gon = set(case["gates"])
    streams = []
    for th in case["threads"]:
        own = case["ents"][th["ent"]][1]
        st = []
        for op in th["ops"]:
            if op[0] == "S":
                if not allowed(op[1]):
                    continue
                a, want = op[1], own
                seq = [("G", "ge"), ("get", a, own), ("G", "gx"), ("G", "se"), ("use", a, want), ("G", "sx")]
            else:
                a, vk = op[2], op[4]
                k = vk[1] if vk[0] == "key" else own
                seq = [("G", "ge"), ("get", a, k), ("G", "gx")]
                if allowed(a):
                    seq += [("G", "ve")] + ([("use", a, own)] if vk[0] == "own" else []) + [("G", "vx")]
                else:
                    seq = [("G", "ge"), ("G", "gx")]
            st += [x for x in seq if x[0] != "G" or x[1] in gon]
        streams.append(st)
    pos = [0] * len(streams)
    shared = {}
    bad = False
    for t in case["sched"]:
        if t >= len(streams):
            continue
        s = streams[t]
        while pos[t] < len(s):
            x = s[pos[t]]
            pos[t] += 1
            if x[0] == "G":
                break
            if x[0] == "get":
                shared[x[1]] = x[2]
            elif shared.get(x[1]) != x[2]:
                bad = True
    return bad


def mk(tag, ents, gates, threads, sched):
    return {"tag": tag, "ents": ents, "gates": gates, "threads": threads, "sched": sched}


def T(ent, ops, via="entity"):
    return {"ent": ent, "via": via, "ops": ops}


def S(a, m):
    return ["S", a, m]


def V(m, a, sig, vk):
    return ["V", m, a, sig, vk]


def REF(k, d, m, a):
    return ["ref", k, d, m, a]


E3 = [["sp", 0], ["idp", 1], ["idp", 3]]       # A = SP with sp.key, B = IdP with idp.key, C = IdP with other.key
E2 = E3[:2]


def all_schedules(tag, ents, gates, threads, out, sample=None, rng=None):
    counts = [nseg(t, gates) for t in threads]
    if sample is None:
        for s in interleavings(counts):
            out.append(mk(tag, ents, gates, threads, s))
    else:
        seen = set()
        while len(seen) < sample:
            s = tuple(random_interleaving(rng, counts))
            if s not in seen:
                seen.add(s)
                out.append(mk(tag, ents, gates, threads, list(s)))


def random_case(rng):
    n_ent = rng.randint(2, 4)
    kinds = ["sp", "idp", "raw"]
    keys = rng.sample(range(5), n_ent)
    if rng.random() < 0.15:
        keys[-1] = keys[0]          # two entities holding the same key pair
    ents = [[rng.choice(kinds), k] for k in keys]
    n_thr = rng.randint(2, 4)
    gates = [g for g in GATES if rng.random() < 0.6] or ["gx"]
    algs = [rng.choice([0, 1, 2, 3, 4])]
    algs += [rng.choice([0, 1, 2, 3, 4])]
    threads = []
    for t in range(n_thr):
        e = rng.randrange(n_ent)
        ops = []
        for _ in range(rng.randint(1, 3)):
            a = rng.choice(algs) if rng.random() < 0.85 else rng.choice([5, 6])
            m = rng.randrange(MAXMSG)
            if rng.random() < 0.6:
                ops.append(S(a, m))
            else:
                r = rng.random()
                vk = ["cert", rng.randrange(n_ent)] if r < 0.55 else (["own"] if r < 0.8 else ["key", rng.randrange(5)])
                asked = ents[vk[1]][1] if vk[0] == "cert" else (ents[e][1] if vk[0] == "own" else vk[1])
                if rng.random() < 0.7:
                    sk = asked if rng.random() < 0.6 else rng.randrange(5)
                    sig = REF(sk, a if a < 5 and rng.random() < 0.85 else rng.randrange(5),
                              m if rng.random() < 0.85 else rng.randrange(MAXMSG), a if a < 5 else 2)
                else:
                    sig = ["junk", rng.randrange(1000)]
                ops.append(V(m, a, sig, vk))
        via = "pack" if ents[e][0] == "raw" or rng.random() < 0.3 else "entity"
        threads.append(T(e, ops, via))
    counts = [nseg(t, gates) for t in threads]
    sched = random_interleaving(rng, counts)
    # stutter entries: a non-existent thread anywhere, finished threads at the end
    for _ in range(rng.randint(0, 2)):
        sched.insert(rng.randrange(len(sched) + 1), n_thr + rng.randrange(2))
    for _ in range(rng.randint(0, 2)):
        sched.append(rng.randrange(n_thr))
    return mk("random", ents, gates, threads, sched)


BIG = 10 ** 6


def bursty(rng, n_thr, length):
    """random schedule as runs [thread, count] with run lengths 1..13"""
    runs, n = [], 0
    while n < length:
        k = rng.choice([1, 1, 1, 2, 2, 3, 5, 8, 13])
        runs.append([rng.randrange(n_thr), k])
        n += k
    return runs


def fine_case(tag, mode, ents, threads, runs):
    c = mk(tag, ents, [], threads, [])
    c["mode"] = mode
    c["runs"] = runs
    return c


def solo_len(ents, thread, mode):
    """number of scheduling points (lines / bytecodes) the thread passes when it runs alone - on the live code"""
    return observe(fine_case("probe", mode, ents, [thread], []))["fine_events"]


def fine_cases(ctx):
    """line- and bytecode-granular schedules: every source line (bytecode) of pack.py, sigver.py, entity.py and
    cryptography/asymmetric.py executed by a worker is a scheduling point; only results are compared.
    (1) complete enumeration of the single-pre-emption schedules of two threads (thread i runs k points, thread j runs
    to its end, i finishes; every k, both orders); (2) seeded two-pre-emption schedules; (3) seeded bursty schedules."""
    rng = ctx.rng
    A, B, C = 0, 1, 2
    pairs = [
        ("ss", E2, [T(A, [S(2, 0)]), T(B, [S(2, 1)])]),
        ("ss-pack", E2, [T(A, [S(2, 0)], "pack"), T(B, [S(2, 0)], "pack")]),
        ("sv-own", E2, [T(A, [S(2, 0)]), T(B, [V(0, 2, REF(1, 2, 0, 2), ["own"])])]),
        ("one-entity-s-vkey", E2, [T(A, [S(2, 0)], "pack"), T(A, [V(0, 2, REF(1, 2, 0, 2), ["key", 1])])]),
        ("one-entity-ss", E2, [T(B, [S(1, 5)]), T(B, [S(3, 5)], "pack")]),
    ]
    out = []
    for name, ents, threads in pairs:
        for mode in ("line", "opcode"):
            n = [solo_len(ents, t, mode) for t in threads]
            for i, j in ((0, 1), (1, 0)):
                ks = list(range(n[i] + 1))
                if mode == "opcode" and not ctx.thorough:
                    ks = sorted(rng.sample(ks, min(len(ks), 25)))
                for k in ks:
                    out.append(fine_case("fine-%s-preempt1" % mode, mode, ents, threads, [[i, k], [j, BIG], [i, BIG]]))
            for _ in range(400 if ctx.thorough else 25):
                i = rng.randrange(2)
                j = 1 - i
                out.append(fine_case("fine-%s-preempt2" % mode, mode, ents, threads,
                                     [[i, rng.randrange(n[i] + 1)], [j, rng.randrange(n[j] + 1)], [i, BIG], [j, BIG]]))
    cfgs = [(e, t) for _n, e, t in pairs] + [
        (E3, [T(A, [S(2, 0)]), T(B, [S(2, 1)]), T(C, [S(2, 2)], "pack")]),
        (E2, [T(A, [S(4, 2), S(4, 4)]), T(B, [S(4, 3), V(2, 4, REF(0, 4, 2, 4), ["own"])])]),
        (E2, [T(A, [S(2, 0)]), T(B, [V(0, 2, REF(1, 2, 0, 2), ["own"])]), T(A, [V(0, 2, REF(0, 2, 0, 2), ["cert", A])])]),
        (E3, [T(B, [S(0, 6)]), T(B, [S(0, 7)], "pack"), T(C, [S(0, 6)])]),
        (E2, [T(A, [S(2, 0), S(2, 2)]), T(A, [V(0, 2, REF(1, 2, 0, 2), ["key", 1]), V(2, 2, REF(0, 2, 2, 2), ["own"])])]),
    ]
    n_line, n_opcode = (6000, 1500) if ctx.thorough else (200, 50)
    for i in range(n_line + n_opcode):
        mode = "line" if i < n_line else "opcode"
        ents, threads = cfgs[i % len(cfgs)]
        per_op = 60 if mode == "line" else 260
        length = int(per_op * sum(len(t["ops"]) for t in threads) * 1.1)
        out.append(fine_case("fine-%s-bursty" % mode, mode, ents, threads, bursty(rng, len(threads), length)))
    return out


def generate(ctx):
    rng = ctx.rng
    install_gates()
    ensure_refs(range(MAXMSG))
    out = []
    A, B, C = 0, 1, 2
    # --- two threads, all six gates, one call each: every interleaving (252 per configuration)
    two = [
        ("2-sign-same", E2, [T(A, [S(2, 0)]), T(B, [S(2, 1)])]),
        ("2-sign-diff", E2, [T(A, [S(0, 2)]), T(B, [S(4, 3)])]),
        ("2-sign-same-pack", [["raw", 2], ["raw", 4]], [T(A, [S(3, 4)], "pack"), T(B, [S(3, 4)], "pack")]),
        ("2-sign-verifycert", E2, [T(A, [S(2, 0)]), T(B, [V(0, 2, REF(0, 2, 0, 2), ["cert", A])])]),
        ("2-sign-verifyown", E2, [T(A, [S(2, 0)]), T(B, [V(1, 2, REF(1, 2, 1, 2), ["own"])])]),
        ("2-verify-verify", E2, [T(A, [V(3, 1, REF(1, 1, 3, 1), ["own"])]), T(B, [V(3, 1, REF(1, 1, 3, 1), ["own"])])]),
        ("2-one-entity-same", E2, [T(A, [S(2, 0)]), T(A, [S(2, 1)])]),
        ("2-one-entity-diff", E2, [T(B, [S(1, 5)], "pack"), T(B, [S(3, 5)])]),
    ]
    if ctx.thorough:
        two += [
            ("2-sign-verifykey", E2, [T(A, [S(4, 7)]), T(B, [V(7, 4, REF(0, 4, 7, 4), ["key", 0])])]),
            ("2-verifycert-verifyown", E2, [T(A, [V(2, 0, REF(1, 0, 2, 0), ["cert", B])]),
                                            T(B, [V(2, 0, REF(0, 0, 2, 0), ["own"])])]),
            ("2-sign-unsupported", E2, [T(A, [S(2, 0)]), T(B, [V(0, 5, REF(0, 2, 0, 2), ["cert", A])])]),
        ]
    for tag, ents, threads in two:
        all_schedules(tag, ents, ALL, threads, out)
    # --- two threads, two calls each, entry gates only: every interleaving (252 per configuration)
    two2 = [
        ("2x2-sign", E2, [T(A, [S(2, 0), S(2, 2)]), T(B, [S(2, 1), S(2, 3)])]),
        ("2x2-sign-verify", E2, [T(A, [S(2, 0), V(1, 2, REF(1, 2, 1, 2), ["cert", B])]),
                                 T(B, [V(0, 2, REF(0, 2, 0, 2), ["own"]), S(2, 1)])]),
        ("2x2-mixed-alg", E2, [T(A, [S(0, 4), S(4, 4)], "pack"), T(B, [S(4, 6), S(0, 6)])]),
    ]
    for tag, ents, threads in two2:
        all_schedules(tag, ents, ENTRY, threads, out)
    # --- the two gates around the critical window only
    all_schedules("2-window", E2, ["gx", "se"], [T(A, [S(2, 0), S(2, 2)]), T(B, [S(2, 1), S(2, 3)])], out)
    # --- three threads (A, B, C), one call each, entry gates: every interleaving (1680)
    thr3 = [T(A, [S(2, 0)]), T(B, [S(2, 1)]), T(C, [S(2, 2)])]
    all_schedules("3-sign-entry", E3, ENTRY, thr3, out)
    thr3m = [T(A, [S(2, 0)]), T(B, [V(0, 2, REF(0, 2, 0, 2), ["own"])]), T(C, [S(4, 2)])]
    if ctx.thorough:
        all_schedules("3-mixed-entry", E3, ENTRY, thr3m, out)
        all_schedules("3-sign-window", E3, ["gx", "se", "sx"], thr3, out)
    else:
        all_schedules("3-mixed-entry", E3, ENTRY, thr3m, out, sample=200, rng=rng)
    # --- three threads, all gates: seeded sample of the 756756 interleavings
    all_schedules("3-sign-all", E3, ALL, thr3, out, sample=(6000 if ctx.thorough else 300), rng=rng)
    all_schedules("3-mixed-all", E3, ALL, thr3m, out, sample=(3000 if ctx.thorough else 150), rng=rng)
    # --- random programs
    for _ in range(6000 if ctx.thorough else 400):
        out.append(random_case(rng))
    # --- line / bytecode granularity (results only)
    out += fine_cases(ctx)
    return out


# ------------------------------------------------------------------------------------ observe
def observe(case):
    global _CUR
    install_gates()
    ents_spec = [tuple(e) for e in case["ents"]]
    ents = [entity(i, kind, k) for i, (kind, k) in enumerate(ents_spec)]
    msgs = set()
    for th in case["threads"]:
        for op in th["ops"]:
            msgs.add(op[2] if op[0] == "S" else op[1])
            if op[0] == "V" and op[3][0] == "ref":
                msgs.add(op[3][3])
    ensure_refs(sorted(msgs))
    n = len(case["threads"])
    results = [[] for _ in range(n)]

    def body(t):
        th = case["threads"][t]
        kind = ents_spec[th["ent"]][0]
        ent = ents[th["ent"]]

        def run():
            for op in th["ops"]:
                try:
                    if op[0] == "S":
                        r = ("url", do_sign(ent, kind, th["via"], op[1], op[2]))
                    else:
                        v = do_verify(ent, kind, op[1], op[2], op[3], op[4], ents_spec)
                        r = ("none",) if v is None else ("ver", bool(v))
                except Exception:
                    r = ("raise",)
                results[t].append(r)
        return run

    fine = case.get("mode") if case.get("mode") in ("line", "opcode") else None
    s = Sched(n, case["gates"], fine)
    workers = [threading.Thread(target=s.worker, args=(t, body(t)), daemon=True) for t in range(n)]
    _CUR = s
    try:
        for w in workers:
            w.start()
        for t in case["sched"]:
            s.release(t)
        for t, cnt in case.get("runs", []):
            for _ in range(cnt):
                if not s.release(t):
                    break
        complete = all(s.done)
        counts = [len(r) for r in results]
        trace = list(s.trace)
        drained = 0
        for t in range(n):
            while s.release(t):
                drained += 1
        if fine:
            counts = [len(r) for r in results]
        for w in workers:
            w.join(30)
    finally:
        _CUR = None
    outs = []
    for t in range(n):
        row = []
        for r in results[t][:counts[t]]:
            if r[0] == "url":
                row.append(abstract_location(r[1], ents_spec))
            elif r[0] == "ver":
                row.append({"k": "ver", "b": r[1]})
            else:
                row.append({"k": r[0]})
        outs.append(row)
    if fine:
        # the gate points are lines/bytecodes, which the model does not name: only results are compared
        return {"outs": outs, "trace": [], "complete": all(s.done), "drained": 0, "fine_events": s.fine_events,
                "fine_drained": drained}
    return {"outs": outs, "trace": [[t, g] for t, g in trace], "complete": complete, "drained": drained}


# ------------------------------------------------------------------------------------ Coq terms
def cq_payload(m, a):
    return "(%d, %d)" % (m, a)


def cq_sig(spec):
    if spec[0] == "ref":
        _, k, d, m, a = spec
        return "(Sg %d %d %s)" % (KID0 + k, d, cq_payload(m, a))
    return "(Junk %d)" % spec[1]


def cq_op(op):
    if op[0] == "S":
        return "OSign %d %d" % (op[1], op[2])
    _, m, a, sig, vk = op
    v = {"cert": lambda: "(VCert %d)" % vk[1], "key": lambda: "(VKey %d)" % (KID0 + vk[1]), "own": lambda: "VOwn"}[vk[0]]()
    return "OVerify %s %s %s" % (cq_payload(m, a), cq_sig(sig), v)


def cq_res(r):
    if r["k"] == "sig":
        p = cq_payload(*r["p"]) if r["p"] else "(999, 999)"
        s = "(Sg %d %d %s)" % (KID0 + r["s"][0], r["s"][1], cq_payload(r["s"][2], r["s"][3])) if r["s"] else "(Junk 0)"
        return "XSig %s %s [%s]" % (p, s, "; ".join("true" if b else "false" for b in r["vm"]))
    if r["k"] == "ver":
        return "XVer %s" % ("true" if r["b"] else "false")
    if r["k"] == "none":
        return "XNone"
    if r["k"] == "unsigned":
        return "XSig (998, 998) (Junk 1) []"
    return "XRaise"


def coq_case(case, obs):
    keys = "[%s]" % "; ".join(str(KID0 + k) for _kind, k in case["ents"])
    gates = "[%s]" % "; ".join(GATE_COQ[g] for g in case["gates"])
    progs = "[%s]" % "; ".join("(%d, [%s])" % (th["ent"], "; ".join(cq_op(o) for o in th["ops"])) for th in case["threads"])
    sched = "[%s]" % "; ".join(str(t) for t in case["sched"])
    outs = "[%s]" % "; ".join("[%s]" % "; ".join(cq_res(r) for r in row) for row in obs["outs"])
    if case.get("mode") in ("line", "opcode"):
        return "C20.Corr.mk_fine %s %s %s %s" % (keys, progs, outs, "true" if obs["complete"] else "false")
    trace = "[%s]" % "; ".join("(%d, %s)" % (t, GATE_COQ[g]) for t, g in obs["trace"])
    return "C20.Corr.mk %s %s %s %s %s %s %s" % (keys, gates, progs, sched, outs, trace,
                                                  "true" if obs["complete"] and not obs["drained"] else "false")


def switches(sched):
    return sum(1 for i in range(1, len(sched)) if sched[i] != sched[i - 1])


def nontrivial(case, obs):
    if case.get("mode") in ("line", "opcode"):
        runs = [r for r in case["runs"] if r[1] > 0]
        if len(runs) < 3:
            return None
        cfg = hashlib.sha1(repr((case["ents"], case["threads"])).encode()).hexdigest()[:10]
        return [cfg, case["mode"], hashlib.sha1(repr(runs).encode()).hexdigest()[:16]]
    if not v0_sensitive(case):
        return None
    cfg = hashlib.sha1(repr((case["ents"], case["gates"], case["threads"])).encode()).hexdigest()[:10]
    return [cfg, case["sched"]]


def histogram(cases, observed):
    h = {"by_tag": {}, "threads": {}, "results": {}, "schedule_len": {}, "switches": {},
         "window_interleaved(v0_sensitive)": 0, "gate_events": 0, "sig_alg": {}, "via": {},
         "fine_mode_cases": {}, "fine_mode_scheduling_points": 0}
    for c, o in zip(cases, observed):
        if c.get("mode") in ("line", "opcode"):
            h["fine_mode_cases"][c["mode"]] = h["fine_mode_cases"].get(c["mode"], 0) + 1
            h["fine_mode_scheduling_points"] += o.get("fine_events", 0)
        h["by_tag"][c["tag"]] = h["by_tag"].get(c["tag"], 0) + 1
        n = str(len(c["threads"]))
        h["threads"][n] = h["threads"].get(n, 0) + 1
        b = str(10 * (len(c["sched"]) // 10))
        h["schedule_len"][b] = h["schedule_len"].get(b, 0) + 1
        sw = str(5 * (switches(c["sched"]) // 5))
        h["switches"][sw] = h["switches"].get(sw, 0) + 1
        if c.get("mode") not in ("line", "opcode") and v0_sensitive(c):
            h["window_interleaved(v0_sensitive)"] += 1
        h["gate_events"] += len(o["trace"])
        for th in c["threads"]:
            h["via"][th["via"]] = h["via"].get(th["via"], 0) + 1
            for op in th["ops"]:
                if op[0] == "S":
                    h["sig_alg"][str(op[1])] = h["sig_alg"].get(str(op[1]), 0) + 1
        for row in o["outs"]:
            for r in row:
                k = r["k"]
                if k == "sig":
                    k = "sig:" + ("".join("1" if x else "0" for x in r["vm"]))
                elif k == "ver":
                    k = "ver:%s" % r["b"]
                h["results"][k] = h["results"].get(k, 0) + 1
    return h


def explain_term(term):
    return "C20.Corr.explain (%s)" % term


def shrink(case, ctx):
    return case
